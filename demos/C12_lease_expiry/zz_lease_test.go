package service

import (
	gocontext "context"
	"fmt"
	"testing"
	"time"

	"github.com/orda-io/orda/client/pkg/model"
)

// slow holder: request 1 keeps the per-key lock for 6 s (slow database), request 2 arrives meanwhile.
func TestLeaseExpiry(t *testing.T) {
	w := vfNewWorld()
	w.seedCollection(vfCol, 1)
	w.seedClient(vfCUIDx, 1, model.ClientType_PERSISTENT)
	w.seedClient(vfCUIDy, 1, model.ClientType_PERSISTENT)
	d := w.seedDatatype(vfDUID, vfKey, 1, model.TypeOfDatatype_COUNTER, 1)
	w.seedOp(vfDUID, 1, 1, vfCUIDx, 1)
	subscribe(d, vfCUIDx, 1, 1)
	subscribe(d, vfCUIDy, 1, 0)
	w.store.SlowAt = 4 // the 4th command (GetOperations of request 1) takes 6 s
	done := make(chan string, 2)
	go func() {
		r, e := w.pushPullCtx(gocontext.Background(), vfCol, vfCUIDx, &model.PushPullPack{Key: vfKey, DUID: vfDUID, Type: model.TypeOfDatatype_COUNTER,
			CheckPoint: &model.CheckPoint{Sseq: 1, Cseq: 2}, Operations: []*model.Operation{vfIncOp(vfCUIDx, 2, 2)}})
		done <- fmt.Sprint("x:", r != nil, e)
	}()
	time.Sleep(200 * time.Millisecond)
	go func() {
		r, e := w.pushPullCtx(gocontext.Background(), vfCol, vfCUIDy, &model.PushPullPack{Key: vfKey, DUID: vfDUID, Type: model.TypeOfDatatype_COUNTER,
			CheckPoint: &model.CheckPoint{Sseq: 1, Cseq: 1}, Operations: []*model.Operation{vfIncOp(vfCUIDy, 1, 2)}})
		if r != nil {
			o := model.PushPullPackOption(r.Option)
			done <- fmt.Sprint("y: served error-bit=", o.HasErrorBit(), e)
			return
		}
		done <- fmt.Sprint("y:", r != nil, e)
	}()
	fmt.Println(<-done)
	fmt.Println(<-done)
	time.Sleep(300 * time.Millisecond)
	fmt.Println("log invariant:", w.logInvariant(vfDUID), "end:", w.datatype(vfDUID).Sseq.End, "ops:", len(w.store.Operations))
}
