package service

// VF_C16_PatchOverlap (C16, C12, C19; interleaving): two REST patches of the
// same document overlap.  The per-document lock lets one of them in; the other
// waits and either gets the lock later or gives up (the holder may be slower
// than the lease).  Whatever the schedule: each request is answered with a
// response or with an error - never with neither and never with both -, an
// answered patch is in the log, a refused one left no trace, the log stays
// gapless, the lock is free afterwards and the stored document is the target of
// the patch that was served last.

import (
	gocontext "context"

	"github.com/orda-io/orda/client/pkg/model"
	"github.com/orda-io/orda/client/pkg/vf"
	"github.com/orda-io/orda/server/utils"
)

func VF_C16_PatchOverlap() {
	vf.Preemptions(1 + vf.Tier())
	w := vfNewWorld()
	w.seedCollection(vfCol, 1)
	exists := vf.Choice("document-exists", 2) == 1
	if exists {
		r, e := w.svc.PatchDocument(gocontext.TODO(), &model.PatchMessage{Key: vfKey, Collection: vfCol, Json: `{"base":"0"}`})
		vf.Assert(e == nil && r != nil, "C19 the first patch creates the document")
		vf.Quiesce()
	}
	// one database command of the overlapping requests may take longer than the lock lease
	// (the only source of lease expiry here: the counterexamples replay natively)
	vf.NoSlowHolders()
	if k := vf.Choice("slow-command", 9); k > 0 {
		w.store.SlowAt = w.store.Commands + k
	}
	t := []string{`{"a":"1"}`, `{"b":"2"}`}
	var res [2]*model.PatchMessage
	var err [2]error
	done := make(chan int, 2)
	for i := 0; i < 2; i++ {
		i := i
		go func() {
			res[i], err[i] = w.svc.PatchDocument(gocontext.TODO(), &model.PatchMessage{Key: vfKey, Collection: vfCol, Json: t[i]})
			done <- i
		}()
	}
	<-done
	<-done
	vf.Quiesce()
	vf.Reach("both-returned")
	served := 0
	for i := 0; i < 2; i++ {
		vf.Assert((res[i] != nil) != (err[i] != nil), "C16 every request is answered with a response or an error, not with neither or both")
		if err[i] == nil {
			served++
			vf.Assert(jsonEq(parseJSON(res[i].Json), parseJSON(t[i])), "C19 the response JSON equals the target")
		}
		if res[i] == nil {
			vf.Reach("refused")
		}
	}
	vf.Tag("served", served)
	vf.Assert(served >= 1, "C12 at least the lock holder is served")
	sv, last, ok := w.serverDoc(vfKey)
	d, _ := w.store.GetDatatypeByKey(context0(), 1, vfKey)
	vf.Assert(ok && d != nil && w.logInvariant(d.DUID) && last == d.Sseq.End, "C06/C19 the log is gapless and replays")
	match := false
	for i := 0; i < 2; i++ {
		if err[i] == nil && jsonEq(sv, parseJSON(t[i])) {
			match = true
		}
	}
	vf.Assert(match, "C19/C12 the stored document is the target of a served patch (one-at-a-time outcome)")
	if h := utils.VFHeldLocks(); len(h) > 0 {
		vf.Tag("_held", h[0])
	}
	vf.Assert(utils.VFAllLocksFree(), "C12 the per-document lock is free afterwards")
}
