package service

// C16: every well-formed request is answered (response or RPC error), never a
// hang or a crash, and a refused request leaves stored data unchanged.
// C13 / C17 share the request space (see zz_vf_c13.go).

import (
	gocontext "context"

	"github.com/orda-io/orda/client/pkg/context"
	"github.com/orda-io/orda/client/pkg/model"
	"github.com/orda-io/orda/client/pkg/vf"
)

const (
	vfDUIDu = "UUUUUUUUUUUUUUUU" // a DUID nobody stored
	vfDUIDf = "FFFFFFFFFFFFFFFF" // a datatype of the other collection
)

// lockFree reports whether the per-key push-pull lock can be taken at once.
func (w *vfWorld) lockFree(colNum int32, key string) bool {
	ctx := context.NewOrdaContext(gocontext.TODO(), "vf")
	h := &PushPullHandler{Key: key, collectionDoc: w.collection(colNum)}
	l := w.mgr.GetLock(ctx, h.getLockKey())
	ok := l.TryLock()
	if ok {
		l.Unlock()
	}
	return ok
}

// VF_C16_Request: mutated requests.
func VF_C16_Request() {
	vf.RealFormatting()
	w := vfNewWorld()
	w.seedCollection(vfCol, 1)
	w.seedCollection(vfColB, 2)
	e := vf.U64("e")
	vf.Assume(e < 1<<62)
	// stored datatypes: one in each collection
	d := w.seedDatatype(vfDUID, vfKey, 1, model.TypeOfDatatype_COUNTER, e)
	subscribed := vf.Choice("subscribed", 2) == 1
	cx := vf.U64("cx")
	vf.Assume(cx <= e)
	if subscribed {
		subscribe(d, vfCUIDx, e, cx)
	}
	fd := w.seedDatatype(vfDUIDf, vfKey, 2, model.TypeOfDatatype_COUNTER, 0)
	subscribe(fd, vfCUIDy, 0, 0)
	w.seedClient(vfCUIDy, 2, model.ClientType_PERSISTENT)
	// the requester
	switch vf.Choice("client", 3) {
	case 0:
		w.seedClient(vfCUIDx, 1, model.ClientType_PERSISTENT)
		vf.Tag("client", "own-collection")
	case 1:
		w.seedClient(vfCUIDx, 2, model.ClientType_PERSISTENT)
		vf.Tag("client", "other-collection")
	case 2:
		vf.Tag("client", "unregistered")
	}
	collection := []string{vfCol, "nope"}[vf.Choice("collection", 2)]
	duid := []string{vfDUID, vfDUIDu, vfDUIDf}[vf.Choice("duid", 3)]
	key := []string{vfKey, "otherkey"}[vf.Choice("key", 2)]
	typ := []model.TypeOfDatatype{model.TypeOfDatatype_COUNTER, model.TypeOfDatatype_LIST}[vf.Choice("type", 2)]
	opt := vf.U32("option")
	vf.Assume(opt < 0x80) // the defined option bits
	rs, rc := vf.U64("req.sseq"), vf.U64("req.cseq")
	vf.Assume(rs <= e) // nothing of the (unmaterialised) log needs to be pulled: rs = e, or any with an empty log
	vf.Assume(vf.Any(rs == e, e == 0))
	var ops []*model.Operation
	switch vf.Choice("nops", 3) {
	case 1:
		ops = append(ops, vfIncOp(vfCUIDx, vf.U64("op.seq"), 1))
	case 2: // an operation that carries no identifier (the field is optional on the wire)
		o := vfIncOp(vfCUIDx, 1, 1)
		o.ID = nil
		ops = append(ops, o)
		vf.Tag("op", "no-identifier")
	}
	ppp := &model.PushPullPack{Key: key, DUID: duid, Option: opt, Type: typ,
		CheckPoint: &model.CheckPoint{Sseq: rs, Cseq: rc}, Operations: ops}
	o := model.PushPullPackOption(opt)
	vf.Tag("duid", duid)
	vf.Tag("bits", bitsTag(&o))
	before := w.digest(vfDUID, vfCUIDx)
	beforeF := w.digest(vfDUIDf, vfCUIDy)
	beforeG := w.global()

	var res *model.PushPullPack
	var err error
	panicked, pmsg := vf.Try(func() { res, err = w.pushPull(collection, vfCUIDx, ppp) })
	vf.Reach("returned")
	if panicked {
		vf.Tag("_panic", pmsg)
	}
	vf.Assert(!panicked, "C16 no request crashes the server")
	vf.Assert(err != nil || res != nil, "C16 the request is answered with a response or an RPC error")
	refused := err != nil
	if res != nil {
		ro := model.PushPullPackOption(res.Option)
		refused = ro.HasErrorBit()
	}
	after, afterF := w.digest(vfDUID, vfCUIDx), w.digest(vfDUIDf, vfCUIDy)
	if refused {
		vf.Reach("refused")
		vf.Assert(sameDigest(before, after) && sameDigest(beforeF, afterF) && beforeG == w.global(), "C16 a refused request changes nothing stored")
	} else {
		vf.Reach("served")
	}
	vf.Assert(sameDigest(beforeF, afterF), "C17 a request never changes a datatype of another collection")
	if collection == vfCol {
		vf.Assert(w.lockFree(1, key), "C12/C16 the per-key lock is free after the request")
	}
}

func bitsTag(o *model.PushPullPackOption) string {
	s := ""
	if o.HasCreateBit() {
		s += "C"
	}
	if o.HasSubscribeBit() {
		s += "S"
	}
	if o.HasReadOnly() {
		s += "R"
	}
	if o.HasSnapshotBit() {
		s += "N"
	}
	return s
}

func (w *vfWorld) lockFreeName(name string) bool {
	l := w.mgr.GetLock(context.NewOrdaContext(gocontext.TODO(), "vf"), name)
	ok := l.TryLock()
	if ok {
		l.Unlock()
	}
	return ok
}

// VF_C16_Abandoned (C16, C12; interleaving): the caller of a push-pull gives up
// (its context is cancelled: client disconnect, deadline) at an arbitrary moment
// while the request is being processed.  Whatever the moment, the server stays
// usable: the handler does not stay blocked holding the per-key lock, so a
// following request for the same key is served, not refused for want of the
// lock, and the log invariants hold.
func VF_C16_Abandoned() {
	vf.Preemptions(2)
	vf.NoSlowHolders()
	w := vfNewWorld()
	w.seedCollection(vfCol, 1)
	w.seedClient(vfCUIDx, 1, model.ClientType_PERSISTENT)
	w.seedClient(vfCUIDy, 1, model.ClientType_PERSISTENT)
	d := w.seedDatatype(vfDUID, vfKey, 1, model.TypeOfDatatype_COUNTER, 1)
	w.seedOp(vfDUID, 1, 1, vfCUIDx, 1)
	subscribe(d, vfCUIDx, 1, 1)
	subscribe(d, vfCUIDy, 1, 0)
	ctx, cancel := vf.WithCancel(gocontext.Background())
	done := make(chan int, 2)
	go func() {
		_, _ = w.pushPullCtx(ctx, vfCol, vfCUIDx, &model.PushPullPack{Key: vfKey, DUID: vfDUID, Type: model.TypeOfDatatype_COUNTER,
			CheckPoint: &model.CheckPoint{Sseq: 1, Cseq: 2}, Operations: []*model.Operation{vfIncOp(vfCUIDx, 2, 2)}})
		done <- 1
	}()
	go func() {
		vf.Yield()
		cancel()
		done <- 2
	}()
	<-done
	<-done
	vf.Quiesce()
	vf.Reach("abandoned")
	vf.Assert(w.logInvariant(vfDUID), "C06 the log invariants hold whatever became of the abandoned request")
	// the next request for the same key, by another client
	r, e := w.pushPullCtx(gocontext.Background(), vfCol, vfCUIDy, &model.PushPullPack{Key: vfKey, DUID: vfDUID, Type: model.TypeOfDatatype_COUNTER,
		CheckPoint: &model.CheckPoint{Sseq: 1, Cseq: 1}, Operations: []*model.Operation{vfIncOp(vfCUIDy, 1, 3)}})
	vf.Assert(e == nil && r != nil, "C16 the next request is answered")
	vf.Assert(!hasErrBit(r), "C16/C12 an abandoned request does not leave the key locked: the next request is served")
	vf.Quiesce()
	vf.Assert(w.lockFree(1, vfKey), "C12 the per-key lock is free afterwards")
	vf.Assert(w.logInvariant(vfDUID), "C06 log invariant")
}
