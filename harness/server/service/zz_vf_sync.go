package service

// Whole-system harnesses: real clients (clientImpl, DatatypeManager,
// SyncManager, WiredDatatype) talking to the real OrdaService through an
// in-process transport that copies messages like the wire does and can drop,
// duplicate or delay them.  C05, C07, C08, C13 (client side).

import (
	gocontext "context"

	"github.com/orda-io/orda/client/pkg/errors"
	"github.com/orda-io/orda/client/pkg/model"
	"github.com/orda-io/orda/client/pkg/orda"
	"github.com/orda-io/orda/client/pkg/vf"
	"github.com/orda-io/orda/server/snapshot"
	"google.golang.org/grpc"
)

func copyOp(o *model.Operation) *model.Operation {
	if o == nil {
		return nil
	}
	c := &model.Operation{OpType: o.OpType, Body: o.Body}
	if o.ID != nil {
		c.ID = &model.OperationID{Era: o.ID.Era, Lamport: o.ID.Lamport, CUID: o.ID.CUID, Seq: o.ID.Seq}
	}
	return c
}

func copyPack(p *model.PushPullPack) *model.PushPullPack {
	if p == nil {
		return nil
	}
	c := &model.PushPullPack{DUID: p.DUID, Key: p.Key, Option: p.Option, Era: p.Era, Type: p.Type}
	if p.CheckPoint != nil {
		c.CheckPoint = &model.CheckPoint{Sseq: p.CheckPoint.Sseq, Cseq: p.CheckPoint.Cseq}
	}
	for _, o := range p.Operations {
		c.Operations = append(c.Operations, copyOp(o))
	}
	return c
}

func copyMsg(m *model.PushPullMessage) *model.PushPullMessage {
	if m == nil {
		return nil
	}
	c := &model.PushPullMessage{Header: m.Header, Collection: m.Collection, Cuid: m.Cuid}
	for _, p := range m.PushPullPacks {
		c.PushPullPacks = append(c.PushPullPacks, copyPack(p))
	}
	return c
}

// vfTransport implements model.OrdaServiceClient on top of the in-process service.
type vfTransport struct {
	w *vfWorld
	// fault plan for the next ProcessPushPull
	dropResponse bool // the server handles the request but the response is lost
	duplicate    bool // the request is delivered twice; the second response is returned
	died         bool // the server died while serving (set when the store's fault plan fired)
	calls        int
	wire         bool // the two directions of the wire are scheduling points (interleaving mode)
}

func (t *vfTransport) ProcessPushPull(ctx gocontext.Context, in *model.PushPullMessage, opts ...grpc.CallOption) (res *model.PushPullMessage, err error) {
	t.calls++
	defer func() {
		if t.w.store.Dead {
			// the server process died while serving: whatever it still computed never
			// reaches the client, which sees a broken connection
			t.died = true
			res, err = nil, errors.ClientSync.New(nil, "connection lost")
		}
	}()
	if t.wire {
		vf.Yield()
	}
	if t.duplicate {
		t.duplicate = false
		_, _ = t.w.svc.ProcessPushPull(ctx, copyMsg(in))
	}
	r, e := t.w.svc.ProcessPushPull(ctx, copyMsg(in))
	if t.wire {
		vf.Yield()
	}
	if t.dropResponse {
		t.dropResponse = false
		return nil, errors.ClientSync.New(nil, "response lost")
	}
	return copyMsg(r), e
}

func (t *vfTransport) ProcessClient(ctx gocontext.Context, in *model.ClientMessage, opts ...grpc.CallOption) (*model.ClientMessage, error) {
	return t.w.svc.ProcessClient(ctx, in)
}
func (t *vfTransport) PatchDocument(ctx gocontext.Context, in *model.PatchMessage, opts ...grpc.CallOption) (*model.PatchMessage, error) {
	return t.w.svc.PatchDocument(ctx, in)
}
func (t *vfTransport) CreateCollection(ctx gocontext.Context, in *model.CollectionMessage, opts ...grpc.CallOption) (*model.CollectionMessage, error) {
	return t.w.svc.CreateCollection(ctx, in)
}
func (t *vfTransport) ResetCollection(ctx gocontext.Context, in *model.CollectionMessage, opts ...grpc.CallOption) (*model.CollectionMessage, error) {
	return t.w.svc.ResetCollection(ctx, in)
}
func (t *vfTransport) TestEncodingOperation(ctx gocontext.Context, in *model.EncodingMessage, opts ...grpc.CallOption) (*model.EncodingMessage, error) {
	return t.w.svc.TestEncodingOperation(ctx, in)
}

// vfPeer is one real client with its handler log.
type vfPeer struct {
	name    string
	tr      *vfTransport
	cli     orda.Client
	cnt     orda.Counter
	errs    int
	errText string
	lastReq *model.PushPullMessage // the latest request sent (a copy may be delivered again later)
	prevReq *model.PushPullMessage // the request before it (a copy may arrive after the newer one was processed)
	states  []model.StateOfDatatype
	lastS   uint64
	lastC   uint64
	applied int32 // reference: sum of the deltas this replica must show
}

func (w *vfWorld) newPeer(name, cuid string) *vfPeer {
	p := &vfPeer{name: name, tr: &vfTransport{w: w}}
	p.cli = orda.VFNewClient(vfCol, name, cuid, model.SyncType_MANUALLY, p.tr)
	vf.Assert(orda.VFRegister(p.cli) == nil, "client registers")
	return p
}

func (p *vfPeer) handlers() *orda.Handlers {
	return orda.NewHandlers(
		func(dt orda.Datatype, old, new model.StateOfDatatype) { p.states = append(p.states, new) },
		func(dt orda.Datatype, opList []interface{}) {},
		func(dt orda.Datatype, errs ...errors.OrdaError) {
			p.errs += len(errs)
			for _, e := range errs {
				p.errText += e.Error() + ";"
			}
		},
	)
}

// checkpointMonotone asserts that the client's checkpoint never moves backwards.
func (p *vfPeer) checkpointMonotone() {
	s, c, _, _ := orda.VFSyncState(p.cnt)
	vf.Assert(s >= p.lastS && c >= p.lastC, "C05 client checkpoint never moves backwards")
	p.lastS, p.lastC = s, c
}

func (p *vfPeer) sync() error {
	err := p.cli.Sync()
	vf.Quiesce()
	p.checkpointMonotone()
	return err
}

// serverValue rebuilds the datatype from the stored log (and latest snapshot).
func (w *vfWorld) serverValue(key string) (int32, uint64, bool) {
	d, _ := w.store.GetDatatypeByKey(context0(), 1, key)
	if d == nil {
		return 0, 0, false
	}
	m := snapshot.NewManager(context0(), w.mgr, d, w.collection(1))
	dt, last, err := m.GetLatestDatatype()
	if err != nil {
		return 0, 0, false
	}
	return dt.(orda.Counter).Get(), last, true
}

// logInvariant: stored operations of the datatype carry sseq 1..End exactly once.
func (w *vfWorld) logInvariant(duid string) bool {
	d := w.datatype(duid)
	if d == nil {
		return true
	}
	n := uint64(0)
	for _, o := range w.store.Operations {
		if o.DUID == duid {
			n++
		}
	}
	if n != d.Sseq.End {
		return false
	}
	for s := uint64(1); s <= d.Sseq.End; s++ {
		cnt := 0
		for _, o := range w.store.Operations {
			if o.DUID == duid && uint64(o.Sseq) == s {
				cnt++
			}
		}
		if cnt != 1 {
			return false
		}
	}
	for _, sc := range d.RWClients {
		if sc.CP.Sseq > d.Sseq.End {
			return false
		}
	}
	return true
}

var vfDeltas = []int32{1, 10, 100, 1000, 10000, 100000}

// VF_C05_Sync: two clients, one counter, a symbolic schedule of local
// operations and syncs, entry modes create / subscribe / subscribe-or-create;
// at quiescence both clients and the server's rebuilt copy agree, every
// operation is applied exactly once, checkpoints are monotone, handlers fire
// as promised (C13).
func VF_C05_Sync() {
	w := vfNewWorld()
	w.seedCollection(vfCol, 1)
	a, b := w.newPeer("a", vfCUIDx), w.newPeer("b", vfCUIDy)
	a.cnt = a.cli.CreateCounter(vfKey, a.handlers())
	total := int32(0)
	// a may act before it first syncs
	di := 0
	if vf.Choice("a-early-op", 2) == 1 {
		_, _ = a.cnt.IncreaseBy(vfDeltas[di])
		total += vfDeltas[di]
		di++
	}
	vf.Assert(a.sync() == nil, "C05 first sync of the creator succeeds")
	vf.Assert(orda.VFDatatypeState(a.cnt) == model.StateOfDatatype_SUBSCRIBED, "C13 creator becomes subscribed")
	// b joins late, by subscribe or subscribe-or-create
	if vf.Choice("b-mode", 2) == 0 {
		b.cnt = b.cli.SubscribeCounter(vfKey, b.handlers())
	} else {
		b.cnt = b.cli.SubscribeOrCreateCounter(vfKey, b.handlers())
	}
	steps := 3
	if vf.Tier() == 1 {
		steps = 4
	}
	for i := 0; i < steps; i++ {
		switch vf.Choice("step", 4) {
		case 0:
			_, _ = a.cnt.IncreaseBy(vfDeltas[di])
			total += vfDeltas[di]
			di++
		case 1:
			// operations issued before the subscription is established are discarded
			// by the subscribe reset (on every replica alike); they do not count
			established := orda.VFDatatypeState(b.cnt) == model.StateOfDatatype_SUBSCRIBED
			_, _ = b.cnt.IncreaseBy(vfDeltas[di])
			if established {
				total += vfDeltas[di]
			}
			di++
		case 2:
			vf.Assert(a.sync() == nil, "C05 sync succeeds")
		case 3:
			vf.Assert(b.sync() == nil, "C05 sync succeeds")
		}
		vf.Assert(w.logInvariant(orda.VFDUID(a.cnt)), "C06 log invariant after every request")
	}
	// quiescence: everybody syncs until nothing is left to push or pull
	for r := 0; r < 2; r++ {
		vf.Assert(a.sync() == nil && b.sync() == nil, "C05 sync succeeds")
	}
	vf.Reach("quiescent")
	vf.Assert(orda.VFDUID(a.cnt) == orda.VFDUID(b.cnt), "C13 exactly one datatype per key: the subscriber adopts the creator's DUID")
	vf.Assert(a.cnt.Get() == total && b.cnt.Get() == total, "C05 all clients hold the same state with every operation applied exactly once")
	sv, last, ok := w.serverValue(vfKey)
	d := w.datatype(orda.VFDUID(a.cnt))
	vf.Assert(ok && sv == total && last == d.Sseq.End, "C05/C11 the state the server rebuilds from its log is the same")
	as, ac, aseq, ab := orda.VFSyncState(a.cnt)
	bs, bc, bseq, bb := orda.VFSyncState(b.cnt)
	vf.Assert(ab == 0 && bb == 0 && ac == aseq && bc == bseq, "C05 nothing left to push")
	vf.Assert(as == d.Sseq.End && bs == d.Sseq.End, "C05 nothing left to pull")
	vf.Assert(a.errs == 0 && b.errs == 0, "C13 no error handler call in a fault-free history")
	vf.Assert(countState(a.states, model.StateOfDatatype_SUBSCRIBED) == 1 && countState(b.states, model.StateOfDatatype_SUBSCRIBED) == 1,
		"C13 the transition to subscribed is reported exactly once")
	vf.Assert(w.logInvariant(orda.VFDUID(a.cnt)), "C06 log invariant at the end")
}

func countState(l []model.StateOfDatatype, s model.StateOfDatatype) int {
	n := 0
	for _, x := range l {
		if x == s {
			n++
		}
	}
	return n
}

// exchange performs one push-pull of p's counter by hand so that the response
// can be lost, the request duplicated, or the response held back.
// fault: 0 deliver once, 1 response dropped, 2 request delivered twice, 3 response held
func (p *vfPeer) exchange(w *vfWorld, fault int, held *[]*model.PushPullPack) {
	req := orda.VFCreatePack(p.cnt)
	msg := &model.PushPullMessage{Header: model.NewMessageHeader(model.RequestType_PUSHPULLS), Collection: vfCol, Cuid: p.cuid(), PushPullPacks: []*model.PushPullPack{req}}
	p.prevReq = p.lastReq
	p.lastReq = copyMsg(msg)
	if fault == 2 {
		_, _ = w.svc.ProcessPushPull(gocontext.TODO(), copyMsg(msg))
	}
	res, err := w.svc.ProcessPushPull(gocontext.TODO(), copyMsg(msg))
	vf.Assert(err == nil && res != nil && len(res.PushPullPacks) == 1, "C16 request is answered")
	pack := copyPack(res.PushPullPacks[0])
	switch fault {
	case 1: // lost
	case 3:
		*held = append(*held, pack)
	default:
		orda.VFApplyPack(p.cnt, pack)
		vf.Quiesce()
	}
	p.checkpointMonotone()
}

func (p *vfPeer) cuid() string {
	if p.name == "a" {
		return vfCUIDx
	}
	return vfCUIDy
}

// VF_C07_Faults: lost, duplicated or delayed sync messages never lose or
// double-apply operations.
func VF_C07_Faults() {
	w := vfNewWorld()
	w.seedCollection(vfCol, 1)
	a, b := w.newPeer("a", vfCUIDx), w.newPeer("b", vfCUIDy)
	a.cnt = a.cli.CreateCounter(vfKey, a.handlers())
	vf.Assert(a.sync() == nil, "creator syncs")
	b.cnt = b.cli.SubscribeCounter(vfKey, b.handlers())
	vf.Assert(b.sync() == nil, "subscriber syncs")
	total := int32(0)
	di := 0
	var heldA, heldB []*model.PushPullPack
	steps := 4
	if vf.Tier() == 1 {
		steps = 5
	}
	trace := ""
	switch vf.Choice("prefix", 3) {
	case 1:
		// a fault-free prefix that leaves a request of a in the network whose checkpoint is
		// older than what a has pulled since: b+ B0 A0 (one step less is explored after it)
		_, _ = b.cnt.IncreaseBy(vfDeltas[di])
		total += vfDeltas[di]
		di++
		b.exchange(w, 0, &heldB)
		a.exchange(w, 0, &heldA)
		trace = "b+B0A0 "
		steps--
	case 2:
		// a fault-free prefix after which a has two answered requests behind it, each of which
		// pushed an operation (copies of the older one may still be on their way): a+ A0 a+ A0
		for r := 0; r < 2; r++ {
			_, _ = a.cnt.IncreaseBy(vfDeltas[di])
			total += vfDeltas[di]
			di++
			a.exchange(w, 0, &heldA)
		}
		trace = "a+A0a+A0 "
		steps -= 2
	}
	panicked, msg := vf.Try(func() {
		for i := 0; i < steps; i++ {
			switch vf.Choice("step", 7) {
			case 6: // a copy of an OLDER request of a arrives only now, after a newer one was processed; nobody waits for its answer
				if a.prevReq == nil {
					vf.Assume(false)
				}
				res, err := w.svc.ProcessPushPull(gocontext.TODO(), copyMsg(a.prevReq))
				vf.Assert(err == nil && res != nil && len(res.PushPullPacks) == 1, "C16 request is answered")
				vf.Quiesce()
				trace += "Oa"
			case 5: // a second copy of a's latest request is delivered only now; its response reaches a
				if a.lastReq == nil {
					vf.Assume(false)
				}
				res, err := w.svc.ProcessPushPull(gocontext.TODO(), copyMsg(a.lastReq))
				vf.Assert(err == nil && res != nil && len(res.PushPullPacks) == 1, "C16 request is answered")
				orda.VFApplyPack(a.cnt, copyPack(res.PushPullPacks[0]))
				vf.Quiesce()
				a.checkpointMonotone()
				trace += "Da"
			case 0:
				_, _ = a.cnt.IncreaseBy(vfDeltas[di])
				total += vfDeltas[di]
				di++
				trace += "a+"
			case 1:
				_, _ = b.cnt.IncreaseBy(vfDeltas[di])
				total += vfDeltas[di]
				di++
				trace += "b+"
			case 2:
				f := vf.Choice("fault", 4)
				a.exchange(w, f, &heldA)
				trace += "A" + string(rune('0'+f))
			case 3:
				f := vf.Choice("fault", 4)
				b.exchange(w, f, &heldB)
				trace += "B" + string(rune('0'+f))
			case 4: // a delayed response arrives now
				if len(heldA) > 0 {
					orda.VFApplyPack(a.cnt, heldA[0])
					heldA = heldA[1:]
					vf.Quiesce()
					a.checkpointMonotone()
					trace += "Ra"
				} else {
					vf.Assume(false)
				}
			}
			vf.Assert(w.logInvariant(orda.VFDUID(a.cnt)), "C06/C07 log invariant after every request")
		}
		// stale responses finally arrive, then everybody syncs fault-free
		for _, h := range heldA {
			orda.VFApplyPack(a.cnt, h)
			vf.Quiesce()
		}
		for _, h := range heldB {
			orda.VFApplyPack(b.cnt, h)
			vf.Quiesce()
		}
		for r := 0; r < 2; r++ {
			a.exchange(w, 0, &heldA)
			b.exchange(w, 0, &heldB)
		}
	})
	vf.Reach("quiescent")
	vf.Tag("_trace", trace)
	if panicked {
		vf.Tag("_panic", msg)
	}
	vf.Assert(!panicked, "C07 no panic under message faults")
	d := w.datatype(orda.VFDUID(a.cnt))
	vf.Assert(w.logInvariant(d.DUID), "C07 the stored log is a gapless exactly-once order")
	vf.Assert(int(d.Sseq.End) == 1+di, "C07 every issued operation is stored exactly once")
	sv, _, ok := w.serverValue(vfKey)
	vf.Assert(ok && sv == total, "C07 the server's copy equals the fault-free outcome")
	vf.Assert(a.cnt.Get() == total, "C07 replica a equals the fault-free outcome")
	vf.Assert(b.cnt.Get() == total, "C07 replica b equals the fault-free outcome")
}

// restart models a server restart after a crash: a fresh service instance on
// the same database.
func (w *vfWorld) restart() {
	vf.Quiesce() // goroutines of the dead process can no longer write (store.Dead)
	w.store.Dead = false
	w.store.FailAt = 0
	w.svc = NewOrdaService(w.mgr)
}

// VF_C08_Storage: every database command issued while serving each request of
// a two-client scenario is made to fail, or to be the last one before the
// server dies; afterwards all clients retry.
func VF_C08_Storage() {
	w := vfNewWorld()
	w.seedCollection(vfCol, 1)
	a, b := w.newPeer("a", vfCUIDx), w.newPeer("b", vfCUIDy)
	total := int32(0)
	target := vf.Choice("target-request", 4)
	mode := 1 + vf.Choice("mode", 2) // FaultError / FaultDie
	k := 1 + vf.Choice("command", 12)
	arm := func(req int) {
		if req == target {
			w.store.FailAt = w.store.Commands + k
			w.store.FaultMode = mode
		}
	}
	var failedErr error
	observe := func(req int, p *vfPeer, err error) {
		if req != target {
			vf.Assert(err == nil, "C08 fault-free request succeeds")
			return
		}
		failedErr = err
		if w.store.Dead {
			w.restart()
		}
		w.store.FailAt = 0
	}
	panicked, msg := vf.Try(func() {
		// request 0: a creates the counter and pushes one operation with it
		a.cnt = a.cli.CreateCounter(vfKey, a.handlers())
		_, _ = a.cnt.IncreaseBy(1)
		total += 1
		arm(0)
		observe(0, a, a.sync())
		// request 1: b subscribes (retrying a's create first if it failed)
		if target == 0 {
			_ = a.sync()
		}
		b.cnt = b.cli.SubscribeCounter(vfKey, b.handlers())
		arm(1)
		observe(1, b, b.sync())
		if target == 1 {
			_ = b.sync()
		}
		// request 2: a pushes another operation
		_, _ = a.cnt.IncreaseBy(10)
		total += 10
		arm(2)
		observe(2, a, a.sync())
		// request 3: b pushes and pulls
		_, _ = b.cnt.IncreaseBy(100)
		total += 100
		arm(3)
		observe(3, b, b.sync())
		// retries from all clients, fault-free
		for r := 0; r < 3; r++ {
			_ = a.sync()
			_ = b.sync()
		}
	})
	vf.Reach("retried")
	vf.Assume(w.store.Fired != "") // the chosen command index exists in the target request
	vf.Tag("command", w.store.Fired)
	vf.Tag("mode", mode)
	vf.Tag("_target", target)
	if panicked {
		vf.Tag("_panic", msg)
	}
	vf.Assert(!panicked, "C08 the client gets an error, not a crash")
	_ = failedErr
	duid := orda.VFDUID(a.cnt)
	d := w.datatype(duid)
	vf.Assert(d != nil, "C08 the datatype exists after the retries")
	vf.Assert(w.logInvariant(duid), "C08 the stored log stays a gapless exactly-once order")
	sv, _, ok := w.serverValue(vfKey)
	vf.Assert(ok && sv == total, "C08 nothing acknowledged is lost: the server's copy holds every operation once")
	vf.Assert(a.cnt.Get() == total && b.cnt.Get() == total, "C08 after retries all replicas converge as if no failure had happened")
	_, ac, aseq, ab := orda.VFSyncState(a.cnt)
	_, bc, bseq, bb := orda.VFSyncState(b.cnt)
	vf.Assert(ab == 0 && bb == 0 && ac == aseq && bc == bseq, "C08 retrying the sync succeeds: nothing is left to push")
}

// VF_C07_Entry: the first exchange of a client (create, subscribe,
// subscribe-or-create of an existing or a new key) is hit by a message fault
// (response lost, request duplicated) and repeated; afterwards everything is as
// if it had been delivered once.
func VF_C07_Entry() {
	w := vfNewWorld()
	w.seedCollection(vfCol, 1)
	a, b := w.newPeer("a", vfCUIDx), w.newPeer("b", vfCUIDy)
	total := int32(0)
	exists := vf.Choice("key-exists", 2) == 1
	if exists {
		a.cnt = a.cli.CreateCounter(vfKey, a.handlers())
		_, _ = a.cnt.IncreaseBy(1)
		total = 1
		vf.Assert(a.sync() == nil, "creator syncs")
	}
	mode := vf.Choice("entry", 3)
	vf.Tag("entry", mode)
	vf.Tag("exists", exists)
	switch mode {
	case 0:
		if exists {
			vf.Assume(false) // creating an existing key is refused (C13)
		}
		b.cnt = b.cli.CreateCounter(vfKey, b.handlers())
	case 1:
		if !exists {
			vf.Assume(false) // subscribing to a missing key is refused (C13)
		}
		b.cnt = b.cli.SubscribeCounter(vfKey, b.handlers())
	case 2:
		b.cnt = b.cli.SubscribeOrCreateCounter(vfKey, b.handlers())
	}
	if vf.Choice("local-op-before-first-sync", 2) == 1 && (mode == 0 || (mode == 2 && !exists)) {
		_, _ = b.cnt.IncreaseBy(100)
		total += 100
	}
	var held []*model.PushPullPack
	fault := 1 + vf.Choice("fault", 2) // 1: response lost, 2: request delivered twice
	vf.Tag("fault", fault)
	// between the faulted first exchange and its repeat another client may enter the
	// datatype (which exists on the server by then) and push
	between := vf.Choice("other-client-in-between", 2) == 1
	vf.Tag("between", between)
	var heldO []*model.PushPullPack
	o := a
	panicked, msg := vf.Try(func() {
		b.exchange(w, fault, &held)
		if between {
			if !exists {
				o.cnt = o.cli.SubscribeCounter(vfKey, o.handlers())
				o.exchange(w, 0, &heldO)
			}
			_, _ = o.cnt.IncreaseBy(1000)
			total += 1000
			o.exchange(w, 0, &heldO)
		}
		b.exchange(w, 0, &held)
		_, _ = b.cnt.IncreaseBy(10)
		total += 10
		b.exchange(w, 0, &held)
		if exists || between {
			a.exchange(w, 0, &heldO)
		}
	})
	vf.Reach("settled")
	if panicked {
		vf.Tag("_panic", msg)
	}
	vf.Assert(!panicked, "C07 no panic under message faults")
	vf.Assert(orda.VFDatatypeState(b.cnt) == model.StateOfDatatype_SUBSCRIBED, "C07 the entry succeeds after the repeat")
	d := w.datatype(orda.VFDUID(b.cnt))
	vf.Assert(d != nil && w.logInvariant(d.DUID), "C07 the stored log is a gapless exactly-once order")
	n := 0
	for _, dd := range w.store.Datatypes {
		if dd.Key == vfKey {
			n++
		}
	}
	vf.Assert(n == 1, "C13 exactly one datatype for the key")
	snaps := 0
	for _, o := range w.store.Operations {
		if o.DUID == d.DUID && o.OpType == model.TypeOfOperation_COUNTER_SNAPSHOT.String() {
			snaps++
		}
	}
	sv, _, ok := w.serverValue(vfKey)
	vf.Assert(ok && sv == total, "C07 the server's copy equals the fault-free outcome")
	vf.Assert(b.cnt.Get() == total, "C07 replica b equals the fault-free outcome")
	if exists || between {
		vf.Assert(a.cnt.Get() == total, "C07 replica a equals the fault-free outcome")
	}
	_, _, _, pend := orda.VFSyncState(b.cnt)
	vf.Assert(pend == 0, "C07 nothing is left pending")
	vf.Assert(snaps == 1, "C07 the log holds the creator's snapshot operation once and nobody else's")
}
