package service

// C12 (reduced): concurrent syncs of one datatype are serialized by the per-key
// lock; requests for different keys do not block each other; lock names are
// injective.  Interleaving mode: the scheduler choice at every database round
// trip is a decision explored by the engine.

import (
	gocontext "context"

	"github.com/orda-io/orda/client/pkg/context"
	"github.com/orda-io/orda/client/pkg/model"
	"github.com/orda-io/orda/client/pkg/vf"
	"github.com/orda-io/orda/server/schema"
)


// VF_C12_Serialized: an earlier request (whose context the transport cancels
// when it returns, as gRPC does) and then two simultaneous pushes of two
// clients to the same datatype: the result must equal a one-at-a-time order.
func VF_C12_Serialized() {
	vf.Preemptions(2)
	w := vfNewWorld()
	w.seedCollection(vfCol, 1)
	w.seedClient(vfCUIDx, 1, model.ClientType_PERSISTENT)
	w.seedClient(vfCUIDy, 1, model.ClientType_PERSISTENT)
	d := w.seedDatatype(vfDUID, vfKey, 1, model.TypeOfDatatype_COUNTER, 1)
	w.seedOp(vfDUID, 1, 1, vfCUIDx, 1)
	subscribe(d, vfCUIDx, 1, 1)
	// the second client either pushes as a subscriber, or is just subscribing (its
	// request carries the subscribe bit and a provisional DUID of its own)
	// ... or is a read-only subscriber that polls
	yKind := vf.Choice("y-request", 3)
	ySubscribes, yReadOnly := yKind == 1, yKind == 2
	vf.Tag("y", yKind)
	if yKind == 0 {
		subscribe(d, vfCUIDy, 1, 0)
	}
	if yReadOnly {
		d.ROClients[vfCUIDy] = &schema.SubscribedClientDoc{CP: &model.CheckPoint{Sseq: 1, Cseq: 0}, Type: int8(model.ClientType_PERSISTENT)}
	}
	// an earlier, pull-only request of x; its context is cancelled on return
	if vf.Choice("earlier-request", 2) == 1 {
		ctx0, cancel0 := vf.WithCancel(gocontext.Background())
		r0, e0 := w.pushPullCtx(ctx0, vfCol, vfCUIDx, &model.PushPullPack{Key: vfKey, DUID: vfDUID, Type: model.TypeOfDatatype_COUNTER,
			CheckPoint: &model.CheckPoint{Sseq: 1, Cseq: 1}})
		cancel0()
		vf.Assert(e0 == nil && r0 != nil, "earlier request answered")
		vf.Tag("earlier", "cancelled-context")
	} else {
		vf.Tag("earlier", "none")
	}
	// two simultaneous pushes
	done := make(chan int, 2)
	var r1, r2 *model.PushPullPack
	var e1, e2 error
	go func() {
		ctx, cancel := vf.WithCancel(gocontext.Background())
		r1, e1 = w.pushPullCtx(ctx, vfCol, vfCUIDx, &model.PushPullPack{Key: vfKey, DUID: vfDUID, Type: model.TypeOfDatatype_COUNTER,
			CheckPoint: &model.CheckPoint{Sseq: 1, Cseq: 2}, Operations: []*model.Operation{vfIncOp(vfCUIDx, 2, 2)}})
		cancel()
		done <- 1
	}()
	go func() {
		ctx, cancel := vf.WithCancel(gocontext.Background())
		if ySubscribes {
			opt := model.PushPullBitNormal
			opt.SetSubscribeBit()
			r2, e2 = w.pushPullCtx(ctx, vfCol, vfCUIDy, &model.PushPullPack{Key: vfKey, DUID: vfDUIDu, Option: uint32(opt), Type: model.TypeOfDatatype_COUNTER,
				CheckPoint: &model.CheckPoint{Sseq: 0, Cseq: 0}})
		} else if yReadOnly {
			opt := model.PushPullBitNormal
			opt.SetReadOnlyBit()
			r2, e2 = w.pushPullCtx(ctx, vfCol, vfCUIDy, &model.PushPullPack{Key: vfKey, DUID: vfDUID, Option: uint32(opt), Type: model.TypeOfDatatype_COUNTER,
				CheckPoint: &model.CheckPoint{Sseq: 1, Cseq: 0}})
		} else {
			r2, e2 = w.pushPullCtx(ctx, vfCol, vfCUIDy, &model.PushPullPack{Key: vfKey, DUID: vfDUID, Type: model.TypeOfDatatype_COUNTER,
				CheckPoint: &model.CheckPoint{Sseq: 1, Cseq: 1}, Operations: []*model.Operation{vfIncOp(vfCUIDy, 1, 2)}})
		}
		cancel()
		done <- 2
	}()
	<-done
	<-done
	vf.Reach("both-returned")
	vf.Assert(e1 == nil && e2 == nil && r1 != nil && r2 != nil, "C12/C16 every request returns")
	o1, o2 := model.PushPullPackOption(r1.Option), model.PushPullPackOption(r2.Option)
	// a request that could not get the lock within the lease may be refused with
	// an error (and then has no effect); every other request is served
	served := uint64(0)
	wantX, wantY := uint64(1), uint64(0)
	if !o1.HasErrorBit() {
		served++
		wantX = 2
	}
	pushed := served
	if !o2.HasErrorBit() {
		served++
		if yKind == 0 {
			pushed++
			wantY = 1
		}
	}
	vf.Assert(served >= 1, "C12 at least the lock holder is served")
	vf.Assert(w.logInvariant(vfDUID), "C12/C06 the log invariants hold as after a one-at-a-time order of the served requests")
	dd := w.datatype(vfDUID)
	vf.Assert(dd.Sseq.End == 1+pushed, "C12 exactly the operations of the served requests are stored")
	vf.Assert(dd.RWClients[vfCUIDx] != nil && dd.RWClients[vfCUIDx].CP.Cseq == wantX, "C12 exactly the served requests' checkpoints are recorded")
	if ySubscribes {
		vf.Assert((dd.RWClients[vfCUIDy] != nil) == !o2.HasErrorBit(), "C12 a served subscription is recorded, whatever ran at the same moment")
		if !o2.HasErrorBit() {
			vf.Assert(r2.DUID == vfDUID, "C13 the subscriber is given the datatype's DUID")
		}
	} else if yReadOnly {
		ro := dd.ROClients[vfCUIDy]
		vf.Assert(ro != nil && ro.CP.Sseq <= dd.Sseq.End, "C06 a read-only subscriber's checkpoint never exceeds what is stored")
	} else {
		vf.Assert(dd.RWClients[vfCUIDy] != nil && dd.RWClients[vfCUIDy].CP.Cseq == wantY, "C12 exactly the served requests' checkpoints are recorded")
	}
	vf.Quiesce() // the handlers release the lock in a deferred call after replying
	vf.Assert(w.lockFree(1, vfKey), "C12 the per-key lock is free afterwards")
	// what the requests leave to be done after their answers (snapshot update, notification)
	// runs unserialised with later requests: it must not touch what those have committed
	da := w.datatype(vfDUID)
	vf.Assert(w.logInvariant(vfDUID) && da.Sseq.End == 1+pushed, "C06 work done after the answers leaves the log and its recorded end as committed")
	vf.Assert(da.RWClients[vfCUIDx] != nil && da.RWClients[vfCUIDx].CP.Cseq == wantX, "C06 ... and the recorded checkpoints")
	if yKind == 0 {
		vf.Assert(da.RWClients[vfCUIDy] != nil && da.RWClients[vfCUIDy].CP.Cseq == wantY, "C06 ... and the recorded checkpoints")
	}
}

// VF_C13_Race: two clients race SubscribeOrCreate for the same new key (each
// with its own provisional DUID): exactly one datatype must exist for the key
// afterwards and both requests must be answered.
func VF_C13_Race() {
	vf.Preemptions(2)
	w := vfNewWorld()
	w.seedCollection(vfCol, 1)
	w.seedClient(vfCUIDx, 1, model.ClientType_PERSISTENT)
	w.seedClient(vfCUIDy, 1, model.ClientType_PERSISTENT)
	opt := model.PushPullBitNormal
	opt.SetSubscribeBit().SetCreateBit()
	mk := func(duid, cuid string) *model.PushPullPack {
		return &model.PushPullPack{Key: vfKey, DUID: duid, Option: uint32(opt), Type: model.TypeOfDatatype_COUNTER,
			CheckPoint: &model.CheckPoint{Sseq: 0, Cseq: 1}, Operations: []*model.Operation{vfSnapshotOp(cuid)}}
	}
	done := make(chan int, 2)
	var r1, r2 *model.PushPullPack
	var e1, e2 error
	go func() {
		r1, e1 = w.pushPullCtx(gocontext.Background(), vfCol, vfCUIDx, mk(vfDUIDn, vfCUIDx))
		done <- 1
	}()
	go func() {
		r2, e2 = w.pushPullCtx(gocontext.Background(), vfCol, vfCUIDy, mk(vfDUIDu, vfCUIDy))
		done <- 2
	}()
	<-done
	<-done
	vf.Reach("both-returned")
	vf.Assert(e1 == nil && e2 == nil && r1 != nil && r2 != nil, "C13/C16 both racing requests are answered")
	n := 0
	for _, d := range w.store.Datatypes {
		if d.CollectionNum == 1 && d.Key == vfKey {
			n++
		}
	}
	vf.Assert(n == 1, "C13 racing SubscribeOrCreate yields exactly one datatype per collection and key")
	o1, o2 := model.PushPullPackOption(r1.Option), model.PushPullPackOption(r2.Option)
	if !o1.HasErrorBit() && !o2.HasErrorBit() {
		vf.Assert(r1.DUID == r2.DUID, "C13 both clients end up with the same datatype")
		vf.Assert(o1.HasCreateBit() != o2.HasCreateBit(), "C13 one request created the datatype, the other subscribed to it")
	}
	for _, d := range w.store.Datatypes {
		vf.Assert(w.logInvariant(d.DUID), "C06 log invariant of every stored datatype")
	}
}

// VF_C12_MultiPack: two clients sync the same two datatypes in one message
// each, the packs in opposite order.  Requests for different datatypes must not
// block each other: with holders that finish (no slow holder is modelled here)
// nobody may be refused for want of a lock, and every pack is served.
func VF_C12_MultiPack() {
	vf.Preemptions(1)
	vf.NoSlowHolders()
	w := vfNewWorld()
	w.seedCollection(vfCol, 1)
	w.seedClient(vfCUIDx, 1, model.ClientType_PERSISTENT)
	w.seedClient(vfCUIDy, 1, model.ClientType_PERSISTENT)
	keys := []string{"K1", "K2"}
	duids := []string{vfDUID, vfDUIDu}
	for i := range keys {
		d := w.seedDatatype(duids[i], keys[i], 1, model.TypeOfDatatype_COUNTER, 0)
		subscribe(d, vfCUIDx, 0, 0)
		subscribe(d, vfCUIDy, 0, 0)
	}
	pack := func(i int, cuid string) *model.PushPullPack {
		return &model.PushPullPack{Key: keys[i], DUID: duids[i], Type: model.TypeOfDatatype_COUNTER,
			CheckPoint: &model.CheckPoint{Sseq: 0, Cseq: 1}, Operations: []*model.Operation{vfIncOp(cuid, 1, 1)}}
	}
	send := func(cuid string, order []int) (*model.PushPullMessage, error) {
		msg := &model.PushPullMessage{Header: model.NewMessageHeader(model.RequestType_PUSHPULLS), Collection: vfCol, Cuid: cuid}
		for _, i := range order {
			msg.PushPullPacks = append(msg.PushPullPacks, pack(i, cuid))
		}
		ctx, cancel := vf.WithCancel(gocontext.Background())
		defer cancel()
		return w.svc.ProcessPushPull(ctx, msg)
	}
	done := make(chan int, 2)
	var r1, r2 *model.PushPullMessage
	var e1, e2 error
	go func() { r1, e1 = send(vfCUIDx, []int{0, 1}); done <- 1 }()
	go func() { r2, e2 = send(vfCUIDy, []int{1, 0}); done <- 2 }()
	<-done
	<-done
	vf.Reach("both-returned")
	vf.Assert(e1 == nil && e2 == nil && r1 != nil && r2 != nil, "C12/C16 every request returns")
	vf.Assert(len(r1.PushPullPacks) == 2 && len(r2.PushPullPacks) == 2, "C16 every pack is answered")
	for _, r := range []*model.PushPullMessage{r1, r2} {
		for _, p := range r.PushPullPacks {
			vf.Assert(!hasErrBit(p), "C12 requests for different datatypes do not block each other: nobody is refused for want of a lock")
		}
	}
	for i := range keys {
		vf.Assert(w.logInvariant(duids[i]), "C12/C06 log invariants")
		vf.Assert(w.datatype(duids[i]).Sseq.End == 2, "C12 both clients' operations are stored for each datatype")
	}
	vf.Quiesce()
	vf.Assert(w.lockFree(1, "K1") && w.lockFree(1, "K2"), "C12 both per-key locks are free afterwards")
}

// VF_C12_LockExclusion: the per-key lock itself, used by three (thorough: four)
// overlapping requests as the handlers use it (get the named lock, TryLock,
// critical section, Unlock): at no moment are two callers inside the critical
// section of one name, a caller that got the lock always leaves it free, and a
// different name is never blocked.  A chain "A holds, B waits, A leaves, C
// arrives while B holds" needs three callers; two never expose it.
func VF_C12_LockExclusion() {
	vf.Preemptions(2)
	vf.NoSlowHolders()
	w := vfNewWorld()
	n := 3
	if vf.Tier() == 1 {
		n = 4
	}
	inside, maxInside, entered := 0, 0, 0
	otherInside := 0
	done := make(chan int, n+1)
	for i := 0; i < n; i++ {
		go func() {
			rctx, cancel := vf.WithCancel(gocontext.Background())
			l := w.mgr.GetLock(context.NewOrdaContext(rctx, "vf"), "PP:1:"+vfKey)
			if l.TryLock() {
				inside++
				entered++
				if inside > maxInside {
					maxInside = inside
				}
				vf.Yield() // the critical section takes time (database round trips)
				inside--
				l.Unlock()
			}
			cancel()
			done <- 1
		}()
	}
	go func() { // a request for another key
		l := w.mgr.GetLock(context0(), "PP:1:other")
		if l.TryLock() {
			otherInside++
			vf.Yield()
			l.Unlock()
		}
		done <- 1
	}()
	for i := 0; i < n+1; i++ {
		<-done
	}
	vf.Reach("all-returned")
	vf.Assert(maxInside <= 1, "C12 two requests are never inside the critical section of one key at the same moment")
	vf.Assert(entered >= 1, "C12 at least one request gets the lock")
	vf.Assert(otherInside == 1, "C12 a request for a different key is not blocked")
	vf.Assert(w.lockFreeName("PP:1:"+vfKey) && w.lockFreeName("PP:1:other"), "C12 the locks are free afterwards")
}

