package service

// VF_C19_LongPatch (C19, C09): a REST patch whose edit script is longer than the
// client library's operation buffer (constants.OperationBufferSize, the one size
// the code names): the whole patch is appended as one unit, the stored document
// rebuilt from the log equals the target and a subscribed client converges to it.
// Concrete (no symbolic input): the size is a boundary named in the code, not a
// magnitude to search.

import (
	gocontext "context"
	"strconv"

	"github.com/orda-io/orda/client/pkg/constants"
	"github.com/orda-io/orda/client/pkg/model"
	"github.com/orda-io/orda/client/pkg/vf"
)

func VF_C19_LongPatch() {
	w := vfNewWorld()
	w.seedCollection(vfCol, 1)
	n := constants.OperationBufferSize + 3
	existing := vf.Choice("document-exists", 2) == 1
	if existing {
		r, e := w.svc.PatchDocument(gocontext.TODO(), &model.PatchMessage{Key: vfKey, Collection: vfCol, Json: `{"base":"0"}`})
		vf.Assert(e == nil && r != nil, "C19 the first patch creates the document")
		vf.Quiesce()
	}
	target := `{"base":"0"`
	for i := 0; i < n; i++ {
		target += `,"k` + strconv.Itoa(i) + `":` + strconv.Itoa(i)
	}
	target += `}`
	res, err := w.svc.PatchDocument(gocontext.TODO(), &model.PatchMessage{Key: vfKey, Collection: vfCol, Json: target})
	vf.Quiesce()
	vf.Reach("patched")
	vf.Assert(err == nil && res != nil, "C19 the REST patch is answered")
	want := parseJSON(target)
	vf.Assert(jsonEq(parseJSON(res.Json), want), "C19 the response JSON equals the target")
	sv, last, ok := w.serverDoc(vfKey)
	d, _ := w.store.GetDatatypeByKey(context0(), 1, vfKey)
	vf.Assert(d != nil && w.logInvariant(d.DUID), "C06 the log is gapless")
	vf.Assert(ok && last == d.Sseq.End, "C19/C09 the log replays: the patch is a complete unit")
	vf.Assert(jsonEq(sv, want), "C19 the stored document (rebuilt from the log) equals the target")
	vf.Assert(int(d.Sseq.End) >= n, "C19 every operation of the patch is in the log")
	// a client that subscribes now converges to the target
	b := w.newPeer("b", vfCUIDy)
	doc := b.cli.SubscribeDocument(vfKey, b.handlers())
	vf.Assert(b.cli.Sync() == nil, "subscriber syncs")
	vf.Quiesce()
	vf.Assert(b.errs == 0 && jsonEq(doc.GetValue(), want), "C19 a subscribed client converges to the target")
}
