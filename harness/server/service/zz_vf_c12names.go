package service

// The two C12 harnesses that build lock names through utils.GetLockName (they
// are set aside when that helper's signature changes; everything else reaches
// the locks through the handlers or through utils.VFAllLocksFree).

import (
	"strconv"

	"github.com/orda-io/orda/client/pkg/vf"
	"github.com/orda-io/orda/server/utils"
)

// VF_C12_LockNames: the three lock-name formats are injective in (collection
// number, key) and pairwise disjoint.
func VF_C12_LockNames() {
	prefixes := []string{"PP", "US", "PD"}
	p1, p2 := prefixes[vf.Choice("p1", 3)], prefixes[vf.Choice("p2", 3)]
	d1 := 1 + vf.Choice("digits1", 3)
	d2 := 1 + vf.Choice("digits2", 3)
	n1, n2 := vf.NatU32("n1"), vf.NatU32("n2")
	lo := []uint32{0, 10, 100}
	hi := []uint32{10, 100, 1000}
	vf.Assume(vf.All(n1 >= lo[d1-1], n1 < hi[d1-1], n2 >= lo[d2-1], n2 < hi[d2-1]))
	k1, k2 := vf.Str("k1"), vf.Str("k2")
	a := utils.GetLockName(p1, int32(n1), k1)
	b := utils.GetLockName(p2, int32(n2), k2)
	vf.Reach("named")
	vf.Assert(vf.Implies(a == b, vf.All(p1 == p2, n1 == n2, k1 == k2)), "C12 lock names are injective in (kind, collection number, key)")
}

// VF_C12_LockIndependence (C12 "requests for different datatypes neither block nor
// affect each other"): the mapping from (purpose, collection, key) to a lock
// must be one lock per name.  A request holds the lock of its own datatype
// while N requests for other names of the same shape arrive: every one of them
// gets its lock at once, while all the others are still held.  N is larger than
// any fixed-size table of lock objects one would reasonably put behind the
// names (pigeonhole), and the family contains names that differ in one
// character, in the collection number only and in the purpose only.
func VF_C12_LockIndependence() {
	w := vfNewWorld()
	n := 700
	if vf.Tier() == 1 {
		n = 3000
	}
	purposes := []string{"PP", "PD", "US"}
	var held []interface{ Unlock() bool }
	refused := 0
	first := ""
	for i := 0; i < n && refused == 0; i++ { // (a refused TryLock waits for the lease time: stop at the first one)
		for _, p := range purposes {
			for num := int32(1); num <= 2 && refused == 0; num++ {
				name := utils.GetLockName(p, num, "k"+strconv.Itoa(i))
				l := w.mgr.GetLock(context0(), name)
				if l.TryLock() {
					held = append(held, l)
				} else {
					refused++
					if first == "" {
						first = name
					}
				}
			}
		}
	}
	vf.Reach("all-asked")
	if refused > 0 {
		vf.Tag("first-refused", first)
	}
	vf.Assert(refused == 0, "C12 a request for a different datatype is never blocked by the locks other requests hold")
	for _, l := range held {
		l.Unlock()
	}
	vf.Assert(w.lockFreeName(utils.GetLockName("PP", 1, "k0")), "C12 the locks are free afterwards")
}
