package service

// VF_C18_Names (C18): the topic the server publishes on and the way the client
// finds the datatype a notification is about must agree for every collection
// name and key, not only for the plain ones: keys that begin with characters of
// the collection name, keys and collections that contain the topic separator,
// a key that extends another key.  The notification recorded at the broker
// stand-in is handed, as it is, to a second client's notification path.
import (
	"encoding/json"

	"github.com/orda-io/orda/client/pkg/model"
	"github.com/orda-io/orda/client/pkg/orda"
	"github.com/orda-io/orda/client/pkg/vf"
)

var c18Names = [][2]string{
	{"col", "key1"},
	{"orders", "order-17"}, // the key starts with characters of the collection name
	{"inventory", "item-3"},
	{"col", "a/b"},  // the key contains the topic separator
	{"col", "key1x"}, // next to a datatype "key1" of the same client
}

func VF_C18_Names() {
	w := vfNewWorld()
	pick := c18Names[vf.Choice("names", len(c18Names))]
	col, key := pick[0], pick[1]
	vf.Tag("names", col+"|"+key)
	w.seedCollection(col, 1)
	a := &vfPeer{name: "a", tr: &vfTransport{w: w}}
	a.cli = orda.VFNewClient(col, "a", vfCUIDx, model.SyncType_MANUALLY, a.tr)
	b := &vfPeer{name: "b", tr: &vfTransport{w: w}}
	b.cli = orda.VFNewClient(col, "b", vfCUIDy, model.SyncType_MANUALLY, b.tr)
	vf.Assert(orda.VFRegister(a.cli) == nil && orda.VFRegister(b.cli) == nil, "clients register")
	a.cnt = a.cli.CreateCounter(key, a.handlers())
	otherKey := "key1" // a second datatype whose key is a prefix of some keys
	if key == otherKey {
		otherKey = "key"
	}
	_ = a.cli.CreateCounter(otherKey, nil)
	vf.Assert(a.cli.Sync() == nil, "creator syncs")
	vf.Quiesce()
	b.cnt = b.cli.SubscribeCounter(key, b.handlers())
	bo := b.cli.SubscribeCounter(otherKey, nil)
	vf.Assert(b.cli.Sync() == nil, "subscriber syncs")
	vf.Quiesce()
	npub := len(w.mq.Published)
	_, _ = a.cnt.IncreaseBy(7)
	vf.Assert(a.cli.Sync() == nil, "a pushes")
	vf.Quiesce()
	vf.Assert(len(w.mq.Published) == npub+1, "C18 the committed push is announced exactly once")
	pub := w.mq.Published[npub]
	var note model.Notification
	vf.Assert(json.Unmarshal(pub.Payload, &note) == nil, "C18 payload decodes")
	calls := b.tr.calls
	orda.VFNotify(b.cli, pub.Topic, note)
	vf.Quiesce()
	vf.Reach("notified")
	vf.Assert(b.tr.calls == calls+1, "C18 the announcement makes the other client pull exactly once")
	vf.Assert(b.cnt.Get() == 7, "C18 the notified client converges without an explicit Sync call")
	vf.Assert(bo.Get() == 0, "C17 a datatype with another key is not affected")
}
