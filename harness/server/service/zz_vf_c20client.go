package service

// VF_C20_ClientCalls (C20, C12 "every request returns"): the calls a program
// makes on the *client* object from several goroutines while one datatype is
// shared.  A worker goroutine obtains the shared datatype through the client
// (Create / Subscribe / SubscribeOrCreate of the key that already exists: the
// usual way to get hold of it), asks IsConnected and issues an operation, while
// the main goroutine issues an operation and syncs.  Interleaving mode: context
// switches at mutex operations, both ends of the wire and database round trips.
// Nothing may deadlock, every call returns, no update is lost and a final sync
// leaves nothing pending.

import (
	"github.com/orda-io/orda/client/pkg/model"
	"github.com/orda-io/orda/client/pkg/orda"
	"github.com/orda-io/orda/client/pkg/vf"
)

func VF_C20_ClientCalls() {
	vf.Preemptions(1 + vf.Tier())
	w := vfNewWorld()
	w.seedCollection(vfCol, 1)
	a := &vfPeer{name: "a", tr: &vfTransport{w: w, wire: true}}
	a.cli = orda.VFNewClient(vfCol, "a", vfCUIDx, model.SyncType_MANUALLY, a.tr)
	vf.Assert(orda.VFRegister(a.cli) == nil, "client registers")
	a.cnt = a.cli.CreateCounter(vfKey, a.handlers())
	vf.Assert(a.cli.Sync() == nil, "first sync")
	vf.Quiesce()
	entry := vf.Choice("worker-entry", 3)
	syncs := 1 + vf.Choice("syncs", 2)
	vf.Tag("worker-entry", entry)
	done := make(chan bool, 2)
	var shared orda.Counter
	go func() {
		switch entry {
		case 0:
			shared = a.cli.SubscribeOrCreateCounter(vfKey, nil)
		case 1:
			shared = a.cli.SubscribeCounter(vfKey, nil)
		case 2:
			shared = a.cli.CreateCounter(vfKey, nil)
		}
		ok := a.cli.IsConnected() && shared != nil
		if ok {
			_, e := shared.IncreaseBy(10)
			ok = e == nil
		}
		done <- ok
	}()
	_, e1 := a.cnt.IncreaseBy(1)
	var se error
	for i := 0; i < syncs && se == nil; i++ {
		se = a.cli.Sync()
	}
	okW := <-done
	vf.Reach("joined")
	vf.Assert(e1 == nil && okW, "C20 every call returns without an error")
	vf.Assert(se == nil, "C16 a sync made while another goroutine uses the client succeeds")
	vf.Assert(a.cli.Sync() == nil, "C20 the client is usable afterwards")
	vf.Quiesce()
	_, _, _, pending := orda.VFSyncState(a.cnt)
	vf.Assert(pending == 0, "C20 every issued operation was queued for push exactly once")
	vf.Assert(a.cnt.Get() == 11 && shared.Get() == 11, "C20 no update is lost; both handles are the one datatype")
	sv, _, ok := w.serverValue(vfKey)
	vf.Assert(ok && sv == 11, "C06 the server holds exactly the pushed operations")
}
