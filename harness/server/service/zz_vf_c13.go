package service

// C13: Create / Subscribe / SubscribeOrCreate honour their contract (server
// side of the decision table; the client side is in zz_vf_sync.go).

import (
	"github.com/orda-io/orda/client/pkg/errors"
	"github.com/orda-io/orda/client/pkg/model"
	"github.com/orda-io/orda/client/pkg/operations"
	"github.com/orda-io/orda/client/pkg/vf"
)

const vfDUIDn = "NNNNNNNNNNNNNNNN" // the DUID a new client generated for itself

func vfSnapshotOp(cuid string) *model.Operation {
	return &model.Operation{
		ID:     &model.OperationID{Era: 0, Lamport: 1, CUID: cuid, Seq: 1},
		OpType: model.TypeOfOperation_COUNTER_SNAPSHOT,
		Body:   []byte(`{"Counter":0}`),
	}
}

func errCodeOf(res *model.PushPullPack) errors.ErrorCode {
	if res == nil || len(res.Operations) == 0 {
		return 0
	}
	if eo, ok := operations.ModelToOperation(res.Operations[0]).(*operations.ErrorOperation); ok {
		return eo.GetCode()
	}
	return 0
}

// VF_C13_Table: the whole decision table entry mode x stored datatype.
func VF_C13_Table() {
	w := vfNewWorld()
	w.seedCollection(vfCol, 1)
	w.seedClient(vfCUIDx, 1, model.ClientType_PERSISTENT)
	w.seedClient(vfCUIDy, 1, model.ClientType_PERSISTENT)
	// stored datatype under the key: none / same type / other type; the log has 0..2 entries of y
	existing := vf.Choice("existing", 3)
	nlog := 0
	subscribed := false
	if existing != 0 {
		nlog = vf.Choice("log", 3)
		typ := model.TypeOfDatatype_COUNTER
		if existing == 2 {
			typ = model.TypeOfDatatype_LIST
		}
		d := w.seedDatatype(vfDUID, vfKey, 1, typ, uint64(nlog))
		subscribe(d, vfCUIDy, uint64(nlog), uint64(nlog))
		for i := 0; i < nlog; i++ {
			w.seedOp(vfDUID, 1, uint64(i+1), vfCUIDy, uint64(i+1))
		}
		if vf.Choice("subscribed", 2) == 1 {
			subscribed = true
			subscribe(d, vfCUIDx, uint64(nlog), 0)
		}
	}
	mode := vf.Choice("mode", 3) // 0 create, 1 subscribe, 2 subscribe-or-create
	opt := model.PushPullBitNormal
	switch mode {
	case 0:
		opt.SetCreateBit()
	case 1:
		opt.SetSubscribeBit()
	case 2:
		opt.SetSubscribeBit().SetCreateBit()
	}
	vf.Tag("existing", existing)
	vf.Tag("mode", mode)
	vf.Tag("subscribed", subscribed)
	// a client that already holds the datatype re-sends its DUID; a new one sends its own
	duid := vfDUIDn
	if subscribed {
		duid = vfDUID
	}
	var ops []*model.Operation
	rc := uint64(0)
	if mode != 1 && !subscribed { // create / subscribe-or-create carry the creator's snapshot operation
		ops = append(ops, vfSnapshotOp(vfCUIDx))
		rc = 1
	}
	ppp := &model.PushPullPack{Key: vfKey, DUID: duid, Option: uint32(opt), Type: model.TypeOfDatatype_COUNTER,
		CheckPoint: &model.CheckPoint{Sseq: 0, Cseq: rc}, Operations: ops}
	if subscribed {
		ppp.CheckPoint = &model.CheckPoint{Sseq: uint64(nlog), Cseq: 0}
	}
	before, beforeG := w.digest(vfDUID, vfCUIDx), w.global()

	res, err := w.pushPull(vfCol, vfCUIDx, ppp)
	vf.Reach("returned")
	vf.Assert(err == nil && res != nil, "C16 request is answered with a pack")
	ro := model.PushPullPackOption(res.Option)
	after, afterG := w.digest(vfDUID, vfCUIDx), w.global()

	switch {
	case existing == 2:
		vf.Reach("other-type")
		vf.Assert(ro.HasErrorBit(), "C13 a key used by a datatype of another type is refused")
		vf.Assert(sameDigest(before, after) && beforeG == afterG, "C13 refused request changes nothing stored")
	case existing == 0 && mode == 1:
		vf.Reach("subscribe-missing")
		vf.Assert(ro.HasErrorBit() && errCodeOf(res) == errors.PushPullNoDatatypeToSubscribe, "C13 subscribing to a missing key is refused")
		vf.Assert(beforeG == afterG, "C13 refused request changes nothing stored")
	case existing == 0:
		vf.Reach("created")
		vf.Assert(!ro.HasErrorBit() && ro.HasCreateBit(), "C13 create on a free key succeeds and says so")
		d := w.datatype(vfDUIDn)
		vf.Assert(d != nil && d.Key == vfKey && d.CollectionNum == 1 && d.Type == model.TypeOfDatatype_COUNTER.String(), "C13 exactly the requested datatype is created")
		vf.Assert(afterG.nDts == beforeG.nDts+1 && afterG.nOps == beforeG.nOps+1, "C13 one datatype document and the creator's snapshot operation are stored")
		sc := d.RWClients[vfCUIDx]
		vf.Assert(sc != nil && sc.CP.Sseq == 1 && sc.CP.Cseq == 1 && d.Sseq.End == 1, "C13/C06 creator is subscribed with checkpoint (1,1)")
	case existing == 1 && !subscribed && mode == 0:
		vf.Reach("duplicate-key")
		vf.Assert(ro.HasErrorBit() && errCodeOf(res) == errors.PushPullDuplicateKey, "C13 creating an existing key is refused")
		vf.Assert(sameDigest(before, after) && beforeG == afterG, "C13 refused request changes nothing stored")
	case existing == 1 && !subscribed:
		vf.Reach("subscribed")
		vf.Assert(!ro.HasErrorBit() && ro.HasSubscribeBit(), "C13 subscribe to an existing key succeeds and says so")
		vf.Assert(res.DUID == vfDUID, "C13 the subscriber learns the datatype's DUID")
		vf.Assert(afterG.nDts == beforeG.nDts && afterG.nOps == beforeG.nOps, "C13 no second datatype and no operation is stored by a subscribe")
		d := w.datatype(vfDUID)
		sc := d.RWClients[vfCUIDx]
		vf.Assert(sc != nil && sc.CP.Sseq == uint64(nlog) && sc.CP.Cseq == 0, "C13 the subscriber is recorded at the end of the log")
		vf.Assert(len(res.Operations) == nlog && res.CheckPoint.Sseq == uint64(nlog), "C13 the subscriber is sent the whole log up to its subscription point")
	default: // existing == 1 && subscribed: idempotent retry / normal exchange
		vf.Reach("already-subscribed")
		vf.Assert(!ro.HasErrorBit(), "C13 a repeated create/subscribe by the owner is not an error")
		vf.Assert(afterG.nDts == beforeG.nDts && afterG.nOps == beforeG.nOps, "C13 a repeated create/subscribe stores nothing new")
	}
}
