package service

// VF_C05_Exchange: the exchange lemma of DESIGN.md 4.2 / C05-1.  One complete
// fault-free exchange - real CreatePushPullPack, real ProcessPushPull (handler,
// push, pull, commit), real ApplyPushPullPack - from an ARBITRARY state that
// satisfies the protocol invariant A.4, with the end of the log and the
// checkpoints symbolic 64-bit values: the server stores exactly the client's
// pending operations behind the log, the client applies exactly the foreign
// entries behind its checkpoint, once, both sides end at the same checkpoint,
// and the invariant holds again (so the lemma composes over histories of any
// length).

import (
	gocontext "context"

	"github.com/orda-io/orda/client/pkg/model"
	"github.com/orda-io/orda/client/pkg/orda"
	"github.com/orda-io/orda/client/pkg/vf"
)

func VF_C05_Exchange() {
	w := vfNewWorld()
	T := 2
	if vf.Tier() == 1 {
		T = 3
	}
	st := vfSeedLog(w, T)
	// fault-free pre-state: the client's checkpoint is the one the server recorded, the
	// pull stays inside the materialised tail, and (invariant) everything behind the
	// client's checkpoint is foreign
	vf.Assume(st.sx >= st.e-uint64(st.w))
	foreignBehind := int32(0)
	for i := 0; i < st.w; i++ {
		sseq := st.e - uint64(st.w) + 1 + uint64(i)
		if sseq > st.sx {
			vf.Assume(st.owners[i] == vfCUIDy)
			foreignBehind++
		}
	}
	k := vf.Choice("pending", 3)
	pend := []int32{100, 1000}[:k]
	cnt := orda.VFNewSubscribedCounter(vfCUIDx, vfDUID, vfKey, st.sx, st.cx, pend)
	local := int32(0)
	for _, d := range pend {
		local += d
	}
	before := w.digest(vfDUID, vfCUIDx)
	req := orda.VFCreatePack(cnt)
	vf.Assert(len(req.Operations) == k && req.CheckPoint.Sseq == st.sx && req.CheckPoint.Cseq == st.cx+uint64(k), "C05 the request carries the pending operations and the client's checkpoint")
	msg := &model.PushPullMessage{Header: model.NewMessageHeader(model.RequestType_PUSHPULLS), Collection: vfCol, Cuid: vfCUIDx, PushPullPacks: []*model.PushPullPack{copyPack(req)}}
	res, err := w.svc.ProcessPushPull(gocontext.TODO(), msg)
	vf.Reach("answered")
	vf.Assert(err == nil && res != nil && len(res.PushPullPacks) == 1, "C16 the request is answered")
	pack := copyPack(res.PushPullPacks[0])
	vf.Assert(!hasErrBit(pack), "C05 a consistent request is served")
	after := w.digest(vfDUID, vfCUIDx)
	vf.Assert(vf.All(after.nOps == before.nOps+k, after.end == st.e+uint64(k)), "C06 exactly the pending operations are appended to the log")
	for i := 0; i < k; i++ {
		od := w.store.Operations[before.nOps+i]
		vf.Assert(vf.All(uint64(od.Sseq) == st.e+uint64(i)+1, od.OpID.Seq == st.cx+uint64(i)+1, od.OpID.CUID == vfCUIDx), "C06 in issue order, behind the log")
	}
	orda.VFApplyPack(cnt, pack)
	vf.Quiesce()
	vf.Reach("applied")
	vf.Assert(cnt.Get() == local+foreignBehind, "C05 the client applies exactly the foreign operations behind its checkpoint, each once")
	s, c, seq, buffered := orda.VFSyncState(cnt)
	vf.Assert(vf.All(s == st.e+uint64(k), c == st.cx+uint64(k)), "C05 the client ends at the server's end of log with all its operations acknowledged")
	vf.Assert(vf.All(s == after.cpS, c == after.cpC), "A.4 client and server record the same checkpoint again")
	vf.Assert(buffered == 0 && seq == c, "C05 nothing is left to push")
	vf.Assert(s >= st.sx && c >= st.cx, "C05 the checkpoint never moves backwards")
}
