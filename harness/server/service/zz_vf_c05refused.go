package service

// VF_C05_Refused (C05, C13, C16): a client holds several datatypes and the
// server refuses one of them (create of a key that exists, subscribe of a key
// that does not, a key of another type) - for good, on every sync.  The other
// datatypes of that client, which travel in the same messages, keep converging:
// a refusal concerns the refused datatype only.  Whether Sync() itself reports
// the refusal is left open (the refusal must reach the error handler).

import (
	"github.com/orda-io/orda/client/pkg/model"
	"github.com/orda-io/orda/client/pkg/orda"
	"github.com/orda-io/orda/client/pkg/vf"
)

func VF_C05_Refused() {
	w := vfNewWorld()
	w.seedCollection(vfCol, 1)
	a, b := w.newPeer("a", vfCUIDx), w.newPeer("b", vfCUIDy)
	a.cnt = a.cli.CreateCounter(vfKey, a.handlers())
	taken := a.cli.CreateCounter("taken", nil)
	vf.Assert(a.cli.Sync() == nil && taken != nil, "creator syncs")
	vf.Quiesce()
	log := &vfErrLog{}
	kind := vf.Choice("refusal", 3)
	first := vf.Choice("refused-first", 2) == 1 // the order of the two entry calls
	vf.Tag("refusal", kind)
	refused := func() {
		switch kind {
		case 0:
			_ = b.cli.CreateCounter("taken", log.handlers())
		case 1:
			_ = b.cli.SubscribeCounter("missing", log.handlers())
		case 2:
			_ = b.cli.SubscribeList("taken", log.handlers())
		}
	}
	if first {
		refused()
	}
	b.cnt = b.cli.SubscribeCounter(vfKey, b.handlers())
	if !first {
		refused()
	}
	da, db := vf.I32("da"), vf.I32("db")
	total := int32(0)
	for r := 0; r < 3; r++ {
		if r == 1 {
			_, _ = a.cnt.IncreaseBy(da)
			total += da
		}
		if r == 2 && orda.VFDatatypeState(b.cnt) == model.StateOfDatatype_SUBSCRIBED {
			_, _ = b.cnt.IncreaseBy(db)
			total += db
		}
		_ = a.cli.Sync()
		vf.Quiesce()
		_ = b.cli.Sync()
		vf.Quiesce()
	}
	_ = a.cli.Sync()
	vf.Quiesce()
	vf.Reach("settled")
	vf.Assert(len(log.codes) > 0, "C13 the refusal reaches the error handler of the refused datatype")
	vf.Assert(orda.VFDatatypeState(b.cnt) == model.StateOfDatatype_SUBSCRIBED && countState(b.states, model.StateOfDatatype_SUBSCRIBED) == 1,
		"C13 the healthy datatype of the same client becomes subscribed, once")
	vf.Assert(a.cnt.Get() == total && b.cnt.Get() == total, "C05 the other datatypes of a client with a refused datatype keep converging")
	sv, _, ok := w.serverValue(vfKey)
	vf.Assert(ok && sv == total, "C05 the server's copy agrees")
	_, _, _, pend := orda.VFSyncState(b.cnt)
	vf.Assert(pend == 0 && b.errs == 0, "C05 nothing left to push, no error on the healthy datatype")
}
