package service

// C17: collections and datatypes are isolated from each other.

import (
	gocontext "context"

	"github.com/orda-io/orda/client/pkg/model"
	"github.com/orda-io/orda/client/pkg/vf"
)

func (w *vfWorld) createPack(key, duid, cuid string) *model.PushPullPack {
	opt := model.PushPullBitNormal
	opt.SetCreateBit()
	return &model.PushPullPack{Key: key, DUID: duid, Option: uint32(opt), Type: model.TypeOfDatatype_COUNTER,
		CheckPoint: &model.CheckPoint{Sseq: 0, Cseq: 1}, Operations: []*model.Operation{vfSnapshotOp(cuid)}}
}

func (w *vfWorld) countCol(colNum int32) (dts, ops, clients, snaps int) {
	for _, d := range w.store.Datatypes {
		if d.CollectionNum == colNum {
			dts++
		}
	}
	for _, o := range w.store.Operations {
		if o.CollectionNum == colNum {
			ops++
		}
	}
	for _, c := range w.store.Clients {
		if c.CollectionNum == colNum {
			clients++
		}
	}
	for _, s := range w.store.Snapshots {
		if s.CollectionNum == colNum {
			snaps++
		}
	}
	return
}

// VF_C17_Isolation: two collections with the same key; clients registered
// through ProcessClient; requests naming the foreign collection; reset.
func VF_C17_Isolation() {
	w := vfNewWorld()
	w.seedCollection(vfCol, 1)
	w.seedCollection(vfColB, 2)
	// register x in col and y in colB through the real RPC
	_, e1 := w.svc.ProcessClient(gocontext.TODO(), &model.ClientMessage{Header: model.NewMessageHeader(model.RequestType_CLIENTS), Collection: vfCol, Cuid: vfCUIDx, ClientAlias: "x"})
	_, e2 := w.svc.ProcessClient(gocontext.TODO(), &model.ClientMessage{Header: model.NewMessageHeader(model.RequestType_CLIENTS), Collection: vfColB, Cuid: vfCUIDy, ClientAlias: "y"})
	vf.Assert(e1 == nil && e2 == nil, "C17 clients register in their collections")
	// a client cannot re-register itself into another collection
	_, e3 := w.svc.ProcessClient(gocontext.TODO(), &model.ClientMessage{Header: model.NewMessageHeader(model.RequestType_CLIENTS), Collection: vfColB, Cuid: vfCUIDx, ClientAlias: "x"})
	vf.Assert(e3 != nil, "C17 a registered client cannot move to another collection")
	// the same key in both collections: two independent datatypes
	r1, err1 := w.pushPull(vfCol, vfCUIDx, w.createPack(vfKey, vfDUID, vfCUIDx))
	r2, err2 := w.pushPull(vfColB, vfCUIDy, w.createPack(vfKey, vfDUIDf, vfCUIDy))
	vf.Assert(err1 == nil && err2 == nil && r1 != nil && r2 != nil, "C17 both creates are answered")
	o1, o2 := model.PushPullPackOption(r1.Option), model.PushPullPackOption(r2.Option)
	vf.Assert(!o1.HasErrorBit() && !o2.HasErrorBit(), "C17 the same key can be created in two collections")
	d1, d2 := w.datatype(vfDUID), w.datatype(vfDUIDf)
	vf.Assert(d1 != nil && d2 != nil && d1.CollectionNum == 1 && d2.CollectionNum == 2, "C17 same key in two collections names two datatypes")
	vf.Reach("created")
	// x addresses the foreign collection
	switch vf.Choice("attack", 3) {
	case 0: // x sends a request naming collection colB
		res, err := w.pushPull(vfColB, vfCUIDx, &model.PushPullPack{Key: vfKey, DUID: vfDUIDf, Option: 0, Type: model.TypeOfDatatype_COUNTER,
			CheckPoint: &model.CheckPoint{Sseq: 1, Cseq: 1}, Operations: []*model.Operation{vfIncOp(vfCUIDx, 2, 2)}})
		vf.Assert(err != nil && res == nil, "C17 a client cannot use another collection")
	case 1: // x names the foreign datatype's DUID inside its own collection
		res, err := w.pushPull(vfCol, vfCUIDx, &model.PushPullPack{Key: "k2", DUID: vfDUIDf, Option: 0, Type: model.TypeOfDatatype_COUNTER,
			CheckPoint: &model.CheckPoint{Sseq: 1, Cseq: 1}, Operations: []*model.Operation{vfIncOp(vfCUIDx, 2, 2)}})
		vf.Assert(err == nil && res != nil, "C16 answered")
		ro := model.PushPullPackOption(res.Option)
		vf.Assert(ro.HasErrorBit(), "C17 a foreign datatype cannot be addressed by DUID")
	case 2: // x pushes to its own datatype
		res, err := w.pushPull(vfCol, vfCUIDx, &model.PushPullPack{Key: vfKey, DUID: vfDUID, Option: 0, Type: model.TypeOfDatatype_COUNTER,
			CheckPoint: &model.CheckPoint{Sseq: 1, Cseq: 1}, Operations: []*model.Operation{vfIncOp(vfCUIDx, 2, 2)}})
		vf.Assert(err == nil && res != nil, "C16 answered")
		vf.Assert(w.datatype(vfDUID).Sseq.End == 2, "C06 own push accepted")
	}
	vf.Reach("attacked")
	dF := w.datatype(vfDUIDf)
	_, opsB, _, _ := w.countCol(2)
	vf.Assert(dF.Sseq.End == 1 && opsB == 1 && len(dF.RWClients) == 1, "C17 the other collection's datatype is untouched")
	// reset collection col: exactly its documents disappear
	_, er := w.svc.ResetCollection(gocontext.TODO(), &model.CollectionMessage{Collection: vfCol})
	vf.Assert(er == nil, "C17 reset succeeds")
	vf.Reach("reset")
	a1, a2, a3, a4 := w.countCol(1)
	vf.Assert(a1 == 0 && a2 == 0 && a3 == 0 && a4 == 0, "C17 reset removes the collection's datatypes, operations, clients and snapshots")
	b1, b2, b3, _ := w.countCol(2)
	vf.Assert(b1 == 1 && b2 == 1 && b3 == 1, "C17 reset leaves the other collection alone")
	// the reset removed client x: it is no longer served in col
	res, err := w.pushPull(vfCol, vfCUIDx, w.createPack("afterReset", vfDUIDn, vfCUIDx))
	refused := err != nil || res == nil || hasErrBit(res)
	vf.Assert(refused, "C17 a client removed by the reset is no longer served in that collection")
	a1, a2, _, _ = w.countCol(1)
	vf.Assert(a1 == 0 && a2 == 0, "C17 a request of a removed client stores nothing")
	// the same client id registers in colB: from now on it belongs there and only there
	_, e4 := w.svc.ProcessClient(gocontext.TODO(), &model.ClientMessage{Header: model.NewMessageHeader(model.RequestType_CLIENTS), Collection: vfColB, Cuid: vfCUIDx, ClientAlias: "x"})
	vf.Assert(e4 == nil, "C17 after the reset the client id can register in another collection")
	res, err = w.pushPull(vfCol, vfCUIDx, w.createPack("afterReset", vfDUIDn, vfCUIDx))
	refused = err != nil || res == nil || hasErrBit(res)
	a1, a2, _, _ = w.countCol(1)
	vf.Assert(refused && a1 == 0 && a2 == 0, "C17 a client registered in colB cannot create datatypes in col")
	res, err = w.pushPull(vfColB, vfCUIDx, w.createPack("ownKey", vfDUIDu, vfCUIDx))
	vf.Assert(err == nil && res != nil && !hasErrBit(res), "C17 and it is served in colB")
	vf.Reach("after-reset")
}

func hasErrBit(p *model.PushPullPack) bool {
	o := model.PushPullPackOption(p.Option)
	return o.HasErrorBit()
}
