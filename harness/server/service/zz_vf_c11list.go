package service

// VF_C11_ListRebuild (C11, C10 through the server): the datatype the server
// rebuilds from its latest stored snapshot plus the later log equals the replay
// of the whole log, and every snapshot it then stores equals the replay up to
// its version - for a List whose history updates and deletes elements and then
// addresses them again (an insert behind an updated element, a second update, an
// insert behind a deleted one).  The log is produced by two real list replicas
// through the public API; the snapshot position is any prefix of the log.

import (
	"github.com/orda-io/orda/client/pkg/iface"
	"github.com/orda-io/orda/client/pkg/model"
	"github.com/orda-io/orda/client/pkg/orda"
	"github.com/orda-io/orda/client/pkg/vf"
	"github.com/orda-io/orda/server/schema"
	"github.com/orda-io/orda/server/snapshot"
)

func VF_C11_ListRebuild() {
	w := vfNewWorld()
	w.seedCollection(vfCol, 1)
	cli := orda.NewClient(orda.NewLocalClientConfig(vfCol), "writer")
	l := cli.CreateList(vfKey, nil)
	l.(iface.Datatype).SetDUID(vfDUID)
	// the history: inserts, then an update or a delete of the middle element, then an
	// operation that addresses that element again
	_, e0 := l.InsertMany(0, "a", "b", "c")
	vf.Assert(e0 == nil, "history")
	switch vf.Choice("touch", 3) {
	case 0:
		_, e0 = l.Update(1, "B")
	case 1:
		_, e0 = l.Delete(1)
	case 2: // untouched
	}
	vf.Assert(e0 == nil, "history")
	switch vf.Choice("again", 4) {
	case 0: // insert behind the touched element (behind "a" when it was deleted)
		pos := 2
		if l.Size() == 2 {
			pos = 1
		}
		_, e0 = l.Insert(pos, "x")
	case 1: // touch it a second time (or its successor when it is gone)
		_, e0 = l.Update(1, "Z")
	case 2:
		_, e0 = l.Delete(l.Size() - 1)
	case 3:
		_, e0 = l.Insert(0, "front")
	}
	vf.Assert(e0 == nil, "history")
	ops := l.(iface.Datatype).CreatePushPullPack().Operations // snapshot operation + the calls
	n := len(ops)
	d := w.seedDatatype(vfDUID, vfKey, 1, model.TypeOfDatatype_LIST, uint64(n))
	subscribe(d, vfCUIDy, uint64(n), uint64(n))
	for i, op := range ops {
		w.store.Operations = append(w.store.Operations, schema.NewOperationDoc(op, vfDUID, uint64(i+1), 1))
	}
	// a snapshot stored at position p (made by the real code from a replica that has applied 1..p)
	p := vf.Choice("snapshot-at", n+1)
	vf.Tag("p", p)
	if p > 0 {
		rc := orda.NewClient(orda.NewLocalClientConfig(vfCol), "snap")
		r := rc.CreateList(vfKey, nil)
		r.(iface.Datatype).SetDUID(vfDUID)
		_, err := r.(iface.Datatype).ReceiveRemoteModelOperations(copyOps(ops[:p]), false)
		vf.Assert(err == nil, "prefix replay")
		meta, snap, err2 := r.(iface.Datatype).GetMetaAndSnapshot()
		vf.Assert(err2 == nil, "snapshot export")
		w.store.Snapshots = append(w.store.Snapshots, &schema.SnapshotDoc{ID: "old", CollectionNum: 1, DUID: vfDUID, Sseq: uint64(p), Meta: string(meta), Snapshot: snap})
	}
	want := listView(l)
	m := snapshot.NewManager(context0(), w.mgr, w.datatype(vfDUID), w.collection(1))
	dt, last, gerr := m.GetLatestDatatype()
	vf.Reach("rebuilt")
	vf.Assert(gerr == nil && last == uint64(n), "C11 the rebuild reaches the end of the log")
	vf.Assert(sameView(listView(dt.(orda.List)), want), "C11 latest snapshot + later operations equals the replay of the whole log")
	nsnap := len(w.store.Snapshots)
	vf.Assert(m.UpdateSnapshot() == nil, "C11 UpdateSnapshot succeeds")
	vf.Assert(len(w.store.Snapshots) == nsnap+1 && w.store.Snapshots[nsnap].Sseq == uint64(n), "C11 the stored snapshot's version is the last log position it replayed")
	sd := w.store.Snapshots[nsnap]
	cc := orda.NewClient(orda.NewLocalClientConfig(vfCol), "check")
	c2 := cc.CreateList(vfKey, nil)
	vf.Assert(c2.(iface.Datatype).SetMetaAndSnapshot([]byte(sd.Meta), sd.Snapshot) == nil, "C11 the stored snapshot can be restored")
	vf.Assert(sameView(listView(c2), want), "C11 the stored snapshot equals the replay of the log up to its version")
	// the history continues on the writer; the server rebuilds from the snapshot it has just stored
	_, e1 := l.Insert(1, "later")
	vf.Assert(e1 == nil, "history")
	all := l.(iface.Datatype).CreatePushPullPack().Operations
	for i := n; i < len(all); i++ {
		w.store.Operations = append(w.store.Operations, schema.NewOperationDoc(all[i], vfDUID, uint64(i+1), 1))
	}
	w.datatype(vfDUID).Sseq.End = uint64(len(all))
	dt2, last2, gerr2 := m.GetLatestDatatype()
	vf.Reach("continued")
	vf.Assert(gerr2 == nil && last2 == uint64(len(all)), "C11 the rebuild reaches the new end of the log")
	vf.Assert(sameView(listView(dt2.(orda.List)), listView(l)), "C11 snapshot + later operations equals whole-log replay as the history continues")
}

func copyOps(ops []*model.Operation) []*model.Operation {
	var r []*model.Operation
	for _, o := range ops {
		r = append(r, copyOp(o))
	}
	return r
}
