package service

// Shared scaffolding of the service-level harnesses: the real OrdaService on
// top of the in-memory repository overlay, the real Notifier around a recording
// MQTT client, and the real (local) lock implementation.

import (
	gocontext "context"
	goerrors "errors"
	"time"

	mqtt "github.com/eclipse/paho.mqtt.golang"
	"github.com/orda-io/orda/client/pkg/context"
	"github.com/orda-io/orda/client/pkg/iface"
	"github.com/orda-io/orda/client/pkg/model"
	"github.com/orda-io/orda/client/pkg/vf"
	"github.com/orda-io/orda/server/managers"
	"github.com/orda-io/orda/server/mongodb"
	"github.com/orda-io/orda/server/notification"
	"github.com/orda-io/orda/server/redis"
	"github.com/orda-io/orda/server/schema"
)

// ---- recording MQTT client -------------------------------------------------

type vfToken struct{ err error }

func (vfToken) Wait() bool                     { return true }
func (vfToken) WaitTimeout(time.Duration) bool { return true }
func (vfToken) Done() <-chan struct{}          { return nil }
func (t vfToken) Error() error                 { return t.err }

type vfPublished struct {
	Topic   string
	Payload []byte
}

type vfMqtt struct {
	Published []vfPublished
	broker    *vfBroker // nil: recording only
	refuse    bool      // the broker refuses topic subscriptions (environment fault)
	failPubs  int       // the next failPubs publishes fail (broker unreachable)
}

// vfBroker is the in-process stand-in of the MQTT broker: every publish is
// handed to each subscriber of the topic in a goroutine of its own (delivery
// takes an arbitrary time).
type vfBroker struct {
	subs      []vfSub
	delivered int
}

type vfSub struct {
	topic string
	cb    mqtt.MessageHandler
	cli   mqtt.Client
}

type vfMessage struct {
	topic   string
	payload []byte
}

func (m *vfMessage) Duplicate() bool   { return false }
func (m *vfMessage) Qos() byte         { return 0 }
func (m *vfMessage) Retained() bool    { return false }
func (m *vfMessage) Topic() string     { return m.topic }
func (m *vfMessage) MessageID() uint16 { return 0 }
func (m *vfMessage) Payload() []byte   { return m.payload }
func (m *vfMessage) Ack()              {}

func (m *vfMqtt) IsConnected() bool       { return true }
func (m *vfMqtt) IsConnectionOpen() bool  { return true }
func (m *vfMqtt) Connect() mqtt.Token     { return vfToken{} }
func (m *vfMqtt) Disconnect(quiesce uint) {}
func (m *vfMqtt) Publish(topic string, qos byte, retained bool, payload interface{}) mqtt.Token {
	vf.Yield() // a round trip to the broker is a scheduling point
	if m.failPubs > 0 {
		m.failPubs--
		return vfToken{err: errRefused}
	}
	b, _ := payload.([]byte)
	m.Published = append(m.Published, vfPublished{Topic: topic, Payload: b})
	if m.broker != nil {
		for _, s := range m.broker.subs {
			if s.topic == topic {
				sub := s
				m.broker.delivered++
				go sub.cb(sub.cli, &vfMessage{topic: topic, payload: b})
			}
		}
	}
	return vfToken{}
}
func (m *vfMqtt) Subscribe(topic string, qos byte, callback mqtt.MessageHandler) mqtt.Token {
	vf.Yield() // a round trip to the broker is a scheduling point
	if m.refuse {
		return vfToken{err: errRefused}
	}
	if m.broker != nil {
		m.broker.subs = append(m.broker.subs, vfSub{topic: topic, cb: callback, cli: m})
	}
	return vfToken{}
}
func (m *vfMqtt) SubscribeMultiple(filters map[string]byte, callback mqtt.MessageHandler) mqtt.Token {
	return vfToken{}
}
func (m *vfMqtt) Unsubscribe(topics ...string) mqtt.Token       { return vfToken{} }
func (m *vfMqtt) AddRoute(topic string, callback mqtt.MessageHandler) {}
func (m *vfMqtt) OptionsReader() mqtt.ClientOptionsReader       { return mqtt.ClientOptionsReader{} }

var errRefused = goerrors.New("subscription refused by the broker")

// ---- world -------------------------------------------------------------------

type vfWorld struct {
	svc   *OrdaService
	store *mongodb.RepositoryMongo
	mq    *vfMqtt
	mgr   *managers.Managers
}

func vfNewWorld() *vfWorld {
	ctx := context.NewOrdaContext(gocontext.TODO(), "vf")
	store := mongodb.NewInMemory()
	mq := &vfMqtt{}
	rc, _ := redis.New(ctx, nil)
	mgr := &managers.Managers{Mongo: store, Notifier: notification.NewNotifierWithClient(mq), Redis: rc}
	return &vfWorld{svc: NewOrdaService(mgr), store: store, mq: mq, mgr: mgr}
}

const (
	vfCol   = "col"
	vfColB  = "colB"
	vfKey   = "key1"
	vfDUID  = "DDDDDDDDDDDDDDDD"
	vfCUIDx = "XXXXXXXXXXXXXXXX"
	vfCUIDy = "YYYYYYYYYYYYYYYY"
)

func (w *vfWorld) seedCollection(name string, num int32) {
	w.store.Collections = append(w.store.Collections, &schema.CollectionDoc{Name: name, Num: num})
	if w.store.Counter < num {
		w.store.Counter = num // the counter document holds the last number handed out
	}
}

func (w *vfWorld) seedClient(cuid string, colNum int32, typ model.ClientType) {
	w.store.Clients = append(w.store.Clients, &schema.ClientDoc{CUID: cuid, Alias: "a", CollectionNum: colNum, Type: int8(typ)})
}

// seedDatatype stores a datatype document with end-of-log e.
func (w *vfWorld) seedDatatype(duid, key string, colNum int32, typ model.TypeOfDatatype, e uint64) *schema.DatatypeDoc {
	d := schema.NewDatatypeDoc(duid, key, colNum, typ.String())
	d.Sseq.End = e
	w.store.Datatypes = append(w.store.Datatypes, d)
	return d
}

func subscribe(d *schema.DatatypeDoc, cuid string, s, c uint64) {
	d.RWClients[cuid] = &schema.SubscribedClientDoc{CP: &model.CheckPoint{Sseq: s, Cseq: c}, Type: int8(model.ClientType_PERSISTENT)}
}

// seedOp stores one counter-increase operation of owner at sseq.
func (w *vfWorld) seedOp(duid string, colNum int32, sseq uint64, owner string, seq uint64) {
	op := vfIncOp(owner, seq, sseq)
	w.store.Operations = append(w.store.Operations, schema.NewOperationDoc(op, duid, sseq, colNum))
}

func vfIncOp(owner string, seq uint64, lamport uint64) *model.Operation {
	return &model.Operation{
		ID:     &model.OperationID{Era: 0, Lamport: lamport, CUID: owner, Seq: seq},
		OpType: model.TypeOfOperation_COUNTER_INCREASE,
		Body:   []byte(`{"Delta":1}`),
	}
}

// storeDigest summarises everything stored, for "a refused request changes nothing".
type vfDigest struct {
	nOps, nDts, nClients, nSnaps, nCols int
	end                                 uint64
	cpS, cpC                            uint64
	subs                                int
}

func (w *vfWorld) digest(duid, cuid string) vfDigest {
	g := vfDigest{}
	for _, o := range w.store.Operations {
		if o.DUID == duid {
			g.nOps++
		}
	}
	for _, sn := range w.store.Snapshots {
		if sn.DUID == duid {
			g.nSnaps++
		}
	}
	for _, d := range w.store.Datatypes {
		if d.DUID == duid {
			g.nDts++
		}
	}
	for _, d := range w.store.Datatypes {
		if d.DUID == duid {
			g.end = d.Sseq.End
			g.subs = len(d.RWClients) + len(d.ROClients)
			if sc := d.RWClients[cuid]; sc != nil {
				g.cpS, g.cpC = sc.CP.Sseq, sc.CP.Cseq
			}
		}
	}
	return g
}

// global counts of the whole store
type vfGlobal struct{ nOps, nDts, nClients, nSnaps, nCols int }

func (w *vfWorld) global() vfGlobal {
	return vfGlobal{len(w.store.Operations), len(w.store.Datatypes), len(w.store.Clients), len(w.store.Snapshots), len(w.store.Collections)}
}

func sameDigest(a, b vfDigest) bool {
	return vf.All(a.nOps == b.nOps, a.nDts == b.nDts, a.nClients == b.nClients, a.nSnaps == b.nSnaps, a.nCols == b.nCols,
		a.end == b.end, a.cpS == b.cpS, a.cpC == b.cpC, a.subs == b.subs)
}

func (w *vfWorld) datatype(duid string) *schema.DatatypeDoc {
	for _, d := range w.store.Datatypes {
		if d.DUID == duid {
			return d
		}
	}
	return nil
}

// call sends one pack through the real ProcessPushPull (goroutines, reply
// channel, fan-in) and returns the answer.
func (w *vfWorld) pushPull(collection, cuid string, ppp *model.PushPullPack) (*model.PushPullPack, error) {
	msg := &model.PushPullMessage{
		Header:        model.NewMessageHeader(model.RequestType_PUSHPULLS),
		Collection:    collection,
		Cuid:          cuid,
		PushPullPacks: []*model.PushPullPack{ppp},
	}
	res, err := w.svc.ProcessPushPull(gocontext.TODO(), msg)
	if err != nil || res == nil || len(res.PushPullPacks) == 0 {
		return nil, err
	}
	return res.PushPullPacks[0], nil
}

func (w *vfWorld) collection(num int32) *schema.CollectionDoc {
	for _, c := range w.store.Collections {
		if c.Num == num {
			return c
		}
	}
	return &schema.CollectionDoc{Name: "?", Num: num}
}

func context0() iface.OrdaContext { return context.NewOrdaContext(gocontext.TODO(), "vf") }

func (w *vfWorld) pushPullCtx(ctx gocontext.Context, collection, cuid string, ppp *model.PushPullPack) (*model.PushPullPack, error) {
	msg := &model.PushPullMessage{Header: model.NewMessageHeader(model.RequestType_PUSHPULLS), Collection: collection, Cuid: cuid,
		PushPullPacks: []*model.PushPullPack{ppp}}
	res, err := w.svc.ProcessPushPull(ctx, msg)
	if err != nil || res == nil || len(res.PushPullPacks) == 0 {
		return nil, err
	}
	return res.PushPullPacks[0], nil
}
