package service

// C19 (REST part): PatchDocument against the stored document - creating it
// when absent, with and without a stored snapshot, interleaved with a
// subscribed client's pushes; the client converges to the target.

import (
	gocontext "context"
	"encoding/json"

	"github.com/orda-io/orda/client/pkg/iface"
	"github.com/orda-io/orda/client/pkg/model"
	"github.com/orda-io/orda/client/pkg/orda"
	"github.com/orda-io/orda/client/pkg/vf"
	"github.com/orda-io/orda/server/snapshot"
)

func jsonEq(a, b interface{}) bool {
	switch x := a.(type) {
	case map[string]interface{}:
		y, ok := b.(map[string]interface{})
		if !ok || len(x) != len(y) {
			return false
		}
		for k, v := range x {
			w, ok := y[k]
			if !ok || !jsonEq(v, w) {
				return false
			}
		}
		return true
	case []interface{}:
		y, ok := b.([]interface{})
		if !ok || len(x) != len(y) {
			return false
		}
		for i := range x {
			if !jsonEq(x[i], y[i]) {
				return false
			}
		}
		return true
	}
	switch b.(type) {
	case map[string]interface{}, []interface{}:
		return false
	}
	return a == b
}

func parseJSON(s string) interface{} {
	var v interface{}
	if json.Unmarshal([]byte(s), &v) != nil {
		return nil
	}
	return v
}

var c19Targets = []string{
	`{"a":"1","b":{"c":"x"}}`,
	`{"a":["p","q"],"n":7}`,
	`{}`,
}

func (w *vfWorld) serverDoc(key string) (interface{}, uint64, bool) {
	d, _ := w.store.GetDatatypeByKey(context0(), 1, key)
	if d == nil {
		return nil, 0, false
	}
	m := snapshot.NewManager(context0(), w.mgr, d, w.collection(1))
	dt, last, err := m.GetLatestDatatype()
	if err != nil {
		return nil, 0, false
	}
	return dt.(orda.Document).GetValue(), last, true
}

func VF_C19_Rest() {
	w := vfNewWorld()
	w.seedCollection(vfCol, 1)
	a := w.newPeer("a", vfCUIDx)
	var doc orda.Document
	scenario := vf.Choice("scenario", 3)
	vf.Tag("scenario", scenario)
	switch scenario {
	case 0: // the key does not exist yet: the endpoint creates the document
	case 1, 2: // a client created the document and pushed; 2: the snapshot update has run
		doc = a.cli.CreateDocument(vfKey, a.handlers())
		_, e := doc.PutToObject("a", "old")
		vf.Assert(e == nil, "client put succeeds")
		vf.Assert(a.cli.Sync() == nil, "client sync succeeds")
		if scenario == 2 {
			vf.Quiesce()
			vf.Assert(len(w.store.Snapshots) > 0, "a snapshot is stored after the post-commit goroutine ran")
		}
	}
	t1 := c19Targets[vf.Choice("target", len(c19Targets))]
	vf.Quiesce()
	pubBefore, endBefore := len(w.mq.Published), uint64(0)
	if d0, _ := w.store.GetDatatypeByKey(context0(), 1, vfKey); d0 != nil {
		endBefore = d0.Sseq.End
	}
	res, err := w.svc.PatchDocument(gocontext.TODO(), &model.PatchMessage{Key: vfKey, Collection: vfCol, Json: t1})
	vf.Reach("patched")
	vf.Assert(err == nil && res != nil, "C19 the REST patch is answered")
	vf.Assert(jsonEq(parseJSON(res.Json), parseJSON(t1)), "C19 the response JSON equals the target")
	if scenario == 0 && t1 == "{}" {
		// nothing to record: an absent document already has the value {}
		return
	}
	sv, last, ok := w.serverDoc(vfKey)
	d, _ := w.store.GetDatatypeByKey(context0(), 1, vfKey)
	vf.Assert(ok && d != nil, "C19 the document exists after the patch")
	vf.Assert(jsonEq(sv, parseJSON(t1)), "C19 the stored document (rebuilt from the log) equals the target")
	vf.Assert(last == d.Sseq.End && w.logInvariant(d.DUID), "C19/C06 the patch operations are appended to a gapless log")
	// C18: the patch is a push like any other - if it stored operations it is announced once
	vf.Quiesce()
	if d.Sseq.End > endBefore {
		vf.Assert(len(w.mq.Published) == pubBefore+1, "C18 a REST patch that stored operations is announced exactly once")
		pub := w.mq.Published[len(w.mq.Published)-1]
		var note model.Notification
		vf.Assert(pub.Topic == vfCol+"/"+vfKey && json.Unmarshal(pub.Payload, &note) == nil, "C18 topic is collection/key and the payload decodes")
		vf.Assert(note.DUID == d.DUID && note.Sseq == d.Sseq.End && note.CUID != vfCUIDx, "C18 the announcement carries the datatype, the new end of the log and the pusher")
	} else {
		vf.Assert(len(w.mq.Published) == pubBefore, "C18 a patch that stored nothing publishes nothing")
	}
	// a subscribed client converges to the target
	if scenario == 0 {
		doc = a.cli.SubscribeDocument(vfKey, a.handlers())
	}
	for r := 0; r < 2; r++ {
		vf.Assert(a.cli.Sync() == nil, "client sync succeeds")
		vf.Quiesce()
	}
	vf.Reach("synced")
	vf.Assert(a.errs == 0, "C19 no error reaches the client's error handler")
	vf.Assert(jsonEq(doc.GetValue(), parseJSON(t1)), "C19 a subscribed client converges to the target")
	// a second REST patch on the same document (the administrative client comes back)
	t2 := c19Targets[vf.Choice("target2", len(c19Targets))]
	if t2 == t1 {
		return
	}
	end1 := d.Sseq.End
	res2, err2 := w.svc.PatchDocument(gocontext.TODO(), &model.PatchMessage{Key: vfKey, Collection: vfCol, Json: t2})
	vf.Assert(err2 == nil && res2 != nil && jsonEq(parseJSON(res2.Json), parseJSON(t2)), "C19 the second REST patch is answered with its target")
	sv2, last2, ok2 := w.serverDoc(vfKey)
	d2, _ := w.store.GetDatatypeByKey(context0(), 1, vfKey)
	vf.Assert(ok2 && jsonEq(sv2, parseJSON(t2)), "C19 the stored document equals the target of the latest patch")
	vf.Assert(d2.Sseq.End > end1 && last2 == d2.Sseq.End && w.logInvariant(d2.DUID), "C19/C06 every patch appends its operations to a gapless log")
	for r := 0; r < 2; r++ {
		vf.Assert(a.cli.Sync() == nil, "client sync succeeds")
		vf.Quiesce()
	}
	vf.Reach("patched-twice")
	vf.Assert(a.errs == 0 && jsonEq(doc.GetValue(), parseJSON(t2)), "C19 a subscribed client converges to the target of every patch")
}

// VF_C11_PatchRace (C11, C19; interleaving): a REST patch of a document
// overlaps a subscribed client's push of the same document (context switches at
// every database round trip and at the ends of the wire).  Whatever the schedule:
// both requests are answered, the log stays gapless, every version written to
// the user-visible document is a log position and the versions never decrease,
// and at quiescence the user document is the JSON view of the replay of the log
// up to the version it records.
func VF_C11_PatchRace() {
	vf.Preemptions(1 + vf.Tier())
	w := vfNewWorld()
	w.seedCollection(vfCol, 1)
	a := w.newPeer("a", vfCUIDx)
	a.tr.wire = true
	doc := a.cli.CreateDocument(vfKey, a.handlers())
	_, e := doc.PutToObject("a", "1")
	vf.Assert(e == nil && a.cli.Sync() == nil, "client creates the document")
	vf.Quiesce()
	_, e = doc.PutToObject("c", "x")
	vf.Assert(e == nil, "client put succeeds")
	done := make(chan int, 2)
	var perr, serr error
	var pres *model.PatchMessage
	go func() { serr = a.cli.Sync(); done <- 1 }()
	go func() {
		pres, perr = w.svc.PatchDocument(gocontext.TODO(), &model.PatchMessage{Key: vfKey, Collection: vfCol, Json: `{"a":"1","h":"y"}`})
		done <- 2
	}()
	<-done
	<-done
	vf.Quiesce()
	vf.Reach("both-returned")
	_ = serr
	vf.Assert(perr == nil && pres != nil, "C19 the REST patch is answered")
	d, _ := w.store.GetDatatypeByKey(context0(), 1, vfKey)
	vf.Assert(d != nil && w.logInvariant(d.DUID), "C06 the log stays gapless")
	vs := w.store.RealVersions
	for i := 1; i < len(vs); i++ {
		vf.Assert(vs[i] >= vs[i-1], "C11 the version recorded in the user document never decreases")
	}
	real := w.store.Real[vfCol]
	vf.Assert(len(real) == 1 && real[0].ID == vfKey && real[0].Ver <= d.Sseq.End, "C11 one user document under the datatype's key, its version a log position")
	// replay of the log up to the recorded version
	var prefix []*model.Operation
	for s := uint64(1); s <= real[0].Ver; s++ {
		for _, o := range w.store.Operations {
			if o.DUID == d.DUID && uint64(o.Sseq) == s {
				prefix = append(prefix, copyOp(o.GetOperation()))
			}
		}
	}
	rc := orda.NewClient(orda.NewLocalClientConfig(vfCol), "check")
	r := rc.CreateDocument(vfKey, nil)
	_, rerr := r.(iface.Datatype).ReceiveRemoteModelOperations(prefix, false)
	vf.Assert(rerr == nil, "C11 the log prefix replays")
	raw, _ := json.Marshal(real[0].Data)
	vf.Assert(jsonEq(parseJSON(string(raw)), r.GetValue()), "C11 the user document is the JSON view of the replay of the log up to the version it records")
}
