package service

// C18: every committed push is announced exactly once on the topic of the
// collection and key, with the pusher's id, the datatype id and the new end of
// the log; pull-only syncs, duplicates and refused pushes publish nothing.

import (
	"encoding/json"

	"github.com/orda-io/orda/client/pkg/model"
	"github.com/orda-io/orda/client/pkg/orda"
	"github.com/orda-io/orda/client/pkg/vf"
)

func VF_C18_Notify() {
	w := vfNewWorld()
	st := vfSeedLog(w, 1)
	rs, rc := vf.U64("req.sseq"), vf.U64("req.cseq")
	vf.Assume(vf.All(rs <= st.e, rs >= st.e-uint64(st.w)))
	n := vf.Choice("nops", 3)
	var ops []*model.Operation
	var seqs []uint64
	for i := 0; i < n; i++ {
		s := vf.U64("op.seq")
		seqs = append(seqs, s)
		ops = append(ops, vfIncOp(vfCUIDx, s, st.e+1))
	}
	ppp := &model.PushPullPack{Key: vfKey, DUID: vfDUID, Option: 0, Type: model.TypeOfDatatype_COUNTER,
		CheckPoint: &model.CheckPoint{Sseq: rs, Cseq: rc}, Operations: ops}
	cur, acc, gap := st.cx, 0, false
	for i := 0; i < n && !gap; i++ {
		if seqs[i] == cur+1 {
			cur++
			acc++
		} else if seqs[i] > cur {
			gap = true
		}
	}
	// the snapshot update that follows a commit may fail (storage fault, snapshot lock
	// held by an earlier update): the push is committed and must be announced all the same
	snapFault := []string{"", "GetLatestSnapshot", "InsertSnapshot", "InsertRealSnapshot"}[vf.Choice("snapshot-fault", 4)]
	vf.Tag("snapshot-fault", snapFault)
	w.store.FailName = snapFault
	res, err := w.pushPull(vfCol, vfCUIDx, ppp)
	vf.Assert(err == nil && res != nil, "C16 answered")
	vf.Quiesce() // let the post-commit goroutine (notification, snapshot update) run
	vf.Reach("quiesced")
	stored := 0
	if !gap {
		stored = acc
	}
	vf.Tag("stored", stored)
	if stored == 0 {
		vf.Reach("silent")
		vf.Assert(len(w.mq.Published) == 0, "C18 nothing is published when no operation was stored")
		return
	}
	vf.Reach("announced")
	vf.Assert(len(w.mq.Published) == 1, "C18 exactly one notification per committed push")
	p := w.mq.Published[0]
	vf.Assert(p.Topic == vfCol+"/"+vfKey, "C18 topic is collection/key")
	var msg model.Notification
	vf.Assert(json.Unmarshal(p.Payload, &msg) == nil, "C18 payload decodes")
	vf.Assert(vf.All(msg.CUID == vfCUIDx, msg.DUID == vfDUID, msg.Sseq == st.e+uint64(stored)), "C18 payload carries pusher, datatype and the new end of the log")
}

// VF_C18_PublishFails (C18, C16): the broker is unreachable for one or two
// announcements.  The pushes are committed and answered all the same; once the
// broker is back every committed push is announced again exactly once, with a
// payload that decodes and names its own pusher, datatype and end of log
// (nothing of a failed announcement leaks into a later one).
func VF_C18_PublishFails() {
	w := vfNewWorld()
	w.seedCollection(vfCol, 1)
	a, b := w.newPeer("a", vfCUIDx), w.newPeer("b", vfCUIDy)
	a.cnt = a.cli.CreateCounter(vfKey, a.handlers())
	vf.Assert(a.cli.Sync() == nil, "creator syncs")
	vf.Quiesce()
	b.cnt = b.cli.SubscribeCounter(vfKey, b.handlers())
	vf.Assert(b.cli.Sync() == nil, "subscriber syncs")
	vf.Quiesce()
	w.mq.failPubs = 1 + vf.Choice("failed-publishes", 2)
	failed := w.mq.failPubs
	n0 := len(w.mq.Published)
	pushes := failed + 2
	for i := 0; i < pushes; i++ {
		p := a
		if i%2 == 1 {
			p = b
		}
		_, _ = p.cnt.IncreaseBy(1)
		vf.Assert(p.cli.Sync() == nil, "C16 a push is committed and answered whether or not it can be announced")
		vf.Quiesce()
	}
	vf.Reach("pushed")
	d := w.datatype(orda.VFDUID(a.cnt))
	vf.Assert(d != nil && w.logInvariant(d.DUID) && int(d.Sseq.End) == 1+pushes, "C06 every push is stored")
	pubs := w.mq.Published[n0:]
	vf.Assert(len(pubs) == pushes-failed, "C18 every committed push after the outage is announced exactly once")
	for i, pub := range pubs {
		var note model.Notification
		vf.Assert(json.Unmarshal(pub.Payload, &note) == nil, "C18 the payload of an announcement decodes")
		k := failed + i // index of the push this announcement belongs to
		wantCUID := vfCUIDx
		if k%2 == 1 {
			wantCUID = vfCUIDy
		}
		vf.Assert(pub.Topic == vfCol+"/"+vfKey && note.CUID == wantCUID && note.DUID == d.DUID && note.Sseq == uint64(2+k),
			"C18 an announcement carries its own pusher, datatype and end of log")
	}
}
