package service

// C18: every committed push is announced exactly once on the topic of the
// collection and key, with the pusher's id, the datatype id and the new end of
// the log; pull-only syncs, duplicates and refused pushes publish nothing.

import (
	"encoding/json"

	"github.com/orda-io/orda/client/pkg/model"
	"github.com/orda-io/orda/client/pkg/vf"
)

func VF_C18_Notify() {
	w := vfNewWorld()
	st := vfSeedLog(w, 1)
	rs, rc := vf.U64("req.sseq"), vf.U64("req.cseq")
	vf.Assume(vf.All(rs <= st.e, rs >= st.e-uint64(st.w)))
	n := vf.Choice("nops", 3)
	var ops []*model.Operation
	var seqs []uint64
	for i := 0; i < n; i++ {
		s := vf.U64("op.seq")
		seqs = append(seqs, s)
		ops = append(ops, vfIncOp(vfCUIDx, s, st.e+1))
	}
	ppp := &model.PushPullPack{Key: vfKey, DUID: vfDUID, Option: 0, Type: model.TypeOfDatatype_COUNTER,
		CheckPoint: &model.CheckPoint{Sseq: rs, Cseq: rc}, Operations: ops}
	cur, acc, gap := st.cx, 0, false
	for i := 0; i < n && !gap; i++ {
		if seqs[i] == cur+1 {
			cur++
			acc++
		} else if seqs[i] > cur {
			gap = true
		}
	}
	// the snapshot update that follows a commit may fail (storage fault, snapshot lock
	// held by an earlier update): the push is committed and must be announced all the same
	snapFault := []string{"", "GetLatestSnapshot", "InsertSnapshot", "InsertRealSnapshot"}[vf.Choice("snapshot-fault", 4)]
	vf.Tag("snapshot-fault", snapFault)
	w.store.FailName = snapFault
	res, err := w.pushPull(vfCol, vfCUIDx, ppp)
	vf.Assert(err == nil && res != nil, "C16 answered")
	vf.Quiesce() // let the post-commit goroutine (notification, snapshot update) run
	vf.Reach("quiesced")
	stored := 0
	if !gap {
		stored = acc
	}
	vf.Tag("stored", stored)
	if stored == 0 {
		vf.Reach("silent")
		vf.Assert(len(w.mq.Published) == 0, "C18 nothing is published when no operation was stored")
		return
	}
	vf.Reach("announced")
	vf.Assert(len(w.mq.Published) == 1, "C18 exactly one notification per committed push")
	p := w.mq.Published[0]
	vf.Assert(p.Topic == vfCol+"/"+vfKey, "C18 topic is collection/key")
	var msg model.Notification
	vf.Assert(json.Unmarshal(p.Payload, &msg) == nil, "C18 payload decodes")
	vf.Assert(vf.All(msg.CUID == vfCUIDx, msg.DUID == vfDUID, msg.Sseq == st.e+uint64(stored)), "C18 payload carries pusher, datatype and the new end of the log")
}
