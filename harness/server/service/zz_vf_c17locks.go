package service

// VF_C17_LockIsolation (C17, C12; interleaving): two collections and keys whose
// names run into each other when they are joined with the separators used in
// lock names and topics ("shop" + "eu:cart" against "shop:eu" + "cart", and the
// same with '/').  A client of each syncs its datatype at the same moment while
// one database command takes longer than the lock lease.  Datatypes of different
// collections never wait for each other: both requests are served.  Goes through
// the handlers only (no lock-name helper is called by the harness).

import (
	gocontext "context"

	"github.com/orda-io/orda/client/pkg/model"
	"github.com/orda-io/orda/client/pkg/vf"
)

func VF_C17_LockIsolation() {
	vf.Preemptions(1)
	vf.NoSlowHolders()
	w := vfNewWorld()
	sep := []string{":", "/"}[vf.Choice("separator", 2)]
	colA, keyA := "shop", "eu"+sep+"cart"
	colB, keyB := "shop"+sep+"eu", "cart"
	w.seedCollection(colA, 1)
	w.seedCollection(colB, 2)
	w.seedClient(vfCUIDx, 1, model.ClientType_PERSISTENT)
	w.seedClient(vfCUIDy, 2, model.ClientType_PERSISTENT)
	opt := model.PushPullBitNormal
	opt.SetSubscribeBit().SetCreateBit()
	mk := func(key, duid, cuid string) *model.PushPullPack {
		return &model.PushPullPack{Key: key, DUID: duid, Option: uint32(opt), Type: model.TypeOfDatatype_COUNTER,
			CheckPoint: &model.CheckPoint{}, Operations: []*model.Operation{vfSnapshotOp(cuid), vfIncOp(cuid, 2, 2)}}
	}
	if k := vf.Choice("slow-command", 7); k > 0 {
		w.store.SlowAt = w.store.Commands + k
	}
	done := make(chan int, 2)
	var r1, r2 *model.PushPullPack
	var e1, e2 error
	go func() {
		r1, e1 = w.pushPullCtx(gocontext.Background(), colA, vfCUIDx, mk(keyA, vfDUID, vfCUIDx))
		done <- 1
	}()
	go func() {
		r2, e2 = w.pushPullCtx(gocontext.Background(), colB, vfCUIDy, mk(keyB, vfDUIDu, vfCUIDy))
		done <- 2
	}()
	<-done
	<-done
	vf.Quiesce()
	vf.Reach("both-returned")
	vf.Assert(e1 == nil && e2 == nil && r1 != nil && r2 != nil, "C16 both requests are answered")
	vf.Assert(!hasErr(r1) && !hasErr(r2), "C17/C12 requests for datatypes of different collections never block each other")
	da, _ := w.store.GetDatatypeByKey(context0(), 1, keyA)
	db, _ := w.store.GetDatatypeByKey(context0(), 2, keyB)
	vf.Assert(da != nil && db != nil && da.DUID != db.DUID && da.Sseq.End == 2 && db.Sseq.End == 2, "C17 two independent datatypes were created")
	vf.Assert(w.logInvariant(da.DUID) && w.logInvariant(db.DUID), "C06 both logs are gapless")
	// the announcements name their own collection and key
	own := 0
	for _, p := range w.mq.Published {
		if p.Topic == colA+"/"+keyA || p.Topic == colB+"/"+keyB {
			own++
		}
	}
	vf.Assert(own == len(w.mq.Published) && own == 2, "C18 each committed push is announced once, on the topic of its collection and key")
}
