package service

// VF_C16_RepeatedKey (C16, C12): one well-formed message that names the same
// datatype in two packs (the second a plain pull).  It must be answered - with
// two packs or with an RPC error - and leave the server usable: if it was
// refused as a whole nothing stored may have changed, and in either case the
// per-key lock is free afterwards and the next request for the key is served.
import (
	gocontext "context"

	"github.com/orda-io/orda/client/pkg/model"
	"github.com/orda-io/orda/client/pkg/vf"
)

func VF_C16_RepeatedKey() {
	vf.NoSlowHolders()
	w := vfNewWorld()
	w.seedCollection(vfCol, 1)
	w.seedClient(vfCUIDx, 1, model.ClientType_PERSISTENT)
	w.seedClient(vfCUIDy, 1, model.ClientType_PERSISTENT)
	d := w.seedDatatype(vfDUID, vfKey, 1, model.TypeOfDatatype_COUNTER, 1)
	w.seedOp(vfDUID, 1, 1, vfCUIDx, 1)
	subscribe(d, vfCUIDx, 1, 1)
	subscribe(d, vfCUIDy, 1, 0)
	other := w.seedDatatype(vfDUIDu, "key2", 1, model.TypeOfDatatype_COUNTER, 0)
	subscribe(other, vfCUIDx, 0, 0)
	before := w.digest(vfDUID, vfCUIDx)
	push := &model.PushPullPack{Key: vfKey, DUID: vfDUID, Type: model.TypeOfDatatype_COUNTER,
		CheckPoint: &model.CheckPoint{Sseq: 1, Cseq: 2}, Operations: []*model.Operation{vfIncOp(vfCUIDx, 2, 2)}}
	pull := &model.PushPullPack{Key: vfKey, DUID: vfDUID, Type: model.TypeOfDatatype_COUNTER, CheckPoint: &model.CheckPoint{Sseq: 1, Cseq: 1}}
	third := &model.PushPullPack{Key: "key2", DUID: vfDUIDu, Type: model.TypeOfDatatype_COUNTER, CheckPoint: &model.CheckPoint{Sseq: 0, Cseq: 0}}
	var packs []*model.PushPullPack
	switch vf.Choice("shape", 3) {
	case 0:
		packs = []*model.PushPullPack{push, pull}
	case 1:
		packs = []*model.PushPullPack{push, third, pull}
	case 2:
		packs = []*model.PushPullPack{pull, push}
	}
	msg := &model.PushPullMessage{Header: model.NewMessageHeader(model.RequestType_PUSHPULLS), Collection: vfCol, Cuid: vfCUIDx, PushPullPacks: packs}
	res, err := w.svc.ProcessPushPull(gocontext.TODO(), msg)
	vf.Quiesce()
	vf.Reach("answered")
	vf.Assert(err != nil || (res != nil && len(res.PushPullPacks) == len(packs)), "C16 the message is answered: every pack, or an error for the whole request")
	if err != nil {
		vf.Assert(sameDigest(before, w.digest(vfDUID, vfCUIDx)), "C16 a refused request changes nothing stored")
	}
	vf.Assert(w.logInvariant(vfDUID), "C06 log invariant")
	r, e := w.pushPullCtx(gocontext.Background(), vfCol, vfCUIDy, &model.PushPullPack{Key: vfKey, DUID: vfDUID, Type: model.TypeOfDatatype_COUNTER,
		CheckPoint: &model.CheckPoint{Sseq: 1, Cseq: 1}, Operations: []*model.Operation{vfIncOp(vfCUIDy, 1, 3)}})
	vf.Assert(e == nil && r != nil && !hasErrBit(r), "C16/C12 the key stays usable: the next request for it is served")
	vf.Quiesce()
	vf.Assert(w.lockFree(1, vfKey) && w.lockFree(1, "key2"), "C12 the per-key locks are free afterwards")
}
