package service

// VF_C13_Reentry (C13): one client makes two entry calls for the same new key,
// in any two of the three modes, the first one settled (synced: accepted or
// refused) or still pending when the second is made.  Whatever the outcome for
// that client, the key must stay enterable: if a datatype exists under the key
// afterwards its log starts with the creator's snapshot operation and the
// creator is subscribed at the server's state, and another client that then
// enters the valid way becomes subscribed once, without an error, at the
// datatype's state.

import (
	"github.com/orda-io/orda/client/pkg/model"
	"github.com/orda-io/orda/client/pkg/orda"
	"github.com/orda-io/orda/client/pkg/vf"
)

func VF_C13_Reentry() {
	w := vfNewWorld()
	w.seedCollection(vfCol, 1)
	b, c := w.newPeer("b", vfCUIDy), w.newPeer("c", vfCUIDx)
	const key = "newkey"
	logb := &vfErrLog{}
	enter := func(mode int) orda.Counter {
		switch mode {
		case 0:
			return b.cli.SubscribeCounter(key, logb.handlers())
		case 1:
			return b.cli.CreateCounter(key, logb.handlers())
		}
		return b.cli.SubscribeOrCreateCounter(key, logb.handlers())
	}
	first, second := vf.Choice("first", 3), vf.Choice("second", 3)
	settled := vf.Choice("synced-between", 2) == 1
	vf.Tag("first", first)
	vf.Tag("second", second)
	vf.Tag("synced-between", settled)
	var d2 orda.Counter
	panicked, msg := vf.Try(func() {
		_ = enter(first)
		if settled {
			_ = b.cli.Sync()
			vf.Quiesce()
		}
		d2 = enter(second)
		if d2 != nil {
			_, _ = d2.IncreaseBy(2)
		}
		_ = b.cli.Sync()
		vf.Quiesce()
	})
	vf.Reach("entered")
	if panicked {
		vf.Tag("_panic", msg)
	}
	vf.Assert(!panicked, "C16 repeated entry calls never panic")
	if sv, _, exists := w.serverValue(key); exists {
		vf.Reach("created")
		d, _ := w.store.GetDatatypeByKey(context0(), 1, key)
		headIsSnapshot := false
		for _, o := range w.store.Operations {
			if o.DUID == d.DUID && uint64(o.Sseq) == 1 {
				headIsSnapshot = o.GetOperation().OpType == model.TypeOfOperation_COUNTER_SNAPSHOT
			}
		}
		vf.Assert(headIsSnapshot, "C13 the log of a created datatype starts with its snapshot operation")
		vf.Assert(w.logInvariant(d.DUID), "C06 the log is gapless")
		if d2 != nil && orda.VFDatatypeState(d2) == model.StateOfDatatype_SUBSCRIBED {
			vf.Assert(d2.Get() == sv, "C13 the entered client holds the datatype's state")
		}
	}
	// another client enters the valid way
	logc := &vfErrLog{}
	var dc orda.Counter
	panicked, msg = vf.Try(func() {
		dc = c.cli.SubscribeOrCreateCounter(key, logc.handlers())
		_ = c.cli.Sync()
		vf.Quiesce()
	})
	if panicked {
		vf.Tag("_panic", msg)
	}
	vf.Assert(!panicked, "C16 a client entering afterwards does not panic")
	vf.Assert(len(logc.codes) == 0, "C13 a valid subscribe-or-create reports no error, whatever another client tried before")
	vf.Assert(orda.VFDatatypeState(dc) == model.StateOfDatatype_SUBSCRIBED && countState(logc.states, model.StateOfDatatype_SUBSCRIBED) == 1,
		"C13 the transition to subscribed is reported exactly once")
	sv, _, exists := w.serverValue(key)
	vf.Assert(exists && dc.Get() == sv, "C13 a new subscriber's first state equals the datatype's state at the log position it subscribed at")
	n := 0
	for _, d := range w.store.Datatypes {
		if d.CollectionNum == 1 && d.Key == key {
			n++
		}
	}
	vf.Assert(n == 1, "C13 exactly one datatype per collection and key")
}
