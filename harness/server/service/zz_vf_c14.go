package service

// C14 (reduced): every operation kind, with symbolic identifiers and JSON value
// shapes, encodes to the protocol message and decodes back to an operation with
// the same type, identifier and body; the stored form (OperationDoc) returns
// the same message; the encoding-echo service returns an equivalent operation.
// Byte-level codecs (encoding/json text, protobuf, BSON) are outside the claim.

import (
	gocontext "context"

	"github.com/orda-io/orda/client/pkg/iface"
	"github.com/orda-io/orda/client/pkg/model"
	"github.com/orda-io/orda/client/pkg/operations"
	"github.com/orda-io/orda/client/pkg/types"
	"github.com/orda-io/orda/client/pkg/vf"
	"github.com/orda-io/orda/server/schema"
)

func c14TS(tag string) *model.Timestamp {
	l := vf.U64(tag + ".lamport")
	d := vf.U32(tag + ".delim")
	vf.Assume(vf.All(l >= 1, l < 1<<62, d < 1<<16))
	return &model.Timestamp{Era: 0, Lamport: l, CUID: vf.UID(tag + ".cuid"), Delimiter: d}
}

func c14TsEq(a, b *model.Timestamp) bool {
	if a == nil || b == nil {
		return a == b
	}
	return vf.All(a.Era == b.Era, a.Lamport == b.Lamport, a.CUID == b.CUID, a.Delimiter == b.Delimiter)
}

func c14TsListEq(a, b []*model.Timestamp) bool {
	if len(a) != len(b) {
		return false
	}
	for i := range a {
		if !c14TsEq(a[i], b[i]) {
			return false
		}
	}
	return true
}

func c14Value(tag string) interface{} {
	switch vf.Choice(tag, 6) {
	case 0:
		return c14Strings[vf.Choice(tag+".s", len(c14Strings))]
	case 1:
		return 7.5
	case 2:
		return true
	case 3:
		return map[string]interface{}{"k": "v", "n": map[string]interface{}{}}
	case 4:
		return []interface{}{"e", 1.0, []interface{}{}}
	}
	return ""
}

// c14Batch: the values of an insert, 0..2 of them.
func c14Batch() []interface{} {
	var vs []interface{}
	switch vf.Choice("batch", 3) {
	case 1:
		vs = []interface{}{c14Value("v0")}
	case 2:
		vs = []interface{}{c14Value("v0"), "second"}
	}
	return vs
}

func c14ValuesEq(a, b []interface{}) bool {
	if len(a) != len(b) {
		return false
	}
	for i := range a {
		if !jsonEq(a[i], b[i]) {
			return false
		}
	}
	return true
}

// sameOperation compares two operations of the same concrete kind field by field.
func sameOperation(x, y iface.Operation) bool {
	if x.GetType() != y.GetType() {
		return false
	}
	a, b := x.GetID(), y.GetID()
	if !vf.All(a.Era == b.Era, a.Lamport == b.Lamport, a.CUID == b.CUID, a.Seq == b.Seq) {
		return false
	}
	switch p := x.(type) {
	case *operations.IncreaseOperation:
		return p.GetBody() == y.(*operations.IncreaseOperation).GetBody()
	case *operations.TransactionOperation:
		q := y.(*operations.TransactionOperation)
		return p.GetBody().Tag == q.GetBody().Tag && p.GetBody().NumOfOps == q.GetBody().NumOfOps
	case *operations.PutOperation:
		q := y.(*operations.PutOperation)
		return p.GetBody().Key == q.GetBody().Key && jsonEq(p.GetBody().Value, q.GetBody().Value)
	case *operations.RemoveOperation:
		return p.GetBody().Key == y.(*operations.RemoveOperation).GetBody().Key
	case *operations.InsertOperation:
		q := y.(*operations.InsertOperation)
		return c14TsEq(p.GetBody().T, q.GetBody().T) && c14ValuesEq(p.GetBody().V, q.GetBody().V)
	case *operations.DeleteOperation:
		return c14TsListEq(p.GetBody().T, y.(*operations.DeleteOperation).GetBody().T)
	case *operations.UpdateOperation:
		q := y.(*operations.UpdateOperation)
		return c14TsListEq(p.GetBody().T, q.GetBody().T) && c14ValuesEq(p.GetBody().V, q.GetBody().V)
	case *operations.DocPutInObjOperation:
		q := y.(*operations.DocPutInObjOperation)
		return c14TsEq(p.GetBody().P, q.GetBody().P) && p.GetBody().K == q.GetBody().K && jsonEq(p.GetBody().V, q.GetBody().V)
	case *operations.DocRemoveInObjOperation:
		q := y.(*operations.DocRemoveInObjOperation)
		return c14TsEq(p.GetBody().P, q.GetBody().P) && p.GetBody().K == q.GetBody().K
	case *operations.DocInsertToArrayOperation:
		q := y.(*operations.DocInsertToArrayOperation)
		return c14TsEq(p.GetBody().P, q.GetBody().P) && c14TsEq(p.GetBody().T, q.GetBody().T) && c14ValuesEq(p.GetBody().V, q.GetBody().V)
	case *operations.DocDeleteInArrayOperation:
		q := y.(*operations.DocDeleteInArrayOperation)
		return c14TsEq(p.GetBody().P, q.GetBody().P) && c14TsListEq(p.GetBody().T, q.GetBody().T)
	case *operations.DocUpdateInArrayOperation:
		q := y.(*operations.DocUpdateInArrayOperation)
		return c14TsEq(p.GetBody().P, q.GetBody().P) && c14TsListEq(p.GetBody().T, q.GetBody().T) && c14ValuesEq(p.GetBody().V, q.GetBody().V)
	case *operations.ErrorOperation:
		q := y.(*operations.ErrorOperation)
		return p.GetCode() == q.GetCode() && p.GetMessage() == q.GetMessage()
	}
	return false
}

// strings with separators, escapes, control characters and wide code points
var c14Strings = []string{"key", "q\"b\\s/:~\n\t", "ctl\x07\x0b\x00\x1c\x7f", "\u00e9\u4e2d\U0001F600\U000E0001",
	"re\\u2028\\u2029\\n\\\"x", "sep\u2028\u2029<>&", c14Long, "y" + c14Long, "zz" + c14Long}

// a text longer than any buffer or limit one would put on a message (several hundred
// bytes), with multi-byte characters at every offset modulo 3
var c14Long = func() string {
	s := "x"
	for i := 0; i < 150; i++ {
		s += "\u4e2d" + string(rune('a'+i%26))
	}
	return s
}()

func VF_C14_Encoding() {
	w := vfNewWorld()
	kind := vf.Choice("kind", 13)
	str := c14Strings[vf.Choice("string", len(c14Strings))]
	vf.Tag("kind", kind)
	var op iface.Operation
	switch kind {
	case 0:
		op = operations.NewIncreaseOperation(vf.I32("delta"))
	case 1:
		t := operations.NewTransactionOperation(str)
		// a unit announces its own length: any length a client can produce (1 .. 2^31-1) is
		// carried as it is (set through the setter the client code uses)
		n := vf.I32("n")
		vf.Assume(n >= 1)
		t.SetNumOfOps(int(n))
		vf.Assert(int(t.GetNumOfOps()) == int(n), "C14/C09 a transaction header carries the length it was given")
		op = t
	case 2:
		op = operations.NewPutOperation(str, c14Value("v"))
	case 3:
		op = operations.NewRemoveOperation(str)
	case 4:
		// a batch of 0..2 values (InsertMany with an empty batch is a valid call that is numbered and pushed)
		o := operations.NewInsertOperation(0, c14Batch())
		o.GetBody().T = c14TS("target")
		op = o
	case 5:
		o := operations.NewDeleteOperation(0, 2)
		o.GetBody().T = []*model.Timestamp{c14TS("t0"), c14TS("t1")}
		op = o
	case 6:
		o := operations.NewUpdateOperation(0, []interface{}{c14Value("v0")})
		o.GetBody().T = []*model.Timestamp{c14TS("t0")}
		op = o
	case 7:
		op = operations.NewDocPutInObjOperation(c14TS("parent"), str, c14Value("v"))
	case 8:
		op = operations.NewDocRemoveInObjOperation(c14TS("parent"), str)
	case 9:
		o := operations.NewDocInsertToArrayOperation(c14TS("parent"), 0, c14Batch())
		o.GetBody().T = c14TS("target")
		op = o
	case 10:
		o := operations.NewDocDeleteInArrayOperation(c14TS("parent"), 0, 1)
		o.GetBody().T = []*model.Timestamp{c14TS("t0")}
		op = o
	case 11:
		o := operations.NewDocUpdateInArrayOperation(c14TS("parent"), 0, []interface{}{c14Value("v0")})
		o.GetBody().T = []*model.Timestamp{c14TS("t0")}
		op = o
	case 12:
		eo := operations.NewErrorOperationWithCodeAndMsg(302, str)
		vf.Assert(eo.GetMessage() == str && eo.GetCode() == 302, "C14 an operation carries the values it was built with")
		op = eo
	}
	id := &model.OperationID{Era: 0, Lamport: vf.U64("id.lamport"), CUID: vf.UID("id.cuid"), Seq: vf.U64("id.seq")}
	op.SetID(id)
	var mo *model.Operation
	var back iface.Operation
	panicked, msg := vf.Try(func() {
		mo = op.ToModelOperation()
		back = operations.ModelToOperation(mo)
	})
	vf.Reach("roundtrip")
	if panicked {
		vf.Tag("_panic", msg)
	}
	vf.Assert(!panicked, "C14 encoding and decoding a produced message never panics")
	vf.Assert(mo.OpType == op.GetType(), "C14 the message carries the operation type")
	vf.Assert(sameOperation(op, back), "C14 decode(encode(op)) has the same identifier, type and body")
	// storage form
	sseq := vf.U64("sseq")
	doc := schema.NewOperationDoc(mo, vfDUID, sseq, 1)
	stored := doc.GetOperation()
	vf.Assert(stored.OpType == mo.OpType && vf.All(stored.ID.Lamport == id.Lamport, stored.ID.Seq == id.Seq, stored.ID.CUID == id.CUID, stored.ID.Era == id.Era),
		"C14 the stored form returns the same type and identifier")
	vf.Assert(sameOperation(op, operations.ModelToOperation(stored)), "C14 the stored form decodes to the same operation")
	// echo service
	res, err := w.svc.TestEncodingOperation(gocontext.TODO(), &model.EncodingMessage{Type: model.TypeOfDatatype_LIST, Op: mo})
	vf.Assert(err == nil && res != nil && res.Op != nil, "C14 the encoding-echo service answers")
	vf.Assert(sameOperation(op, operations.ModelToOperation(res.Op)), "C14 the encoding-echo service returns an operation equivalent to its input")
}

// VF_C14_Numbers: every Go integer is converted to the float64 of the same
// value (exact within 2^53), other JSON scalars are left unchanged.
func VF_C14_Numbers() {
	v := vf.I64("v")
	vf.Assume(vf.All(v >= -(1<<53), v <= 1<<53))
	f, ok := types.ConvertToJSONSupportedValue(v).(float64)
	vf.Reach("converted")
	vf.Assert(ok, "C14 an int64 becomes a float64")
	vf.Assert(int64(f) == v, "C14 the float64 holds exactly the integer's value (|v| <= 2^53)")
	u := vf.U32("u")
	g, ok2 := types.ConvertToJSONSupportedValue(u).(float64)
	vf.Assert(ok2 && uint32(g) == u, "C14 a uint32 converts exactly")
	p := &v
	h, ok3 := types.ConvertToJSONSupportedValue(p).(float64)
	vf.Assert(ok3 && int64(h) == v, "C14 a pointer to an integer converts like the integer")
	s := types.ConvertToJSONSupportedValue("str")
	b := types.ConvertToJSONSupportedValue(true)
	vf.Assert(s == "str" && b == true, "C14 strings and booleans are unchanged")
}
