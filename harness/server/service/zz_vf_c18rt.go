package service

// C18, second half: realtime clients that have completed their first sync and
// then only perform local operations converge without any Sync call.  Real
// clients in realtime mode (DeliverTransaction goroutines, semaphore, the real
// NotifyManager with its channel and loop), the real service and Notifier, an
// in-process broker that delivers every publish to every subscriber in its own
// goroutine.  Interleaving mode: context switches at database round trips, at
// the two ends of the wire, and at mutex operations.

import (
	gocontext "context"
	"github.com/orda-io/orda/client/pkg/errors"
	"github.com/orda-io/orda/client/pkg/model"
	"github.com/orda-io/orda/client/pkg/orda"
	"github.com/orda-io/orda/client/pkg/vf"
)

func (w *vfWorld) newRealtimePeer(name, cuid string, br *vfBroker) *vfPeer {
	p := &vfPeer{name: name, tr: &vfTransport{w: w, wire: true}}
	p.cli = orda.VFNewRealtimeClient(vfCol, name, cuid, p.tr, &vfMqtt{broker: br})
	vf.Assert(orda.VFRegister(p.cli) == nil, "client registers")
	return p
}

func VF_C18_Realtime() {
	vf.Preemptions(1)
	w := vfNewWorld()
	br := &vfBroker{}
	w.mq.broker = br
	w.seedCollection(vfCol, 1)
	a, b := w.newRealtimePeer("a", vfCUIDx, br), w.newRealtimePeer("b", vfCUIDy, br)
	a.cnt = a.cli.CreateCounter(vfKey, a.handlers())
	vf.Quiesce()
	b.cnt = b.cli.SubscribeCounter(vfKey, b.handlers())
	vf.Quiesce()
	vf.Assert(orda.VFDatatypeState(a.cnt) == model.StateOfDatatype_SUBSCRIBED && orda.VFDatatypeState(b.cnt) == model.StateOfDatatype_SUBSCRIBED,
		"C18 both realtime clients complete their first sync by themselves")
	// from here on: local operations only, never a Sync call
	want := int32(0)
	script := vf.Choice("script", 4)
	vf.Tag("script", script)
	switch script {
	case 0: // one writer
		_, _ = a.cnt.IncreaseBy(1)
		want = 1
	case 1: // both write at the same moment
		_, _ = a.cnt.IncreaseBy(1)
		_, _ = b.cnt.IncreaseBy(10)
		want = 11
	case 2: // a writes twice in a row, b once
		_, _ = a.cnt.IncreaseBy(1)
		_, _ = a.cnt.IncreaseBy(100)
		_, _ = b.cnt.IncreaseBy(10)
		want = 111
	case 3: // b writes, things settle, then a writes
		_, _ = b.cnt.IncreaseBy(10)
		vf.Quiesce()
		_, _ = a.cnt.IncreaseBy(1)
		want = 11
	}
	vf.Quiesce()
	vf.Reach("settled")
	_, _, _, pa := orda.VFSyncState(a.cnt)
	_, _, _, pb := orda.VFSyncState(b.cnt)
	vf.Assert(pa == 0 && pb == 0, "C18 every local operation of a realtime client is pushed without a Sync call")
	vf.Assert(a.cnt.Get() == want && b.cnt.Get() == want, "C18 realtime clients converge to a common state without any Sync call")
	sv, _, ok := w.serverValue(vfKey)
	vf.Assert(ok && sv == want, "C18 the server's copy equals the common state")
	if a.errs+b.errs > 0 {
		vf.Tag("_errors", a.errText+"|"+b.errText) // e.g. a push refused after waiting for the lock longer than the lease; it is retried
	}
}


// VF_C13_TopicRefused (C13): a realtime client whose notification-topic
// subscription is refused by the broker at the moment it becomes subscribed.
// The refusal is reported to its error handler, but the subscription itself
// took place on the server: the client's first state must still be the
// datatype's state at the log position it subscribed at, the transition to
// subscribed is reported once, and a later explicit Sync keeps it current.
func VF_C13_TopicRefused() {
	w := vfNewWorld()
	br := &vfBroker{}
	w.mq.broker = br
	w.seedCollection(vfCol, 1)
	a := w.newRealtimePeer("a", vfCUIDx, br)
	a.cnt = a.cli.CreateCounter(vfKey, a.handlers())
	vf.Quiesce()
	_, _ = a.cnt.IncreaseBy(1)
	_, _ = a.cnt.IncreaseBy(10)
	vf.Quiesce()
	bmq := &vfMqtt{broker: br, refuse: true}
	b := &vfPeer{name: "b", tr: &vfTransport{w: w, wire: true}}
	b.cli = orda.VFNewRealtimeClient(vfCol, "b", vfCUIDy, b.tr, bmq)
	vf.Assert(orda.VFRegister(b.cli) == nil, "client registers")
	if vf.Choice("entry", 2) == 0 {
		b.cnt = b.cli.SubscribeCounter(vfKey, b.handlers())
	} else {
		b.cnt = b.cli.SubscribeOrCreateCounter(vfKey, b.handlers())
	}
	vf.Quiesce()
	vf.Reach("subscribed")
	vf.Assert(orda.VFDatatypeState(b.cnt) == model.StateOfDatatype_SUBSCRIBED, "C13 the subscription took place")
	vf.Assert(b.cnt.Get() == 11, "C13 a new subscriber's first state equals the datatype's state at the log position it subscribed at")
	vf.Assert(countState(b.states, model.StateOfDatatype_SUBSCRIBED) == 1, "C13 the transition to subscribed is reported exactly once")
	vf.Assert(b.errs > 0, "C16 the refused topic subscription is reported through the error handler")
	_, _ = a.cnt.IncreaseBy(100)
	vf.Quiesce()
	vf.Assert(b.cli.Sync() == nil, "C16 the client remains usable")
	vf.Quiesce()
	vf.Assert(b.cnt.Get() == 111 && a.cnt.Get() == 111, "C05 an explicit sync brings the client up to date")
}

// VF_C18_JoinRace (C18; interleaving): the moment a realtime client reports that
// its first sync is complete (state handler: subscribed), another realtime client
// issues a local operation.  From then on nobody calls Sync.  Both converge:
// whatever a client still has to do to hear about later pushes must be done by
// the time it reports the first sync as complete.
func VF_C18_JoinRace() {
	vf.Preemptions(1)
	w := vfNewWorld()
	br := &vfBroker{}
	w.mq.broker = br
	w.seedCollection(vfCol, 1)
	a, b := w.newRealtimePeer("a", vfCUIDx, br), w.newRealtimePeer("b", vfCUIDy, br)
	a.cnt = a.cli.CreateCounter(vfKey, a.handlers())
	vf.Quiesce()
	joined := make(chan bool, 4)
	h := orda.NewHandlers(
		func(dt orda.Datatype, old, new model.StateOfDatatype) {
			if new == model.StateOfDatatype_SUBSCRIBED {
				joined <- true
			}
		},
		func(dt orda.Datatype, opList []interface{}) {},
		func(dt orda.Datatype, errs ...errors.OrdaError) { b.errs += len(errs) },
	)
	b.cnt = b.cli.SubscribeCounter(vfKey, h)
	<-joined
	_, _ = a.cnt.IncreaseBy(1)
	vf.Quiesce()
	vf.Reach("settled")
	_, _, _, pa := orda.VFSyncState(a.cnt)
	vf.Assert(pa == 0, "C18 every local operation of a realtime client is pushed without a Sync call")
	vf.Assert(a.cnt.Get() == 1 && b.cnt.Get() == 1, "C18 a client that has reported its first sync as complete hears about every later push")
}

// VF_C18_RestToRealtime (C18, C19): a REST patch is a push like any other: its
// announcement travels through the broker to the real notification path of a
// subscribed realtime client (NotifyManager callback, channel, loop, datatype
// manager), which pulls by itself and converges to the target.  The pusher id
// in the announcement is the server's patch client, not an SDK-generated id.
func VF_C18_RestToRealtime() {
	w := vfNewWorld()
	br := &vfBroker{}
	w.mq.broker = br
	w.seedCollection(vfCol, 1)
	a := w.newRealtimePeer("a", vfCUIDx, br)
	doc := a.cli.CreateDocument(vfKey, a.handlers())
	_, e := doc.PutToObject("a", "old")
	vf.Assert(e == nil, "client put succeeds")
	vf.Quiesce()
	vf.Assert(orda.VFDatatypeState(doc) == model.StateOfDatatype_SUBSCRIBED, "C18 the realtime client completes its first sync by itself")
	calls := a.tr.calls
	target := c19Targets[vf.Choice("target", 2)]
	res, err := w.svc.PatchDocument(gocontext.TODO(), &model.PatchMessage{Key: vfKey, Collection: vfCol, Json: target})
	vf.Assert(err == nil && res != nil, "C19 the REST patch is answered")
	vf.Quiesce()
	vf.Reach("settled")
	vf.Assert(a.tr.calls > calls, "C18 the announcement of a REST patch makes a subscribed realtime client pull")
	vf.Assert(jsonEq(doc.GetValue(), parseJSON(target)), "C18/C19 the realtime client converges to the patch target without a Sync call")
	vf.Assert(a.errs == 0, "C18 no error on the client")
}
