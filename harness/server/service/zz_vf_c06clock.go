package service

// VF_C06_Clock (C06, C07): the clock is an environment input.  Every time.Now()
// of the server returns an arbitrary instant not earlier than the previous one,
// so any amount of time may pass between two requests ("pushes after long
// offline periods").  A client of any type (persistent, ephemeral, volatile is
// excluded: it keeps no checkpoint by design) has pushed k operations; after an
// arbitrary pause during which another client syncs the datatype, its request is
// delivered again (re-push of acknowledged operations), then it pushes one new
// operation.  The log stays an exactly-once order and the recorded checkpoint
// still knows what is stored, however long the pause was.

import (
	"github.com/orda-io/orda/client/pkg/model"
	"github.com/orda-io/orda/client/pkg/vf"
)

func hasErr(p *model.PushPullPack) bool {
	o := model.PushPullPackOption(p.Option)
	return o.HasErrorBit()
}

func VF_C06_Clock() {
	vf.SymbolicClock()
	w := vfNewWorld()
	w.seedCollection(vfCol, 1)
	typ := []model.ClientType{model.ClientType_PERSISTENT, model.ClientType_EPHEMERAL}[vf.Choice("client-type", 2)]
	vf.Tag("client-type", int(typ))
	w.seedClient(vfCUIDx, 1, typ)
	w.seedClient(vfCUIDy, 1, model.ClientType_PERSISTENT)
	opt := model.PushPullBitNormal
	opt.SetSubscribeBit().SetCreateBit()
	// x creates the counter and pushes two operations
	create := &model.PushPullPack{Key: vfKey, DUID: vfDUID, Option: uint32(opt), Type: model.TypeOfDatatype_COUNTER,
		CheckPoint: &model.CheckPoint{Sseq: 0, Cseq: 0}, Operations: []*model.Operation{vfSnapshotOp(vfCUIDx), vfIncOp(vfCUIDx, 2, 2), vfIncOp(vfCUIDx, 3, 3)}}
	r0, e0 := w.pushPull(vfCol, vfCUIDx, copyPack(create))
	vf.Assert(e0 == nil && r0 != nil && !hasErr(r0), "creator's first push is accepted")
	vf.Quiesce()
	// ... a pause of any length; y subscribes and later syncs again
	sub := model.PushPullBitNormal
	sub.SetSubscribeBit()
	r1, e1 := w.pushPull(vfCol, vfCUIDy, &model.PushPullPack{Key: vfKey, DUID: vfDUID, Option: uint32(sub), Type: model.TypeOfDatatype_COUNTER,
		CheckPoint: &model.CheckPoint{Sseq: 0, Cseq: 0}})
	vf.Assert(e1 == nil && r1 != nil && !hasErr(r1), "y subscribes")
	vf.Quiesce()
	r2, e2 := w.pushPull(vfCol, vfCUIDy, &model.PushPullPack{Key: vfKey, DUID: vfDUID, Option: uint32(model.PushPullBitNormal), Type: model.TypeOfDatatype_COUNTER,
		CheckPoint: &model.CheckPoint{Sseq: 3, Cseq: 0}, Operations: []*model.Operation{vfIncOp(vfCUIDy, 1, 4)}})
	vf.Assert(e2 == nil && r2 != nil && !hasErr(r2), "y pushes")
	vf.Quiesce()
	before := w.digest(vfDUID, vfCUIDx)
	vf.Assert(before.nOps == 4 && before.end == 4, "four operations are stored")
	// x comes back: its old operations are delivered again (normal option, old checkpoint)
	again := &model.PushPullPack{Key: vfKey, DUID: vfDUID, Option: uint32(model.PushPullBitNormal), Type: model.TypeOfDatatype_COUNTER,
		CheckPoint: &model.CheckPoint{Sseq: 3, Cseq: 3}, Operations: []*model.Operation{vfIncOp(vfCUIDx, 2, 2), vfIncOp(vfCUIDx, 3, 3)}}
	r3, e3 := w.pushPull(vfCol, vfCUIDx, again)
	vf.Quiesce()
	vf.Reach("returned")
	vf.Assert(e3 == nil && r3 != nil, "C16 the returning client is answered")
	after := w.digest(vfDUID, vfCUIDx)
	vf.Assert(after.nOps == before.nOps && after.end == before.end, "C06 operations that are already stored are not stored again, however long the client was away")
	vf.Assert(w.logInvariant(vfDUID), "C06 the log is a gapless exactly-once order")
	vf.Assert(!hasErr(r3) && r3.CheckPoint.Cseq == 3, "C06 the recorded checkpoint still acknowledges exactly the client's stored operations")
	vf.Assert(len(r3.Operations) == 1 && r3.Operations[0].ID.CUID == vfCUIDy, "C05 the returning client pulls what it missed")
	// and its next new operation is accepted
	r4, e4 := w.pushPull(vfCol, vfCUIDx, &model.PushPullPack{Key: vfKey, DUID: vfDUID, Option: uint32(model.PushPullBitNormal), Type: model.TypeOfDatatype_COUNTER,
		CheckPoint: &model.CheckPoint{Sseq: 4, Cseq: 3}, Operations: []*model.Operation{vfIncOp(vfCUIDx, 4, 5)}})
	vf.Assert(e4 == nil && r4 != nil && !hasErr(r4), "C06 the next operation of the returning client is accepted")
	end := w.digest(vfDUID, vfCUIDx)
	vf.Assert(end.nOps == 5 && end.end == 5 && w.logInvariant(vfDUID), "C06 exactly the pushed operations are stored")
}
