package service

// C11: stored snapshots and the user-visible document equal the log replay.

import (
	"github.com/orda-io/orda/client/pkg/iface"
	"github.com/orda-io/orda/client/pkg/model"
	"github.com/orda-io/orda/client/pkg/orda"
	"github.com/orda-io/orda/client/pkg/vf"
	"github.com/orda-io/orda/server/schema"
	"github.com/orda-io/orda/server/snapshot"
)

func vfIncOpDelta(owner string, seq, lamport uint64, delta string) *model.Operation {
	return &model.Operation{
		ID:     &model.OperationID{Era: 0, Lamport: lamport, CUID: owner, Seq: seq},
		OpType: model.TypeOfOperation_COUNTER_INCREASE,
		Body:   []byte(`{"Delta":` + delta + `}`),
	}
}

// VF_C11_Snapshot: latest snapshot at a symbolic position p, w further log
// entries up to the symbolic end e; UpdateSnapshot must store a snapshot with
// version e whose content is snapshot + later operations, the user document
// gets the same value and version, and a rebuild agrees.
func VF_C11_Snapshot() {
	w := vfNewWorld()
	w.seedCollection(vfCol, 1)
	e := vf.U64("e")
	nw := vf.Choice("later-ops", 3)
	vf.Assume(vf.All(e < 1<<62, e >= uint64(nw)))
	p := e - uint64(nw)
	d := w.seedDatatype(vfDUID, vfKey, 1, model.TypeOfDatatype_COUNTER, e)
	subscribe(d, vfCUIDy, e, e)
	// the value at position p: either a stored snapshot (p >= 1) or the empty log
	base := int32(0)
	hasSnap := vf.Choice("has-snapshot", 2) == 1
	if hasSnap {
		vf.Assume(p >= 1)
		// produce meta+snapshot with the real code from a counter holding the value 5
		cli := orda.NewClient(orda.NewLocalClientConfig(vfCol), "seed")
		c := cli.CreateCounter(vfKey, nil)
		_, _ = c.IncreaseBy(5)
		c.(iface.Datatype).SetDUID(vfDUID)
		meta, snap, err := c.(iface.Datatype).GetMetaAndSnapshot()
		vf.Assert(err == nil, "seed snapshot")
		w.store.Snapshots = append(w.store.Snapshots, &schema.SnapshotDoc{ID: "old", CollectionNum: 1, DUID: vfDUID, Sseq: p, Meta: string(meta), Snapshot: snap})
		base = 5
	} else {
		vf.Assume(p == 0)
	}
	deltas := []string{"1", "10", "100"}
	want := base
	add := []int32{1, 10, 100}
	for i := 0; i < nw; i++ {
		sseq := p + 1 + uint64(i)
		op := vfIncOpDelta(vfCUIDy, sseq, sseq, deltas[i])
		w.store.Operations = append(w.store.Operations, schema.NewOperationDoc(op, vfDUID, sseq, 1))
		want += add[i]
	}
	m := snapshot.NewManager(context0(), w.mgr, w.datatype(vfDUID), w.collection(1))
	nsnap := len(w.store.Snapshots)
	err := m.UpdateSnapshot()
	vf.Reach("updated")
	vf.Assert(err == nil, "C11 UpdateSnapshot succeeds")
	vf.Assert(len(w.store.Snapshots) == nsnap+1, "C11 one snapshot document is stored")
	sd := w.store.Snapshots[nsnap]
	if nw > 0 || hasSnap {
		vf.Assert(sd.Sseq == e, "C11 the stored snapshot's version is the last log position it replayed")
	}
	// restoring the stored snapshot gives the replayed value
	cli2 := orda.NewClient(orda.NewLocalClientConfig(vfCol), "check")
	c2 := cli2.CreateCounter(vfKey, nil)
	vf.Assert(c2.(iface.Datatype).SetMetaAndSnapshot([]byte(sd.Meta), sd.Snapshot) == nil, "C11 the stored snapshot can be restored")
	vf.Assert(c2.Get() == want, "C11 the stored snapshot equals the replay of the log up to its version")
	// user-visible document
	real := w.store.Real[vfCol]
	vf.Assert(len(real) == 1 && real[0].ID == vfKey && real[0].Ver == sd.Sseq, "C11 the user document records the same version")
	// rebuilding from the latest snapshot plus later operations
	dt, last, gerr := m.GetLatestDatatype()
	vf.Assert(gerr == nil && dt.(orda.Counter).Get() == want, "C11 rebuilding from the latest snapshot gives the same state")
	if nw > 0 || hasSnap {
		vf.Assert(last == e, "C11 rebuild position is the end of the log")
	}
	// a later push followed by another update: the recorded version never decreases
	op := vfIncOpDelta(vfCUIDy, e+1, e+1, "1000")
	w.store.Operations = append(w.store.Operations, schema.NewOperationDoc(op, vfDUID, e+1, 1))
	w.datatype(vfDUID).Sseq.End = e + 1
	vf.Assert(m.UpdateSnapshot() == nil, "C11 second UpdateSnapshot succeeds")
	real = w.store.Real[vfCol]
	vf.Assert(len(real) == 1 && real[0].Ver == e+1 && real[0].Ver >= sd.Sseq, "C11 the recorded version never decreases")
	dt2, last2, _ := m.GetLatestDatatype()
	vf.Assert(dt2.(orda.Counter).Get() == want+1000 && last2 == e+1, "C11 snapshot + later operations equals whole-log replay")
}
