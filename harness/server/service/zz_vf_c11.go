package service

// C11: stored snapshots and the user-visible document equal the log replay.

import (
	"encoding/json"

	"github.com/orda-io/orda/client/pkg/iface"
	"github.com/orda-io/orda/client/pkg/model"
	"github.com/orda-io/orda/client/pkg/orda"
	"github.com/orda-io/orda/client/pkg/vf"
	"github.com/orda-io/orda/server/schema"
	"github.com/orda-io/orda/server/snapshot"
)

func vfIncOpDelta(owner string, seq, lamport uint64, delta string) *model.Operation {
	return &model.Operation{
		ID:     &model.OperationID{Era: 0, Lamport: lamport, CUID: owner, Seq: seq},
		OpType: model.TypeOfOperation_COUNTER_INCREASE,
		Body:   []byte(`{"Delta":` + delta + `}`),
	}
}

// VF_C11_Snapshot: latest snapshot at a symbolic position p, w further log
// entries up to the symbolic end e; UpdateSnapshot must store a snapshot with
// version e whose content is snapshot + later operations, the user document
// gets the same value and version, and a rebuild agrees.
func VF_C11_Snapshot() {
	w := vfNewWorld()
	w.seedCollection(vfCol, 1)
	e := vf.U64("e")
	nw := vf.Choice("later-ops", 3)
	vf.Assume(vf.All(e < 1<<62, e >= uint64(nw)))
	p := e - uint64(nw)
	d := w.seedDatatype(vfDUID, vfKey, 1, model.TypeOfDatatype_COUNTER, e)
	subscribe(d, vfCUIDy, e, e)
	// the value at position p: either a stored snapshot (p >= 1) or the empty log
	base := int32(0)
	hasSnap := vf.Choice("has-snapshot", 2) == 1
	if hasSnap {
		vf.Assume(p >= 1)
		// produce meta+snapshot with the real code from a counter holding the value 5
		cli := orda.NewClient(orda.NewLocalClientConfig(vfCol), "seed")
		c := cli.CreateCounter(vfKey, nil)
		_, _ = c.IncreaseBy(5)
		c.(iface.Datatype).SetDUID(vfDUID)
		meta, snap, err := c.(iface.Datatype).GetMetaAndSnapshot()
		vf.Assert(err == nil, "seed snapshot")
		w.store.Snapshots = append(w.store.Snapshots, &schema.SnapshotDoc{ID: "old", CollectionNum: 1, DUID: vfDUID, Sseq: p, Meta: string(meta), Snapshot: snap})
		base = 5
	} else {
		vf.Assume(p == 0)
	}
	deltas := []string{"1", "10", "100"}
	want := base
	add := []int32{1, 10, 100}
	for i := 0; i < nw; i++ {
		sseq := p + 1 + uint64(i)
		op := vfIncOpDelta(vfCUIDy, sseq, sseq, deltas[i])
		w.store.Operations = append(w.store.Operations, schema.NewOperationDoc(op, vfDUID, sseq, 1))
		want += add[i]
	}
	m := snapshot.NewManager(context0(), w.mgr, w.datatype(vfDUID), w.collection(1))
	nsnap := len(w.store.Snapshots)
	err := m.UpdateSnapshot()
	vf.Reach("updated")
	vf.Assert(err == nil, "C11 UpdateSnapshot succeeds")
	vf.Assert(len(w.store.Snapshots) == nsnap+1, "C11 one snapshot document is stored")
	sd := w.store.Snapshots[nsnap]
	if nw > 0 || hasSnap {
		vf.Assert(sd.Sseq == e, "C11 the stored snapshot's version is the last log position it replayed")
	}
	// restoring the stored snapshot gives the replayed value
	cli2 := orda.NewClient(orda.NewLocalClientConfig(vfCol), "check")
	c2 := cli2.CreateCounter(vfKey, nil)
	vf.Assert(c2.(iface.Datatype).SetMetaAndSnapshot([]byte(sd.Meta), sd.Snapshot) == nil, "C11 the stored snapshot can be restored")
	vf.Assert(c2.Get() == want, "C11 the stored snapshot equals the replay of the log up to its version")
	// user-visible document
	real := w.store.Real[vfCol]
	vf.Assert(len(real) == 1 && real[0].ID == vfKey && real[0].Ver == sd.Sseq, "C11 the user document records the same version")
	// rebuilding from the latest snapshot plus later operations
	dt, last, gerr := m.GetLatestDatatype()
	vf.Assert(gerr == nil && dt.(orda.Counter).Get() == want, "C11 rebuilding from the latest snapshot gives the same state")
	if nw > 0 || hasSnap {
		vf.Assert(last == e, "C11 rebuild position is the end of the log")
	}
	// a later push followed by another update: the recorded version never decreases
	op := vfIncOpDelta(vfCUIDy, e+1, e+1, "1000")
	w.store.Operations = append(w.store.Operations, schema.NewOperationDoc(op, vfDUID, e+1, 1))
	w.datatype(vfDUID).Sseq.End = e + 1
	vf.Assert(m.UpdateSnapshot() == nil, "C11 second UpdateSnapshot succeeds")
	real = w.store.Real[vfCol]
	vf.Assert(len(real) == 1 && real[0].Ver == e+1 && real[0].Ver >= sd.Sseq, "C11 the recorded version never decreases")
	dt2, last2, _ := m.GetLatestDatatype()
	vf.Assert(dt2.(orda.Counter).Get() == want+1000 && last2 == e+1, "C11 snapshot + later operations equals whole-log replay")
}

// VF_C11_Race: a background snapshot update of an earlier push overlaps a later
// push and that push's own snapshot update (interleaving mode: context switches
// at every database round trip).  Whatever the schedule, the versions written
// to the user-visible document never decrease, and at quiescence the document
// is the JSON view of the log replay up to its recorded version.
func VF_C11_Race() {
	vf.Preemptions(2)
	w := vfNewWorld()
	w.seedCollection(vfCol, 1)
	e := uint64(2)
	d := w.seedDatatype(vfDUID, vfKey, 1, model.TypeOfDatatype_COUNTER, e)
	subscribe(d, vfCUIDy, e, e)
	w.store.Operations = append(w.store.Operations,
		schema.NewOperationDoc(vfIncOpDelta(vfCUIDy, 1, 1, "1"), vfDUID, 1, 1),
		schema.NewOperationDoc(vfIncOpDelta(vfCUIDy, 2, 2, "10"), vfDUID, 2, 1))
	done := make(chan int, 2)
	// the updater spawned by the push that stored operation 2
	first := *w.datatype(vfDUID)
	go func() {
		_ = snapshot.NewManager(context0(), w.mgr, &first, w.collection(1)).UpdateSnapshot()
		done <- 1
	}()
	// a later push commits operation 3 and spawns its own updater
	go func() {
		vf.Yield()
		w.store.Operations = append(w.store.Operations, schema.NewOperationDoc(vfIncOpDelta(vfCUIDy, 3, 3, "100"), vfDUID, 3, 1))
		w.datatype(vfDUID).Sseq.End = 3
		second := *w.datatype(vfDUID)
		_ = snapshot.NewManager(context0(), w.mgr, &second, w.collection(1)).UpdateSnapshot()
		done <- 2
	}()
	<-done
	<-done
	vf.Quiesce()
	vf.Reach("both-updated")
	vs := w.store.RealVersions
	for i := 1; i < len(vs); i++ {
		vf.Assert(vs[i] >= vs[i-1], "C11 the version recorded in the user document never decreases")
	}
	vf.Assert(len(vs) >= 1, "C11 at least one snapshot update completes")
	real := w.store.Real[vfCol]
	vf.Assert(len(real) == 1 && real[0].ID == vfKey, "C11 one user document under the datatype's key")
	wantAt := map[uint64]int32{2: 11, 3: 111}
	v, known := wantAt[real[0].Ver]
	vf.Assert(known, "C11 the recorded version is a position of the log")
	raw, _ := json.Marshal(real[0].Data)
	var view map[string]interface{}
	_ = json.Unmarshal(raw, &view)
	vf.Assert(view != nil && jsonEq(view["Counter"], float64(v)), "C11 the user document is the JSON view of the replay up to its recorded version")
	// every stored snapshot equals the replay up to its version
	for _, sd := range w.store.Snapshots {
		c := orda.NewClient(orda.NewLocalClientConfig(vfCol), "check").CreateCounter(vfKey, nil)
		vf.Assert(c.(iface.Datatype).SetMetaAndSnapshot([]byte(sd.Meta), sd.Snapshot) == nil, "C11 the stored snapshot can be restored")
		vf.Assert(c.Get() == wantAt[sd.Sseq], "C11 every stored snapshot equals the replay of the log up to its version")
	}
	vf.Assert(w.lockFreeName("US:1:"+vfKey), "C11 the snapshot lock is free afterwards")
}
