package service

// VF_C05_LongPull (C05, C06): a client that is far behind - more operations than
// the client library's operation buffer holds (constants.OperationBufferSize, the
// one size the code names) - pulls them in one sync while pushing operations of
// its own in the same exchange; a late subscriber pulls the whole log.  Everybody
// ends with every operation applied once; the recorded end of the log equals the
// number of stored operations.  Concrete (no symbolic input).

import (
	"github.com/orda-io/orda/client/pkg/constants"
	"github.com/orda-io/orda/client/pkg/model"
	"github.com/orda-io/orda/client/pkg/orda"
	"github.com/orda-io/orda/client/pkg/vf"
)

func VF_C05_LongPull() {
	w := vfNewWorld()
	w.seedCollection(vfCol, 1)
	a, b := w.newPeer("a", vfCUIDx), w.newPeer("b", vfCUIDy)
	a.cnt = a.cli.CreateCounter(vfKey, a.handlers())
	vf.Assert(a.cli.Sync() == nil, "creator syncs")
	vf.Quiesce()
	b.cnt = b.cli.SubscribeCounter(vfKey, b.handlers())
	vf.Assert(b.cli.Sync() == nil, "subscriber syncs")
	vf.Quiesce()
	n := constants.OperationBufferSize + 3
	total := int32(0)
	// a pushes n operations in batches of at most a third
	for i := 0; i < n; i++ {
		_, _ = a.cnt.IncreaseBy(1)
		total++
		if i%400 == 399 {
			vf.Assert(a.cli.Sync() == nil, "a pushes")
			vf.Quiesce()
		}
	}
	vf.Assert(a.cli.Sync() == nil, "a pushes")
	vf.Quiesce()
	// b, far behind, pushes two operations of its own in the sync that pulls them all
	_, _ = b.cnt.IncreaseBy(1000)
	_, _ = b.cnt.IncreaseBy(1000)
	total += 2000
	for r := 0; r < 2; r++ {
		vf.Assert(b.cli.Sync() == nil, "b syncs")
		vf.Quiesce()
		vf.Assert(a.cli.Sync() == nil, "a syncs")
		vf.Quiesce()
	}
	vf.Reach("settled")
	vf.Assert(a.cnt.Get() == total && b.cnt.Get() == total, "C05 a client that was far behind applies every operation once")
	d := w.datatype(orda.VFDUID(a.cnt))
	vf.Assert(w.logInvariant(d.DUID) && int(d.Sseq.End) == 1+n+2, "C06 the recorded end of the log equals the number of stored operations")
	c := w.newPeer("c", vfCUIDz)
	c.cnt = c.cli.SubscribeCounter(vfKey, c.handlers())
	vf.Assert(c.cli.Sync() == nil, "late subscriber syncs")
	vf.Quiesce()
	vf.Assert(orda.VFDatatypeState(c.cnt) == model.StateOfDatatype_SUBSCRIBED && c.cnt.Get() == total, "C13 a late subscriber's first state is the state of the whole log")
	sv, _, ok := w.serverValue(vfKey)
	vf.Assert(ok && sv == total, "C11 the server's rebuild of a long log agrees")
}
