package service

// VF_C07_SyncFaults (C07, C08): message faults seen through the client's own
// Sync - the real DatatypeManager / SyncManager path with its error handling
// and retries, not hand-made exchanges: a Sync whose answer is lost returns an
// error to the caller and is simply called again; a request may be delivered
// twice.  Another client pushes in between.  At the end everything is as if each
// message had been delivered once.
//
// VF_C08_Register (C08, C16): the registration of a new client (ProcessClient)
// hit by a storage fault at each of its commands: the client is told the truth -
// if it gets no error, the registration is stored and its syncs are served; if
// it gets an error, registering again succeeds.

import (
	"github.com/orda-io/orda/client/pkg/model"
	"github.com/orda-io/orda/client/pkg/orda"
	"github.com/orda-io/orda/client/pkg/vf"
)

func VF_C07_SyncFaults() {
	w := vfNewWorld()
	w.seedCollection(vfCol, 1)
	a, b := w.newPeer("a", vfCUIDx), w.newPeer("b", vfCUIDy)
	a.cnt = a.cli.CreateCounter(vfKey, a.handlers())
	vf.Assert(a.sync() == nil, "creator syncs")
	b.cnt = b.cli.SubscribeCounter(vfKey, b.handlers())
	vf.Assert(b.sync() == nil, "subscriber syncs")
	total := int32(0)
	di := 0
	steps := 4
	if vf.Tier() == 1 {
		steps = 5
	}
	trace := ""
	syncWith := func(p *vfPeer, fault int) {
		switch fault {
		case 1:
			p.tr.dropResponse = true
		case 2:
			p.tr.duplicate = true
		}
		err := p.cli.Sync()
		vf.Quiesce()
		p.checkpointMonotone()
		if fault == 1 {
			vf.Assert(err != nil, "C07 a sync whose answer is lost reports an error")
		} else {
			vf.Assert(err == nil, "C05 a sync whose answer arrives succeeds")
		}
	}
	panicked, msg := vf.Try(func() {
		for i := 0; i < steps; i++ {
			switch vf.Choice("step", 4) {
			case 0:
				_, _ = a.cnt.IncreaseBy(vfDeltas[di])
				total += vfDeltas[di]
				di++
				trace += "a+"
			case 1:
				_, _ = b.cnt.IncreaseBy(vfDeltas[di])
				total += vfDeltas[di]
				di++
				trace += "b+"
			case 2:
				f := vf.Choice("fault", 3)
				syncWith(a, f)
				trace += "A" + string(rune('0'+f))
			case 3:
				f := vf.Choice("fault", 3)
				syncWith(b, f)
				trace += "B" + string(rune('0'+f))
			}
			vf.Assert(w.logInvariant(orda.VFDUID(a.cnt)), "C06/C07 log invariant after every request")
		}
		for r := 0; r < 2; r++ {
			syncWith(a, 0)
			syncWith(b, 0)
		}
	})
	vf.Reach("quiescent")
	vf.Tag("_trace", trace)
	if panicked {
		vf.Tag("_panic", msg)
	}
	vf.Assert(!panicked, "C07 no panic under message faults")
	d := w.datatype(orda.VFDUID(a.cnt))
	vf.Assert(w.logInvariant(d.DUID) && int(d.Sseq.End) == 1+di, "C07 every issued operation is stored exactly once")
	sv, _, ok := w.serverValue(vfKey)
	vf.Assert(ok && sv == total, "C07 the server's copy equals the fault-free outcome")
	vf.Assert(a.cnt.Get() == total && b.cnt.Get() == total, "C07 both replicas equal the fault-free outcome")
	_, ac, aseq, ab := orda.VFSyncState(a.cnt)
	_, bc, bseq, bb := orda.VFSyncState(b.cnt)
	vf.Assert(ab == 0 && bb == 0 && ac == aseq && bc == bseq, "C07 nothing is left to push")
}

func VF_C08_Register() {
	w := vfNewWorld()
	w.seedCollection(vfCol, 1)
	a := w.newPeer("a", vfCUIDx)
	a.cnt = a.cli.CreateCounter(vfKey, a.handlers())
	_, _ = a.cnt.IncreaseBy(1)
	vf.Assert(a.sync() == nil, "creator syncs")
	// a second client registers while the database fails one command
	b := &vfPeer{name: "b", tr: &vfTransport{w: w}}
	b.cli = orda.VFNewClient(vfCol, "b", vfCUIDy, model.SyncType_MANUALLY, b.tr)
	k := 1 + vf.Choice("command", 4)
	w.store.FailAt = w.store.Commands + k
	w.store.FaultMode = 1 // FaultError
	err := orda.VFRegister(b.cli)
	w.store.FailAt = 0
	vf.Reach("registered")
	vf.Tag("command", w.store.Fired)
	stored := false
	for _, c := range w.store.Clients {
		if c.CUID == vfCUIDy {
			stored = true
		}
	}
	if err == nil {
		vf.Assert(stored, "C08 a registration that is acknowledged is stored")
	} else {
		vf.Assert(orda.VFRegister(b.cli) == nil, "C08 registering again after a reported failure succeeds")
	}
	b.cnt = b.cli.SubscribeCounter(vfKey, b.handlers())
	vf.Assert(b.cli.Sync() == nil, "C08/C16 the registered client's sync is served")
	vf.Quiesce()
	vf.Assert(b.cnt.Get() == 1, "C05 the client converges")
}
