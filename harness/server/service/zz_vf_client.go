package service

// Client-side halves of C13, C16 and C18 against the real service.

import (
	gocontext "context"

	"github.com/orda-io/orda/client/pkg/errors"
	"github.com/orda-io/orda/client/pkg/model"
	"github.com/orda-io/orda/client/pkg/orda"
	"github.com/orda-io/orda/client/pkg/vf"
)

type vfErrLog struct {
	codes  []errors.ErrorCode
	states []model.StateOfDatatype
	olds   []model.StateOfDatatype
	bogus  int // reported transitions whose new state is not the state the datatype is in
}

func (l *vfErrLog) handlers() *orda.Handlers {
	return orda.NewHandlers(
		func(dt orda.Datatype, old, new model.StateOfDatatype) {
			l.states = append(l.states, new)
			l.olds = append(l.olds, old)
			if old == new || orda.VFDatatypeState(dt) != new {
				l.bogus++
			}
		},
		func(dt orda.Datatype, opList []interface{}) {},
		func(dt orda.Datatype, errs ...errors.OrdaError) {
			for _, e := range errs {
				l.codes = append(l.codes, e.GetCode())
			}
		},
	)
}

func hasCode(l []errors.ErrorCode, c errors.ErrorCode) bool {
	for _, x := range l {
		if x == c {
			return true
		}
	}
	return false
}

// VF_C13_Client: the refusals of the contract reach the client's error handler
// and leave the client usable; a successful entry reports the transition to
// subscribed exactly once.
func VF_C13_Client() {
	w := vfNewWorld()
	w.seedCollection(vfCol, 1)
	a, b := w.newPeer("a", vfCUIDx), w.newPeer("b", vfCUIDy)
	a.cnt = a.cli.CreateCounter(vfKey, a.handlers())
	_, _ = a.cnt.IncreaseBy(1)
	vf.Assert(a.sync() == nil, "creator syncs")
	log := &vfErrLog{}
	nDts := len(w.store.Datatypes)
	scenario := vf.Choice("scenario", 4)
	vf.Tag("scenario", scenario)
	var dt interface{}
	switch scenario {
	case 0: // create a key that exists
		dt = b.cli.CreateCounter(vfKey, log.handlers())
	case 1: // subscribe to a key that does not exist
		dt = b.cli.SubscribeCounter("missing", log.handlers())
	case 2: // use the key with another type
		dt = b.cli.SubscribeList(vfKey, log.handlers())
	case 3: // the valid way in
		dt = b.cli.SubscribeOrCreateCounter(vfKey, log.handlers())
	}
	panicked, msg := vf.Try(func() {
		_ = b.cli.Sync()
		vf.Quiesce()
	})
	vf.Reach("synced")
	if panicked {
		vf.Tag("_panic", msg)
	}
	vf.Assert(!panicked, "C16 a client that receives an error response does not panic")
	switch scenario {
	case 0:
		vf.Assert(hasCode(log.codes, errors.DatatypeCreate), "C13 creating an existing key is reported to the error handler")
	case 1:
		vf.Assert(hasCode(log.codes, errors.DatatypeSubscribe), "C13 subscribing to a missing key is reported to the error handler")
	case 2:
		vf.Assert(len(log.codes) > 0, "C13 using a key of another type is reported to the error handler")
	case 3:
		vf.Assert(len(log.codes) == 0, "C13 a valid subscribe-or-create reports no error")
		vf.Assert(countState(log.states, model.StateOfDatatype_SUBSCRIBED) == 1, "C13 the transition to subscribed is reported exactly once")
		vf.Assert(dt.(orda.Counter).Get() == 1, "C13 the new subscriber's first state equals the datatype's state at its subscription point")
	}
	if scenario != 3 {
		vf.Assert(len(w.store.Datatypes) == nDts, "C13 a refused entry stores nothing")
		vf.Assert(countState(log.states, model.StateOfDatatype_SUBSCRIBED) == 0, "C13 a refused entry does not report a subscription")
		vf.Assert(len(log.states) == 0, "C13 a refused entry reports no state change at all")
	} else {
		vf.Assert(len(log.states) == 1 && log.olds[0] == model.StateOfDatatype_DUE_TO_SUBSCRIBE_CREATE, "C13 the one reported transition starts from the state the entry call left the datatype in")
	}
	vf.Assert(log.bogus == 0, "C13 every reported transition is one the datatype made")
	// the client remains usable: a is unaffected and a valid exchange still works
	_, _ = a.cnt.IncreaseBy(10)
	vf.Assert(a.sync() == nil && a.cnt.Get() == 11, "C16 the service and other clients remain usable after a refusal")
	c2 := b.cli.SubscribeOrCreateCounter("fresh", log.handlers())
	_, _ = c2.IncreaseBy(5)
	vf.Assert(b.cli.Sync() == nil, "C16 the refused client remains usable")
	vf.Quiesce()
	vf.Assert(orda.VFDatatypeState(c2) == model.StateOfDatatype_SUBSCRIBED, "C16 a following valid exchange succeeds")
}

// VF_C18_Client: a realtime-style client ignores notifications caused by itself
// and by unknown datatypes, and syncs exactly once for a foreign one that is ahead.
func VF_C18_Client() {
	w := vfNewWorld()
	w.seedCollection(vfCol, 1)
	a, b := w.newPeer("a", vfCUIDx), w.newPeer("b", vfCUIDy)
	a.cnt = a.cli.CreateCounter(vfKey, a.handlers())
	vf.Assert(a.sync() == nil, "creator syncs")
	b.cnt = b.cli.SubscribeCounter(vfKey, b.handlers())
	vf.Assert(b.sync() == nil, "subscriber syncs")
	_, _ = a.cnt.IncreaseBy(7)
	vf.Assert(a.sync() == nil, "a pushes")
	d := w.datatype(orda.VFDUID(a.cnt))
	end := d.Sseq.End
	calls := b.tr.calls
	topic := vfCol + "/" + vfKey
	kind := vf.Choice("notification", 5)
	vf.Tag("notification", kind)
	switch kind {
	case 0: // caused by b itself
		orda.VFNotify(b.cli, topic, model.Notification{CUID: vfCUIDy, DUID: d.DUID, Sseq: end})
		vf.Assert(b.tr.calls == calls, "C18 a client ignores notifications caused by itself")
	case 1: // foreign and ahead of b's checkpoint
		orda.VFNotify(b.cli, topic, model.Notification{CUID: vfCUIDx, DUID: d.DUID, Sseq: end})
		vf.Quiesce()
		vf.Assert(b.tr.calls == calls+1, "C18 a foreign notification ahead of the checkpoint triggers exactly one sync")
		vf.Assert(b.cnt.Get() == 7, "C18 the notified client converges without an explicit Sync call")
	case 2: // foreign but not ahead (any sseq up to the checkpoint)
		s, _, _, _ := orda.VFSyncState(b.cnt)
		n := vf.U64("sseq")
		vf.Assume(n <= s)
		orda.VFNotify(b.cli, topic, model.Notification{CUID: vfCUIDx, DUID: d.DUID, Sseq: n})
		vf.Assert(b.tr.calls == calls, "C18 a notification that is not ahead of the checkpoint triggers nothing")
	case 3: // unknown key
		orda.VFNotify(b.cli, vfCol+"/otherkey", model.Notification{CUID: vfCUIDx, DUID: d.DUID, Sseq: end})
		vf.Assert(b.tr.calls == calls, "C18 a notification for an unknown key is ignored")
	case 4: // known key, other DUID
		orda.VFNotify(b.cli, topic, model.Notification{CUID: vfCUIDx, DUID: vfDUIDu, Sseq: end})
		vf.Assert(b.tr.calls == calls, "C18 a notification for another datatype id is ignored")
	}
	vf.Reach("notified")
}

// VF_C16_OtherRPCs: the remaining RPCs answer every request with a response or an error.
func VF_C16_OtherRPCs() {
	w := vfNewWorld()
	w.seedCollection(vfCol, 1)
	w.seedDatatype(vfDUID, vfKey, 1, model.TypeOfDatatype_COUNTER, 0)
	before := w.global()
	var err error
	answered := false
	rpc := vf.Choice("rpc", 12)
	vf.Tag("rpc", rpc)
	panicked, msg := vf.Try(func() {
		switch rpc {
		case 0: // client registration in an unknown collection
			r, e := w.svc.ProcessClient(gocontext.TODO(), &model.ClientMessage{Header: model.NewMessageHeader(model.RequestType_CLIENTS), Collection: "nope", Cuid: vfCUIDx})
			err, answered = e, r != nil || e != nil
		case 1: // registration with the reserved admin id
			r, e := w.svc.ProcessClient(gocontext.TODO(), &model.ClientMessage{Header: model.NewMessageHeader(model.RequestType_CLIENTS), Collection: vfCol, Cuid: "!@#$OrdaPatchAPI"})
			err, answered = e, r != nil || e != nil
		case 2: // patch in an unknown collection
			r, e := w.svc.PatchDocument(gocontext.TODO(), &model.PatchMessage{Collection: "nope", Key: "k", Json: `{"a":1}`})
			err, answered = e, r != nil || e != nil
		case 3: // patch of a key that holds a counter
			r, e := w.svc.PatchDocument(gocontext.TODO(), &model.PatchMessage{Collection: vfCol, Key: vfKey, Json: `{"a":1}`})
			err, answered = e, r != nil || e != nil
		case 4: // patch with invalid JSON
			r, e := w.svc.PatchDocument(gocontext.TODO(), &model.PatchMessage{Collection: vfCol, Key: "doc", Json: `{"a":`})
			err, answered = e, r != nil || e != nil
		case 7: // patch whose target is valid JSON but not an object: an array
			r, e := w.svc.PatchDocument(gocontext.TODO(), &model.PatchMessage{Collection: vfCol, Key: "doc", Json: `[1,2]`})
			err, answered = e, r != nil || e != nil
		case 8: // ... a string
			r, e := w.svc.PatchDocument(gocontext.TODO(), &model.PatchMessage{Collection: vfCol, Key: "doc", Json: `"abc"`})
			err, answered = e, r != nil || e != nil
		case 9: // ... null
			r, e := w.svc.PatchDocument(gocontext.TODO(), &model.PatchMessage{Collection: vfCol, Key: "doc", Json: `null`})
			err, answered = e, r != nil || e != nil
		case 10: // patch of a document whose key is the empty string: served like any other key
			r, e := w.svc.PatchDocument(gocontext.TODO(), &model.PatchMessage{Collection: vfCol, Key: "", Json: `{"a":1}`})
			err, answered = e, r != nil || e != nil
		case 11: // ... whose key is very long
			long := ""
			for i := 0; i < 300; i++ {
				long += "0123456789"
			}
			r, e := w.svc.PatchDocument(gocontext.TODO(), &model.PatchMessage{Collection: vfCol, Key: long, Json: `{"a":1}`})
			err, answered = e, r != nil || e != nil
		case 5: // empty push-pull message of an unregistered client
			r, e := w.svc.ProcessPushPull(gocontext.TODO(), &model.PushPullMessage{Header: model.NewMessageHeader(model.RequestType_PUSHPULLS), Collection: vfCol, Cuid: vfCUIDx})
			err, answered = e, r != nil || e != nil
		case 6: // valid registration (control)
			r, e := w.svc.ProcessClient(gocontext.TODO(), &model.ClientMessage{Header: model.NewMessageHeader(model.RequestType_CLIENTS), Collection: vfCol, Cuid: vfCUIDx})
			err, answered = e, r != nil || e != nil
		}
	})
	vf.Reach("returned")
	if panicked {
		vf.Tag("_panic", msg)
	}
	vf.Assert(!panicked, "C16 no RPC crashes the server")
	vf.Assert(answered, "C16 every RPC is answered with a response or an error")
	if rpc == 10 || rpc == 11 {
		// unusual keys: answered either way; a refusal changes nothing
		if err != nil {
			vf.Assert(before == w.global(), "C16 a refused request changes nothing stored")
		}
	} else if rpc != 6 {
		vf.Assert(err != nil, "C16 an invalid request is refused with an error")
		vf.Assert(before == w.global(), "C16 a refused request changes nothing stored")
	} else {
		vf.Assert(err == nil && len(w.store.Clients) == 1, "C16 a valid registration is stored")
	}
}

// VF_C16_ClientErrors: the server refuses a's push - its record of a's
// acknowledged operations is behind (the push has a gap: missing operations),
// or storage fails while reading.  The client reports the error, keeps its
// local state and its pending operations, nothing is stored; when the cause is
// gone a plain Sync delivers the pending operations.
func VF_C16_ClientErrors() {
	w := vfNewWorld()
	w.seedCollection(vfCol, 1)
	log := &vfErrLog{}
	a, b := w.newPeer("a", vfCUIDx), w.newPeer("b", vfCUIDy)
	a.cnt = a.cli.CreateCounter(vfKey, log.handlers())
	_, _ = a.cnt.IncreaseBy(1)
	vf.Assert(a.sync() == nil, "creator syncs")
	b.cnt = b.cli.SubscribeCounter(vfKey, b.handlers())
	vf.Assert(b.sync() == nil && b.cnt.Get() == 1, "subscriber syncs")
	d := w.datatype(orda.VFDUID(a.cnt))
	saved := d.RWClients[vfCUIDx].CP.Cseq
	npend := 1 + vf.Choice("pending", 2)
	for i := 0; i < npend; i++ {
		_, _ = a.cnt.IncreaseBy(10)
	}
	want := int32(1 + 10*npend)
	cause := vf.Choice("cause", 2)
	vf.Tag("cause", cause)
	switch cause {
	case 0: // the server's record of a is behind: the push has a gap
		d.RWClients[vfCUIDx].CP.Cseq = saved - 1
	case 1: // storage fails on the first read of the request
		w.store.FailAt = w.store.Commands + 1 + vf.Choice("command", 4)
		w.store.FaultMode = 1
	}
	before := w.global()
	nerr := len(log.codes)
	var serr error
	panicked, msg := vf.Try(func() {
		serr = toError(a.cli.Sync())
		vf.Quiesce()
	})
	vf.Reach("refused")
	if panicked {
		vf.Tag("_panic", msg)
	}
	vf.Assert(!panicked, "C16 a client that receives an error response does not panic")
	vf.Assert(len(log.codes) > nerr || serr != nil, "C16 the refusal is reported through the client's error handler or the Sync result")
	vf.Assert(before == w.global(), "C16 a refused request leaves stored data unchanged")
	_, _, _, buffered := orda.VFSyncState(a.cnt)
	vf.Assert(buffered == npend && a.cnt.Get() == want, "C16 a refused push leaves the client's state and pending operations as they were")
	// the cause disappears; the client is still usable and nothing was lost
	d.RWClients[vfCUIDx].CP.Cseq = saved
	w.store.FailAt, w.store.FaultMode = 0, 0
	vf.Assert(a.sync() == nil, "C16 the client remains usable: the next sync succeeds")
	_, _, _, buffered = orda.VFSyncState(a.cnt)
	vf.Assert(buffered == 0, "C16 the pending operations are delivered by the next sync")
	vf.Assert(b.sync() == nil && b.cnt.Get() == want, "C16 the other replica receives the operations of the once-refused push")
	sv, _, ok := w.serverValue(vfKey)
	vf.Assert(ok && sv == want, "C16 the server's copy holds the operations of the once-refused push")
}

func toError(e interface{ Error() string }) error {
	if e == nil {
		return nil
	}
	return e
}

// VF_C09_AfterSubscribe: a client that entered by Subscribe or SubscribeOrCreate
// runs a transaction whose body fails: identity (DUID), value and operation
// identifiers are as before, and the client keeps syncing with the server.
func VF_C09_AfterSubscribe() {
	w := vfNewWorld()
	w.seedCollection(vfCol, 1)
	a, b := w.newPeer("a", vfCUIDx), w.newPeer("b", vfCUIDy)
	a.cnt = a.cli.CreateCounter(vfKey, a.handlers())
	_, _ = a.cnt.IncreaseBy(1)
	vf.Assert(a.sync() == nil, "creator syncs")
	mode := vf.Choice("entry", 2)
	vf.Tag("entry", mode)
	if mode == 0 {
		b.cnt = b.cli.SubscribeCounter(vfKey, b.handlers())
	} else {
		b.cnt = b.cli.SubscribeOrCreateCounter(vfKey, b.handlers())
	}
	vf.Assert(b.sync() == nil && b.cnt.Get() == 1, "subscriber syncs")
	if vf.Choice("op-before", 2) == 1 {
		_, _ = b.cnt.IncreaseBy(100)
		vf.Assert(b.sync() == nil, "subscriber pushes")
	}
	duid0 := orda.VFDUID(b.cnt)
	val0 := b.cnt.Get()
	_, _, seq0, _ := orda.VFSyncState(b.cnt)
	vf.Assert(duid0 == orda.VFDUID(a.cnt), "C13 the subscriber adopted the datatype's id")
	terr := b.cnt.Transaction("fails", func(tx orda.CounterInTx) error {
		_, _ = tx.IncreaseBy(5)
		return errors.ClientSync.New(nil, "body failed")
	})
	vf.Reach("rolled-back")
	vf.Assert(terr != nil, "C09 the failing transaction reports the error")
	_, _, seq1, pend := orda.VFSyncState(b.cnt)
	vf.Assert(b.cnt.Get() == val0 && pend == 0, "C09 a failed transaction leaves value and pending operations as they were")
	vf.Assert(seq1 == seq0, "C09/C15 a failed transaction leaves the next operation identifier as it was")
	vf.Assert(orda.VFDUID(b.cnt) == duid0, "C09 a failed transaction leaves the datatype's identity as it was")
	// and the client goes on working with the server
	_, _ = b.cnt.IncreaseBy(10)
	errs0 := b.errs
	vf.Assert(b.sync() == nil && b.errs == errs0, "C09 the client still syncs after the failed transaction")
	_, _, _, pend = orda.VFSyncState(b.cnt)
	vf.Assert(pend == 0, "C09 the operation issued after the failed transaction is accepted by the server")
	vf.Assert(a.sync() == nil && a.cnt.Get() == val0+10 && b.cnt.Get() == val0+10, "C05 replicas converge afterwards")
	sv, _, ok := w.serverValue(vfKey)
	vf.Assert(ok && sv == val0+10, "C05 the server's copy agrees")
}
