package service

// VF_C05_Multi: three real clients, two datatypes per client in one message
// (a List and a Counter), a late third subscriber, transactions travelling as
// units, positions / deltas chosen by the solver, both orders of the client
// ids.  The List makes the *order* and the *exactly-once* application of
// foreign operations observable (a Counter only shows the multiset).  C05,
// C01/C04 through the whole system, C09 (units over the wire), C13.

import (
	"github.com/orda-io/orda/client/pkg/errors"
	"github.com/orda-io/orda/client/pkg/model"
	"github.com/orda-io/orda/client/pkg/orda"
	"github.com/orda-io/orda/client/pkg/vf"
	"github.com/orda-io/orda/server/snapshot"
)

const (
	vfKeyL  = "list1"
	vfCUIDz = "ZZZZZZZZZZZZZZZZ"
)

type mPeer struct {
	*vfPeer
	lst        orda.List
	remoteOps  int // operations of others applied to the list, as reported to the handler
	lstStates  []model.StateOfDatatype
	lstErrs    int
	lstErrText string
	lastLS     uint64
	lastLC     uint64
	id         string
}

func (p *mPeer) listHandlers() *orda.Handlers {
	return orda.NewHandlers(
		func(dt orda.Datatype, old, new model.StateOfDatatype) { p.lstStates = append(p.lstStates, new) },
		func(dt orda.Datatype, opList []interface{}) {
			for _, o := range opList {
				if l, ok := o.([]interface{}); ok {
					p.remoteOps += len(l)
				} else {
					p.remoteOps++ // the header of a transaction unit
				}
			}
		},
		func(dt orda.Datatype, errs ...errors.OrdaError) {
			p.lstErrs += len(errs)
			for _, e := range errs {
				p.lstErrText += e.Error() + ";"
			}
		},
	)
}

func (p *mPeer) msync() error {
	err := p.cli.Sync()
	vf.Quiesce()
	if p.cnt != nil {
		p.checkpointMonotone()
	}
	if p.lst != nil {
		s, c, _, _ := orda.VFSyncState(p.lst)
		vf.Assert(s >= p.lastLS && c >= p.lastLC, "C05 client checkpoint never moves backwards")
		p.lastLS, p.lastLC = s, c
	}
	return err
}

func listView(l orda.List) []interface{} {
	v, _ := l.GetMany(0, l.Size())
	return v
}

func sameView(a, b []interface{}) bool {
	if len(a) != len(b) {
		return false
	}
	for i := range a {
		if a[i] != b[i] {
			return false
		}
	}
	return true
}

func countTag(v []interface{}, tag string) int {
	n := 0
	for _, x := range v {
		if x == tag {
			n++
		}
	}
	return n
}

// serverList rebuilds the list from the stored log (and latest snapshot).
func (w *vfWorld) serverList(key string) ([]interface{}, uint64, bool) {
	d, _ := w.store.GetDatatypeByKey(context0(), 1, key)
	if d == nil {
		return nil, 0, false
	}
	m := snapshot.NewManager(context0(), w.mgr, d, w.collection(1))
	dt, last, err := m.GetLatestDatatype()
	if err != nil {
		return nil, 0, false
	}
	return listView(dt.(orda.List)), last, true
}

func (w *vfWorld) foreignOps(duid, cuid string) int {
	n := 0
	for _, o := range w.store.Operations {
		if o.DUID == duid && o.OpID.CUID != cuid {
			n++
		}
	}
	return n
}

func VF_C05_Multi() {
	w := vfNewWorld()
	w.seedCollection(vfCol, 1)
	idA, idB := vfCUIDx, vfCUIDy
	if vf.Choice("id-order", 2) == 1 {
		idA, idB = vfCUIDy, vfCUIDx // which of two concurrent writers has the greater client id
	}
	a := &mPeer{vfPeer: w.newPeer("a", idA), id: idA}
	b := &mPeer{vfPeer: w.newPeer("b", idB), id: idB}
	c := &mPeer{vfPeer: w.newPeer("c", vfCUIDz), id: vfCUIDz}
	// a creates both datatypes; its first message carries two packs
	a.lst = a.cli.CreateList(vfKeyL, a.listHandlers())
	a.cnt = a.cli.CreateCounter(vfKey, a.handlers())
	_, _ = a.lst.Insert(0, "base")
	// reference written from the statement: every element occupies a slot; an update puts a
	// new value into the slot of the old one; a delete kills the slot (delete dominates)
	tags := []string{"base"}
	slotOf := map[string]int{"base": 0}
	slotDead := map[int]bool{}
	superseded := map[string]bool{}
	total := int32(0)
	vf.Assert(a.msync() == nil, "C05 first sync of the creator succeeds")
	// b joins both, by either entry mode
	if vf.Choice("b-mode", 2) == 0 {
		b.lst = b.cli.SubscribeList(vfKeyL, b.listHandlers())
		b.cnt = b.cli.SubscribeCounter(vfKey, b.handlers())
	} else {
		b.lst = b.cli.SubscribeOrCreateList(vfKeyL, b.listHandlers())
		b.cnt = b.cli.SubscribeOrCreateCounter(vfKey, b.handlers())
	}
	vf.Assert(b.msync() == nil, "C05 first sync of the subscriber succeeds")
	vf.Assert(sameView(listView(a.lst), listView(b.lst)), "C13 a new subscriber's first state equals the datatype's state")

	steps := 3
	if vf.Tier() == 1 {
		steps = 4
	}
	tagN := 0
	newTag := func() string {
		tagN++
		t := "t" + string(rune('0'+tagN))
		tags = append(tags, t)
		slotOf[t] = tagN
		return t
	}
	trace := ""
	for i := 0; i < steps; i++ {
		st := vf.Choice("step", 9)
		trace += string(rune('0' + st))
		switch st {
		case 0: // a inserts at a position chosen by the solver
			pos := vf.Int("pos", 0, a.lst.Size())
			_, err := a.lst.Insert(pos, newTag())
			vf.Assert(err == nil, "C03 valid insert succeeds")
		case 1: // b inserts at a position chosen by the solver
			pos := vf.Int("pos", 0, b.lst.Size())
			_, err := b.lst.Insert(pos, newTag())
			vf.Assert(err == nil, "C03 valid insert succeeds")
		case 2: // b deletes
			if b.lst.Size() == 0 {
				vf.Assume(false)
			}
			pos := vf.Int("pos", 0, b.lst.Size()-1)
			v, err := b.lst.Delete(pos)
			vf.Assert(err == nil, "C03 valid delete succeeds")
			slotDead[slotOf[v.(string)]] = true
		case 3: // a updates
			if a.lst.Size() == 0 {
				vf.Assume(false)
			}
			pos := vf.Int("pos", 0, a.lst.Size()-1)
			nt := newTag()
			old, err := a.lst.Update(pos, nt)
			vf.Assert(err == nil && len(old) == 1, "C03 valid update succeeds")
			superseded[old[0].(string)] = true
			slotOf[nt] = slotOf[old[0].(string)]
		case 4: // a transaction of two inserts travels as one unit
			t1, t2 := newTag(), newTag()
			err := a.lst.Transaction("tx", func(l orda.ListInTx) error {
				if _, e := l.Insert(0, t1); e != nil {
					return e
				}
				_, e := l.Insert(l.Size(), t2)
				return e
			})
			vf.Assert(err == nil, "C09 valid transaction succeeds")
		case 5: // counters: deltas chosen by the solver
			da, db := vf.I32("da"), vf.I32("db")
			_, _ = a.cnt.IncreaseBy(da)
			_, _ = b.cnt.IncreaseBy(db)
			total += da + db
		case 6:
			vf.Assert(a.msync() == nil, "C05 sync succeeds")
		case 7:
			vf.Assert(b.msync() == nil, "C05 sync succeeds")
		case 8: // c joins late (once), or syncs
			if c.lst == nil {
				c.lst = c.cli.SubscribeList(vfKeyL, c.listHandlers())
			}
			vf.Assert(c.msync() == nil, "C05 sync succeeds")
		}
		vf.Assert(w.logInvariant(orda.VFDUID(a.lst)) && w.logInvariant(orda.VFDUID(a.cnt)), "C06 log invariant after every request")
	}
	if c.lst == nil {
		c.lst = c.cli.SubscribeList(vfKeyL, c.listHandlers())
	}
	for r := 0; r < 2; r++ {
		vf.Assert(a.msync() == nil && b.msync() == nil && c.msync() == nil, "C05 sync succeeds")
	}
	vf.Reach("quiescent")
	vf.Tag("_trace", trace)
	va, vb, vc := listView(a.lst), listView(b.lst), listView(c.lst)
	vf.Assert(sameView(va, vb) && sameView(va, vc), "C05 all clients hold the same list")
	sv, last, ok := w.serverList(vfKeyL)
	dl := w.datatype(orda.VFDUID(a.lst))
	vf.Assert(ok && sameView(sv, va) && last == dl.Sseq.End, "C05/C11 the list the server rebuilds from its log is the same")
	for _, t := range tags {
		want := 1
		if superseded[t] || slotDead[slotOf[t]] {
			want = 0
		}
		vf.Assert(countTag(va, t) == want, "C04 every inserted element is present exactly once unless deleted, and then never")
	}
	vf.Assert(a.cnt.Get() == total && b.cnt.Get() == total, "C05 all clients hold the same counter with every operation applied exactly once")
	cv, _, cok := w.serverValue(vfKey)
	vf.Assert(cok && cv == total, "C05/C11 the counter the server rebuilds from its log is the same")
	vf.Assert(orda.VFDUID(a.lst) == orda.VFDUID(b.lst) && orda.VFDUID(a.lst) == orda.VFDUID(c.lst) && orda.VFDUID(a.cnt) == orda.VFDUID(b.cnt),
		"C13 exactly one datatype per key")
	vf.Assert(orda.VFDUID(a.lst) != orda.VFDUID(a.cnt), "C17 two keys name two datatypes")
	for _, p := range []*mPeer{a, b, c} {
		s, cc, seq, buf := orda.VFSyncState(p.lst)
		vf.Assert(buf == 0 && cc == seq, "C05 nothing left to push")
		vf.Assert(s == dl.Sseq.End, "C05 nothing left to pull")
		vf.Assert(p.remoteOps == w.foreignOps(dl.DUID, p.id), "C05 each client applies each other client's operation exactly once")
		vf.Assert(p.lstErrs == 0 && p.errs == 0, "C13 no error handler call in a fault-free history")
		vf.Assert(countState(p.lstStates, model.StateOfDatatype_SUBSCRIBED) == 1, "C13 the transition to subscribed is reported exactly once")
	}
}
