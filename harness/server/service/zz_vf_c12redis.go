package service

// VF_C12_RedisLock (C12): the lock the server uses when redis is configured -
// the real utils.RedisLock around the real redsync mutex (executed as code), over
// a one-node fake redis held by the harness (SETNX with expiry, GET, and the two
// scripts redsync evaluates: delete-if-mine, extend-if-mine).  Requests of one
// server process for the same lock name, as the handlers use the lock (get the
// named lock, TryLock, critical section, Unlock), plus one request for another
// name.  Never two inside one name's critical section; a different name is not
// blocked; afterwards nothing is left locked.  Interleaving: every redis round
// trip is a scheduling point.

import (
	gocontext "context"
	"strings"
	"time"

	"github.com/go-redsync/redsync/v4"
	rsredis "github.com/go-redsync/redsync/v4/redis"
	"github.com/orda-io/orda/client/pkg/context"
	"github.com/orda-io/orda/client/pkg/vf"
	"github.com/orda-io/orda/server/utils"
)

type vfRedis struct{ kv map[string]string }

type vfRedisConn struct{ r *vfRedis }

func (r *vfRedis) Get(ctx gocontext.Context) (rsredis.Conn, error) { return &vfRedisConn{r: r}, nil }

func (c *vfRedisConn) Get(name string) (string, error) {
	vf.Yield()
	return c.r.kv[name], nil
}
func (c *vfRedisConn) Set(name string, value string) (bool, error) {
	vf.Yield()
	c.r.kv[name] = value
	return true, nil
}
func (c *vfRedisConn) SetNX(name string, value string, expiry time.Duration) (bool, error) {
	vf.Yield()
	if _, held := c.r.kv[name]; held {
		return false, nil
	}
	c.r.kv[name] = value
	return true, nil
}
func (c *vfRedisConn) Eval(script *rsredis.Script, keysAndArgs ...interface{}) (interface{}, error) {
	vf.Yield()
	key, _ := keysAndArgs[0].(string)
	val, _ := keysAndArgs[1].(string)
	if c.r.kv[key] != val {
		return int64(0), nil
	}
	if strings.Contains(script.Src, `"DEL"`) {
		delete(c.r.kv, key)
	}
	return int64(1), nil
}
func (c *vfRedisConn) PTTL(name string) (time.Duration, error) { return time.Second, nil }
func (c *vfRedisConn) Close() error                             { return nil }

func VF_C12_RedisLock() {
	vf.Preemptions(2)
	fake := &vfRedis{kv: map[string]string{}}
	rs := redsync.New(fake)
	n := 2 + vf.Tier()
	inside, maxInside, entered, otherInside := 0, 0, 0, 0
	done := make(chan int, n+1)
	for i := 0; i < n; i++ {
		go func() {
			rctx, cancel := vf.WithCancel(gocontext.Background())
			l := utils.GetRedisLock(context.NewOrdaContext(rctx, "vf"), "PP:1:"+vfKey, rs)
			if l.TryLock() {
				inside++
				entered++
				if inside > maxInside {
					maxInside = inside
				}
				vf.Busy() // the critical section takes longer than a retry delay
				inside--
				l.Unlock()
			}
			cancel()
			done <- 1
		}()
	}
	go func() {
		l := utils.GetRedisLock(context0(), "PP:1:other", rs)
		if l.TryLock() {
			otherInside++
			vf.Yield()
			l.Unlock()
		}
		done <- 1
	}()
	for i := 0; i < n+1; i++ {
		<-done
	}
	vf.Reach("all-returned")
	vf.Assert(maxInside <= 1, "C12 two requests are never inside the critical section of one key at the same moment")
	vf.Assert(entered >= 1, "C12 at least one request gets the lock")
	vf.Assert(otherInside == 1, "C12 a request for a different key is not blocked")
	vf.Assert(len(fake.kv) == 0, "C12 nothing stays locked afterwards")
}
