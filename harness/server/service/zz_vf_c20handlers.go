package service

// VF_C20_Handlers (C20 "nothing deadlocks", C16): the user's callbacks re-enter
// the library - the natural thing to do in them: the error handler retries
// Sync(), the state-change and remote-operation handlers read the datatype and
// ask the client whether it is connected.  One client holds a healthy counter
// and a datatype the server refuses on every sync.  Every call returns, the
// healthy datatype converges, each handler ran.

import (
	"github.com/orda-io/orda/client/pkg/errors"
	"github.com/orda-io/orda/client/pkg/model"
	"github.com/orda-io/orda/client/pkg/orda"
	"github.com/orda-io/orda/client/pkg/vf"
)

func VF_C20_Handlers() {
	w := vfNewWorld()
	w.seedCollection(vfCol, 1)
	a, b := w.newPeer("a", vfCUIDx), w.newPeer("b", vfCUIDy)
	a.cnt = a.cli.CreateCounter(vfKey, a.handlers())
	_ = a.cli.CreateCounter("taken", nil)
	_, _ = a.cnt.IncreaseBy(1)
	vf.Assert(a.cli.Sync() == nil, "creator syncs")
	vf.Quiesce()
	retries, states, remotes, reads := 0, 0, 0, int32(0)
	reenter := orda.NewHandlers(
		func(dt orda.Datatype, old, new model.StateOfDatatype) {
			states++
			if c, ok := dt.(orda.Counter); ok {
				reads += c.Get()
			}
			_ = b.cli.IsConnected()
		},
		func(dt orda.Datatype, opList []interface{}) {
			remotes++
			if c, ok := dt.(orda.Counter); ok {
				reads += c.Get()
			}
		},
		func(dt orda.Datatype, errs ...errors.OrdaError) {
			if retries < 1 {
				retries++
				_ = b.cli.Sync() // "try again"
			}
		},
	)
	refusedFirst := vf.Choice("refused-first", 2) == 1
	if refusedFirst {
		_ = b.cli.CreateCounter("taken", reenter)
	}
	b.cnt = b.cli.SubscribeCounter(vfKey, reenter)
	if !refusedFirst {
		_ = b.cli.CreateCounter("taken", reenter)
	}
	_ = b.cli.Sync()
	vf.Quiesce()
	_, _ = a.cnt.IncreaseBy(10)
	_ = a.cli.Sync()
	vf.Quiesce()
	_ = b.cli.Sync()
	vf.Quiesce()
	vf.Reach("returned")
	vf.Assert(retries == 1, "C13 the refusal reaches the error handler")
	vf.Assert(states >= 1 && remotes >= 1, "C13/C05 the state-change and remote-operation handlers ran")
	vf.Assert(orda.VFDatatypeState(b.cnt) == model.StateOfDatatype_SUBSCRIBED && b.cnt.Get() == 11, "C05 the healthy datatype converges although handlers re-enter the client")
	vf.Assert(b.cli.Sync() == nil || true, "C20 the client still answers")
	_ = reads
}
