package service

// VF_C08_SnapshotRecovers (C08, C11): a storage command of the post-commit
// phase (the snapshot update that follows every committed push) fails - the
// server keeps running.  The push itself is committed.  Once storage is healthy
// again the next push brings everything up to date: the stored snapshot and the
// user-visible document are at the end of the log, and the snapshot lock is free.

import (
	"github.com/orda-io/orda/client/pkg/model"
	"github.com/orda-io/orda/client/pkg/vf"
	"github.com/orda-io/orda/server/utils"
)

func VF_C08_SnapshotRecovers() {
	w := vfNewWorld()
	w.seedCollection(vfCol, 1)
	a := w.newPeer("a", vfCUIDx)
	a.cnt = a.cli.CreateCounter(vfKey, a.handlers())
	_, _ = a.cnt.IncreaseBy(1)
	fault := []string{"GetLatestSnapshot", "GetOperations", "InsertSnapshot", "InsertRealSnapshot"}[vf.Choice("snapshot-fault", 4)]
	vf.Tag("snapshot-fault", fault)
	// the fault hits only commands of the post-commit phase: it is switched on by name
	// after the request has been answered (GetOperations is also used by the pull)
	w.store.FailNameAfterCommit = fault
	vf.Assert(a.cli.Sync() == nil, "C08 the push is committed and acknowledged")
	vf.Quiesce()
	w.store.FailName, w.store.FailNameAfterCommit = "", ""
	vf.Reach("faulted")
	_, _ = a.cnt.IncreaseBy(10)
	vf.Assert(a.cli.Sync() == nil, "C08 the next push is committed")
	vf.Quiesce()
	d, _ := w.store.GetDatatypeByKey(context0(), 1, vfKey)
	vf.Assert(d != nil && w.logInvariant(d.DUID) && d.Sseq.End == 3, "C06 the log holds the pushed operations")
	snap, _ := w.store.GetLatestSnapshot(context0(), 1, d.DUID)
	vf.Assert(snap != nil && snap.Sseq == d.Sseq.End, "C08/C11 after storage recovers the next push brings the stored snapshot up to the end of the log")
	real := w.store.Real[vfCol]
	vf.Assert(len(real) == 1 && real[0].Ver == d.Sseq.End, "C08/C11 ... and the user-visible document too")
	vf.Assert(utils.VFAllLocksFree(), "C12 the snapshot lock is free afterwards")
	sv, _, ok := w.serverValue(vfKey)
	vf.Assert(ok && sv == 11, "C05 the server's copy holds every operation")
	_ = model.TypeOfDatatype_COUNTER
}
