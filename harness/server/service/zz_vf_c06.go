package service

// C06 / C16 / C18: one push-pull request against an arbitrary stored state
// satisfying the server part of the protocol invariant (A.4).

import (
	"github.com/orda-io/orda/client/pkg/model"
	"github.com/orda-io/orda/client/pkg/vf"
)

type vfLogState struct {
	e, sx, cx uint64
	w         int      // materialised tail of the log: sseq e-w+1 .. e
	owners    []string // owner of each tail entry
	seqs      []uint64 // Seq of each tail entry
}

// vfSeedLog builds: collection, client x (and y), datatype with end-of-log e,
// x subscribed with checkpoint (sx, cx), and the last w log entries.
func vfSeedLog(w *vfWorld, maxTail int) *vfLogState {
	st := &vfLogState{e: vf.U64("e"), sx: vf.U64("sx"), cx: vf.U64("cx")}
	st.w = vf.Choice("tail", maxTail+1)
	vf.Assume(vf.All(st.e < 1<<62, st.sx <= st.e, st.cx <= st.e, st.e >= uint64(st.w)))
	w.seedCollection(vfCol, 1)
	w.seedClient(vfCUIDx, 1, model.ClientType_PERSISTENT)
	w.seedClient(vfCUIDy, 1, model.ClientType_PERSISTENT)
	d := w.seedDatatype(vfDUID, vfKey, 1, model.TypeOfDatatype_COUNTER, st.e)
	subscribe(d, vfCUIDx, st.sx, st.cx)
	subscribe(d, vfCUIDy, st.e, 0)
	// tail entries; x's entries carry the last Seq values up to cx
	kx := 0
	for i := 0; i < st.w; i++ {
		if vf.Choice("owner", 2) == 0 {
			st.owners = append(st.owners, vfCUIDx)
			kx++
		} else {
			st.owners = append(st.owners, vfCUIDy)
		}
	}
	vf.Assume(st.cx >= uint64(kx))
	seen := 0
	for i := 0; i < st.w; i++ {
		sseq := st.e - uint64(st.w) + 1 + uint64(i)
		var seq uint64
		if st.owners[i] == vfCUIDx {
			seen++
			seq = st.cx - uint64(kx) + uint64(seen)
		} else {
			seq = sseq // y's numbering is irrelevant here
		}
		st.seqs = append(st.seqs, seq)
		w.seedOp(vfDUID, 1, sseq, st.owners[i], seq)
	}
	return st
}

func c06Bounds() (tail, batch int) {
	if vf.Tier() == 1 {
		return 3, 3
	}
	return 2, 2
}

// VF_C06_Push: the stored log stays a gapless exactly-once order and the
// recorded checkpoint is exact, for any pushed batch (duplicates, gaps,
// re-pushes, reordered sequence numbers) and any request checkpoint.
func VF_C06_Push() {
	w := vfNewWorld()
	T, B := c06Bounds()
	st := vfSeedLog(w, T)
	rs, rc := vf.U64("req.sseq"), vf.U64("req.cseq")
	// the pull must stay inside the materialised tail
	vf.Assume(vf.All(rs <= st.e, rs >= st.e-uint64(st.w)))
	n := vf.Choice("nops", B+1)
	var ops []*model.Operation
	var seqs []uint64
	for i := 0; i < n; i++ {
		s := vf.U64("op.seq")
		seqs = append(seqs, s)
		ops = append(ops, vfIncOp(vfCUIDx, s, st.e+1))
	}
	ppp := &model.PushPullPack{Key: vfKey, DUID: vfDUID, Option: uint32(model.PushPullBitNormal), Type: model.TypeOfDatatype_COUNTER,
		CheckPoint: &model.CheckPoint{Sseq: rs, Cseq: rc}, Operations: ops}
	before := w.digest(vfDUID, vfCUIDx)

	// reference: which operations are accepted
	cur := st.cx
	acc := 0
	gap := false
	var accSeq []uint64
	for i := 0; i < n && !gap; i++ {
		if seqs[i] == cur+1 {
			cur++
			acc++
			accSeq = append(accSeq, seqs[i])
		} else if seqs[i] > cur {
			gap = true
		}
	}
	vf.Tag("gap", gap)

	res, err := w.pushPull(vfCol, vfCUIDx, ppp)
	vf.Reach("answered")
	vf.Assert(err == nil && res != nil, "C16 request is answered with a pack")
	opt := model.PushPullPackOption(res.Option)
	after := w.digest(vfDUID, vfCUIDx)
	if gap {
		vf.Reach("gap")
		vf.Assert(opt.HasErrorBit(), "C06 a gap in the pushed sequence is refused")
		vf.Assert(sameDigest(before, after), "C06/C16 refused request changes nothing stored")
		return
	}
	vf.Reach("accepted")
	vf.Assert(!opt.HasErrorBit(), "C06 a consistent push is accepted")
	vf.Assert(after.nOps == before.nOps+acc, "C06 exactly the accepted operations are stored")
	vf.Assert(after.end == st.e+uint64(acc), "C06 recorded end of log = e + accepted")
	vf.Assert(vf.All(after.cpS == st.e+uint64(acc), after.cpC == st.cx+uint64(acc)), "C06 recorded checkpoint = (end of log, number of own stored operations)")
	vf.Assert(vf.All(res.CheckPoint.Sseq == after.cpS, res.CheckPoint.Cseq == after.cpC), "C06 response checkpoint equals the recorded one")
	// the new documents: sseq e+1.., ids duid:sseq, Seq cx+1.. in order
	for i := 0; i < acc; i++ {
		od := w.store.Operations[before.nOps+i]
		vf.Assert(vf.All(uint64(od.Sseq) == st.e+uint64(i)+1, od.OpID.Seq == st.cx+uint64(i)+1, od.OpID.Seq == accSeq[i], od.DUID == vfDUID, od.CollectionNum == 1),
			"C06 accepted operations get consecutive server sequence numbers in issue order")
	}
	// no sseq stored twice
	for i := 0; i < len(w.store.Operations); i++ {
		for j := 0; j < i; j++ {
			vf.Assert(uint64(w.store.Operations[i].Sseq) != uint64(w.store.Operations[j].Sseq), "C06 no server sequence number is stored twice")
		}
	}
	// pulled operations: the stored entries after the request checkpoint, in log order
	want := 0
	for i := 0; i < st.w; i++ {
		sseq := st.e - uint64(st.w) + 1 + uint64(i)
		if sseq > rs {
			vf.Assert(want < len(res.Operations), "C05/C06 every entry after the request checkpoint is pulled")
			p := res.Operations[want]
			vf.Assert(vf.All(p.ID.CUID == st.owners[i], p.ID.Seq == st.seqs[i]), "C05/C06 pulled operations come in log order")
			want++
		}
	}
	vf.Assert(len(res.Operations) == want, "C05/C06 nothing else is pulled")
}
