package utils

// VFHeldLocks (verification overlay, add-only): the names of the locks of the
// local lock registry that cannot be taken right now, i.e. that some request
// still holds.  Lets the harnesses check "nothing stays locked" without
// building lock names themselves.
func VFHeldLocks() []string {
	var held []string
	localLockMap.Range(func(k, v interface{}) bool {
		if m, ok := v.(interface {
			TryLock() bool
			Unlock()
		}); ok {
			if m.TryLock() {
				m.Unlock()
			} else {
				held = append(held, k.(string))
			}
		}
		return true
	})
	return held
}

// VFAllLocksFree: no lock of the registry is held.
func VFAllLocksFree() bool { return len(VFHeldLocks()) == 0 }
