// Package mongodb (verification overlay): an in-memory stand-in for the real
// server/mongodb package with the same exported API.  It is injected by overlay
// for the service-level checks of /verif; the real files of this directory are
// blanked.  Each method mirrors what the real method does against MongoDB under
// the driver's documented contract (stated next to each method).  Every
// repository call is a numbered command so that a fault plan can make the k-th
// command fail (error returned, no effect) or be the last one before the
// server dies (effect applied, then the handler is aborted).
package mongodb

import (
	"fmt"

	"github.com/orda-io/orda/client/pkg/errors"
	"github.com/orda-io/orda/client/pkg/iface"
	"github.com/orda-io/orda/client/pkg/model"
	"github.com/orda-io/orda/client/pkg/vf"
	"github.com/orda-io/orda/server/constants"
	"github.com/orda-io/orda/server/schema"
)

// Config mirrors the real configuration type (only its shape is used).
type Config struct {
	Host     string `json:"MongoHost"`
	OrdaDB   string `json:"OrdaDB"`
	User     string `json:"User"`
	Password string `json:"Password"`
	CertFile string `json:"CertFile"`
	Options  string `json:"Options"`
}

const Ver = "_orda_ver_"

// ServerDied is panicked by the fault plan in "die after this command" mode.
type ServerDied struct{ Command int }

const (
	FaultNone  = 0
	FaultError = 1 // the command returns an error and has no effect
	FaultDie   = 2 // the command takes effect, then the server process dies
)

type RealDoc struct {
	ID   string
	Data interface{}
	Ver  uint64
}

type MongoCollections struct {
	Clients      []*schema.ClientDoc
	Counter      int32 // value of the collection-number counter document; 0 = absent
	Snapshots    []*schema.SnapshotDoc
	Datatypes    []*schema.DatatypeDoc
	Operations   []*schema.OperationDoc
	Collections  []*schema.CollectionDoc
	Real         map[string][]*RealDoc // user collections: name -> documents
	RealVersions []uint64              // observation: versions written to user documents, in order

	Commands  int    // number of repository commands issued so far
	FailAt    int    // 1-based index of the command the fault hits (0 = never)
	FaultMode int    // FaultError / FaultDie
	SlowAt    int    // native demonstrations only: this command takes 6 s
	Dead      bool   // the server process is gone: nothing it still attempts reaches the database
	Fired     string // name of the command the fault hit
	FailName  string // fail every command of this name (faults in the post-commit phase, which has its own commands)
	// FailNameAfterCommit becomes FailName once the next UpdateDatatype (the second write of a commit) has taken effect
	FailNameAfterCommit string
	Trace               []string
}

type RepositoryMongo struct {
	*MongoCollections
}

// NewInMemory creates an empty store.
func NewInMemory() *RepositoryMongo {
	return &RepositoryMongo{MongoCollections: &MongoCollections{Real: map[string][]*RealDoc{}}}
}

// New keeps the signature of the real constructor.
func New(ctx iface.OrdaContext, conf *Config) (*RepositoryMongo, errors.OrdaError) {
	return NewInMemory(), nil
}

// begin numbers a command and applies the fault plan: it returns an error when
// the command must fail, and a function to call after the command's effect.
func (its *MongoCollections) begin(ctx iface.OrdaContext, name string) (errors.OrdaError, func()) {
	vf.Yield() // a database round trip is a scheduling point
	its.Commands++
	n := its.Commands
	if n == its.SlowAt {
		vf.Slow()
	}
	its.Trace = append(its.Trace, name)
	if its.Dead {
		return errors.ServerDBQuery.New(ctx.L(), "server process is gone"), func() {}
	}
	if its.FailName != "" && name == its.FailName {
		its.Fired = name
		return errors.ServerDBQuery.New(ctx.L(), "injected failure of "+name), func() {}
	}
	if n == its.FailAt && its.FaultMode == FaultError {
		its.Fired = name
		return errors.ServerDBQuery.New(ctx.L(), "injected failure of "+name), func() {}
	}
	return nil, func() {
		if name == "UpdateDatatype" && its.FailNameAfterCommit != "" {
			its.FailName, its.FailNameAfterCommit = its.FailNameAfterCommit, ""
		}
		if n == its.FailAt && its.FaultMode == FaultDie {
			// crash-stop: this command took effect, nothing after it does
			its.Fired = name
			its.Dead = true
		}
	}
}

// ---------------------------------------------------------------- copies
// (documents cross the driver as BSON: what is stored and what is returned are copies)

func copyCP(c *model.CheckPoint) *model.CheckPoint {
	if c == nil {
		return nil
	}
	return &model.CheckPoint{Sseq: c.Sseq, Cseq: c.Cseq}
}

func copySubs(m map[string]*schema.SubscribedClientDoc) map[string]*schema.SubscribedClientDoc {
	if m == nil {
		return nil
	}
	r := make(map[string]*schema.SubscribedClientDoc, len(m))
	for k, v := range m {
		if v == nil {
			r[k] = nil
			continue
		}
		r[k] = &schema.SubscribedClientDoc{CP: copyCP(v.CP), Type: v.Type, At: v.At}
	}
	return r
}

func copyDatatype(d *schema.DatatypeDoc) *schema.DatatypeDoc {
	c := *d
	c.RWClients = copySubs(d.RWClients)
	c.ROClients = copySubs(d.ROClients)
	return &c
}

func copyOperation(o *schema.OperationDoc) *schema.OperationDoc {
	c := *o
	return &c
}

func copyClient(c *schema.ClientDoc) *schema.ClientDoc {
	d := *c
	return &d
}

// ---------------------------------------------------------------- clients

// UpdateClient: UpdateOne(_id == CUID, $set ..., $currentDate updatedAt, upsert).
// $currentDate always modifies an existing document, so the call succeeds.
func (its *MongoCollections) UpdateClient(ctx iface.OrdaContext, client *schema.ClientDoc) errors.OrdaError {
	_ = client.ToUpdateBSON()
	err, done := its.begin(ctx, "UpdateClient")
	if err != nil {
		return err
	}
	defer done()
	for i, c := range its.Clients {
		if c.CUID == client.CUID {
			its.Clients[i] = copyClient(client)
			return nil
		}
	}
	its.Clients = append(its.Clients, copyClient(client))
	return nil
}

func (its *MongoCollections) DeleteClient(ctx iface.OrdaContext, cuid string) errors.OrdaError {
	err, done := its.begin(ctx, "DeleteClient")
	if err != nil {
		return err
	}
	defer done()
	for i, c := range its.Clients {
		if c.CUID == cuid {
			its.Clients = append(its.Clients[:i:i], its.Clients[i+1:]...)
			return nil
		}
	}
	return nil
}

func (its *MongoCollections) GetClient(ctx iface.OrdaContext, cuid string) (*schema.ClientDoc, errors.OrdaError) {
	err, done := its.begin(ctx, "GetClient")
	if err != nil {
		return nil, err
	}
	defer done()
	for _, c := range its.Clients {
		if c.CUID == cuid {
			return copyClient(c), nil
		}
	}
	return nil, nil
}

func (its *MongoCollections) purgeAllCollectionClients(ctx iface.OrdaContext, collectionNum int32) errors.OrdaError {
	err, done := its.begin(ctx, "purgeAllCollectionClients")
	if err != nil {
		return err
	}
	defer done()
	var keep []*schema.ClientDoc
	for _, c := range its.Clients {
		if c.CollectionNum != collectionNum {
			keep = append(keep, c)
		}
	}
	its.Clients = keep
	return nil
}

// ---------------------------------------------------------------- collection numbers

// GetNextCollectionNum: FindOneAndUpdate(_id == "collectionID", $inc num 1, upsert,
// ReturnDocument=After): the counter document is created with num=1 or
// incremented, and the document as it is *after* the update is returned.
func (its *MongoCollections) GetNextCollectionNum(ctx iface.OrdaContext) (int32, errors.OrdaError) {
	err, done := its.begin(ctx, "GetNextCollectionNum")
	if err != nil {
		return 0, err
	}
	defer done()
	its.Counter++
	return its.Counter, nil
}

// ---------------------------------------------------------------- collections

func (its *MongoCollections) GetCollection(ctx iface.OrdaContext, name string) (*schema.CollectionDoc, errors.OrdaError) {
	err, done := its.begin(ctx, "GetCollection")
	if err != nil {
		return nil, err
	}
	defer done()
	for _, c := range its.Collections {
		if c.Name == name {
			d := *c
			return &d, nil
		}
	}
	return nil, nil
}

func (its *MongoCollections) DeleteCollection(ctx iface.OrdaContext, name string) errors.OrdaError {
	err, done := its.begin(ctx, "DeleteCollection")
	if err != nil {
		return err
	}
	defer done()
	for i, c := range its.Collections {
		if c.Name == name {
			its.Collections = append(its.Collections[:i:i], its.Collections[i+1:]...)
			break
		}
	}
	return nil
}

func (its *MongoCollections) InsertCollection(ctx iface.OrdaContext, name string) (*schema.CollectionDoc, errors.OrdaError) {
	num, err := its.GetNextCollectionNum(ctx)
	if err != nil {
		return nil, err
	}
	ferr, done := its.begin(ctx, "InsertCollection")
	if ferr != nil {
		return nil, ferr
	}
	defer done()
	for _, c := range its.Collections {
		if c.Name == name {
			return nil, errors.ServerDBQuery.New(ctx.L(), "E11000 duplicate key: "+name)
		}
	}
	doc := &schema.CollectionDoc{Name: name, Num: num}
	its.Collections = append(its.Collections, doc)
	d := *doc
	return &d, nil
}

// PurgeAllDocumentsOfCollection mirrors the real method: look the collection
// up by name and purge by its number.
func (its *MongoCollections) PurgeAllDocumentsOfCollection(ctx iface.OrdaContext, name string) errors.OrdaError {
	collectionDoc, err := its.GetCollection(ctx, name)
	if err != nil {
		return err
	}
	if collectionDoc == nil {
		return nil
	}
	return its.purgeAllDocumentsOfCollectionNum(ctx, collectionDoc.Num)
}

func (its *MongoCollections) purgeAllDocumentsOfCollectionNum(ctx iface.OrdaContext, collectionNum int32) errors.OrdaError {
	if err := its.purgeAllCollectionDatatypes(ctx, collectionNum); err != nil {
		return err
	}
	if err := its.purgeAllCollectionClients(ctx, collectionNum); err != nil {
		return err
	}
	// the real code then issues DeleteOne({_id: collectionNum}) on the
	// collections collection; _id holds the *name* (a string), so an int32
	// never matches and nothing is deleted.
	err, done := its.begin(ctx, "DeleteOne(collections,_id==num)")
	if err != nil {
		return err
	}
	done()
	return nil
}

// ---------------------------------------------------------------- datatypes

func (its *MongoCollections) GetDatatype(ctx iface.OrdaContext, duid string) (*schema.DatatypeDoc, errors.OrdaError) {
	err, done := its.begin(ctx, "GetDatatype")
	if err != nil {
		return nil, err
	}
	defer done()
	for _, d := range its.Datatypes {
		if d.DUID == duid {
			return copyDatatype(d), nil
		}
	}
	return nil, nil
}

func (its *MongoCollections) GetDatatypeByKey(ctx iface.OrdaContext, collectionNum int32, key string) (*schema.DatatypeDoc, errors.OrdaError) {
	err, done := its.begin(ctx, "GetDatatypeByKey")
	if err != nil {
		return nil, err
	}
	defer done()
	for _, d := range its.Datatypes {
		if d.CollectionNum == collectionNum && d.Key == key {
			return copyDatatype(d), nil
		}
	}
	return nil, nil
}

// UpdateDatatype: UpdateOne(_id == DUID, $set <all fields, updatedAt = now>, upsert);
// updatedAt changes on every call, so an existing document counts as modified.
func (its *MongoCollections) UpdateDatatype(ctx iface.OrdaContext, datatype *schema.DatatypeDoc) errors.OrdaError {
	// the real repository builds the update document first (an argument of the driver
	// call): whatever the schema does to the document on that occasion happens here too
	_ = datatype.ToUpdateBSON()
	err, done := its.begin(ctx, "UpdateDatatype")
	if err != nil {
		return err
	}
	defer done()
	for i, d := range its.Datatypes {
		if d.DUID == datatype.DUID {
			its.Datatypes[i] = copyDatatype(datatype)
			return nil
		}
	}
	its.Datatypes = append(its.Datatypes, copyDatatype(datatype))
	return nil
}

func (its *MongoCollections) purgeAllCollectionDatatypes(ctx iface.OrdaContext, collectionNum int32) errors.OrdaError {
	err, done := its.begin(ctx, "purgeAllCollectionDatatypes")
	if err != nil {
		return err
	}
	defer done()
	var ops []*schema.OperationDoc
	for _, o := range its.Operations {
		if o.CollectionNum != collectionNum {
			ops = append(ops, o)
		}
	}
	its.Operations = ops
	var snaps []*schema.SnapshotDoc
	for _, s := range its.Snapshots {
		if s.CollectionNum != collectionNum {
			snaps = append(snaps, s)
		}
	}
	its.Snapshots = snaps
	var dts []*schema.DatatypeDoc
	for _, d := range its.Datatypes {
		if d.CollectionNum != collectionNum {
			dts = append(dts, d)
		}
	}
	its.Datatypes = dts
	return nil
}

func (its *MongoCollections) PurgeDatatype(ctx iface.OrdaContext, collectionNum int32, key string) errors.OrdaError {
	doc, err := its.GetDatatypeByKey(ctx, collectionNum, key)
	if err != nil {
		return err
	}
	if doc == nil {
		return nil
	}
	if err := its.PurgeOperations(ctx, collectionNum, doc.DUID); err != nil {
		return err
	}
	ferr, done := its.begin(ctx, "DeleteOne(datatypes)")
	if ferr != nil {
		return ferr
	}
	defer done()
	for i, d := range its.Datatypes {
		if d.DUID == doc.DUID {
			its.Datatypes = append(its.Datatypes[:i:i], its.Datatypes[i+1:]...)
			break
		}
	}
	return nil
}

// ---------------------------------------------------------------- operations

// InsertOperations: InsertMany (ordered): documents are inserted one by one and
// the first duplicate _id stops the command with an error; the documents
// before it stay inserted.
func (its *MongoCollections) InsertOperations(ctx iface.OrdaContext, operations []interface{}) errors.OrdaError {
	if operations == nil {
		return nil
	}
	err, done := its.begin(ctx, "InsertOperations")
	if err != nil {
		return err
	}
	defer done()
	for _, x := range operations {
		doc := x.(*schema.OperationDoc)
		for _, o := range its.Operations {
			if o.ID == doc.ID {
				return errors.ServerDBQuery.New(ctx.L(), "E11000 duplicate key error: "+doc.ID)
			}
		}
		its.Operations = append(its.Operations, copyOperation(doc))
	}
	return nil
}

func (its *MongoCollections) DeleteOperation(ctx iface.OrdaContext, duid string, sseq uint32) (int64, errors.OrdaError) {
	err, done := its.begin(ctx, "DeleteOperation")
	if err != nil {
		return 0, err
	}
	defer done()
	for i, o := range its.Operations {
		if o.DUID == duid && uint64(o.Sseq) == uint64(sseq) {
			its.Operations = append(its.Operations[:i:i], its.Operations[i+1:]...)
			return 1, nil
		}
	}
	return 0, nil
}

// GetOperations: Find(duid == d, sseq >= from [, sseq <= to]) sorted by sseq ascending.
func (its *MongoCollections) GetOperations(ctx iface.OrdaContext, duid string, from, to uint64) (model.OpList, []uint64, errors.OrdaError) {
	err, done := its.begin(ctx, "GetOperations")
	if err != nil {
		return nil, nil, err
	}
	defer done()
	var sel []*schema.OperationDoc
	for _, o := range its.Operations {
		if o.DUID != duid || uint64(o.Sseq) < from {
			continue
		}
		if to != constants.InfinitySseq && uint64(o.Sseq) > to {
			continue
		}
		// insertion sort by sseq
		pos := len(sel)
		for pos > 0 && sel[pos-1].Sseq > o.Sseq {
			pos--
		}
		sel = append(sel, nil)
		copy(sel[pos+1:], sel[pos:])
		sel[pos] = o
	}
	var opList []*model.Operation
	var sseqList []uint64
	for _, o := range sel {
		opList = append(opList, copyOperation(o).GetOperation())
		sseqList = append(sseqList, uint64(o.Sseq))
	}
	return opList, sseqList, nil
}

func (its *MongoCollections) PurgeOperations(ctx iface.OrdaContext, collectionNum int32, duid string) errors.OrdaError {
	err, done := its.begin(ctx, "PurgeOperations")
	if err != nil {
		return err
	}
	defer done()
	var ops []*schema.OperationDoc
	for _, o := range its.Operations {
		if !(o.CollectionNum == collectionNum && o.DUID == duid) {
			ops = append(ops, o)
		}
	}
	its.Operations = ops
	return nil
}

// ---------------------------------------------------------------- snapshots

func (its *MongoCollections) GetLatestSnapshot(ctx iface.OrdaContext, collectionNum int32, duid string) (*schema.SnapshotDoc, errors.OrdaError) {
	err, done := its.begin(ctx, "GetLatestSnapshot")
	if err != nil {
		return nil, err
	}
	defer done()
	var best *schema.SnapshotDoc
	for _, s := range its.Snapshots {
		if s.CollectionNum == collectionNum && s.DUID == duid && (best == nil || s.Sseq > best.Sseq) {
			best = s
		}
	}
	if best == nil {
		return nil, nil
	}
	c := *best
	return &c, nil
}

// InsertSnapshot: InsertOne with _id "<duid>:<sseq>"; a duplicate _id is an error.
func (its *MongoCollections) InsertSnapshot(ctx iface.OrdaContext, collectionNum int32, duid string, sseq uint64, meta []byte, snapshot []byte) errors.OrdaError {
	err, done := its.begin(ctx, "InsertSnapshot")
	if err != nil {
		return err
	}
	defer done()
	id := fmt.Sprintf("%s:%d", duid, sseq)
	for _, s := range its.Snapshots {
		if s.ID == id {
			return errors.ServerDBQuery.New(ctx.L(), "E11000 duplicate key error: "+id)
		}
	}
	its.Snapshots = append(its.Snapshots, &schema.SnapshotDoc{ID: id, CollectionNum: collectionNum, DUID: duid, Sseq: sseq, Meta: string(meta), Snapshot: snapshot})
	return nil
}

// ---------------------------------------------------------------- user ("real") collections

// InsertRealSnapshot: ReplaceOne(_id == id, data + {_orda_ver_: sseq}, upsert).
func (its *RepositoryMongo) InsertRealSnapshot(ctx iface.OrdaContext, collectionName string, id string, data interface{}, sseq uint64) errors.OrdaError {
	err, done := its.begin(ctx, "InsertRealSnapshot")
	if err != nil {
		return err
	}
	defer done()
	its.RealVersions = append(its.RealVersions, sseq)
	docs := its.Real[collectionName]
	for _, d := range docs {
		if d.ID == id {
			d.Data, d.Ver = data, sseq
			return nil
		}
	}
	its.Real[collectionName] = append(docs, &RealDoc{ID: id, Data: data, Ver: sseq})
	return nil
}

func (its *RepositoryMongo) GetRealSnapshot(ctx iface.OrdaContext, collectionName string, id string) (map[string]interface{}, errors.OrdaError) {
	err, done := its.begin(ctx, "GetRealSnapshot")
	if err != nil {
		return nil, err
	}
	defer done()
	for _, d := range its.Real[collectionName] {
		if d.ID == id {
			return map[string]interface{}{"_id": d.ID, Ver: d.Ver, "data": d.Data}, nil
		}
	}
	return nil, nil
}

func (its *RepositoryMongo) InitializeCollections(ctx iface.OrdaContext) errors.OrdaError { return nil }

// PurgeCollection: purge the orda documents of the collection, then drop the user collection.
func (its *RepositoryMongo) PurgeCollection(ctx iface.OrdaContext, collectionName string) errors.OrdaError {
	if err := its.PurgeAllDocumentsOfCollection(ctx, collectionName); err != nil {
		return errors.ServerDBQuery.New(ctx.L(), err.Error())
	}
	err, done := its.begin(ctx, "Drop")
	if err != nil {
		return err
	}
	defer done()
	delete(its.Real, collectionName)
	return nil
}

func (its *RepositoryMongo) GetOrCreateRealCollection(ctx iface.OrdaContext, name string) errors.OrdaError {
	err, done := its.begin(ctx, "GetOrCreateRealCollection")
	if err != nil {
		return err
	}
	defer done()
	if _, ok := its.Real[name]; !ok {
		its.Real[name] = nil
	}
	return nil
}

func (its *RepositoryMongo) Close(ctx iface.OrdaContext) errors.OrdaError { return nil }

// MakeCollection is the real function, unchanged.
func MakeCollection(ctx iface.OrdaContext, mongo *RepositoryMongo, collectionName string) (int32, errors.OrdaError) {
	collectionDoc, err := mongo.GetCollection(ctx, collectionName)
	if err != nil {
		return 0, err
	}
	if collectionDoc != nil {
		return collectionDoc.Num, nil
	}
	collectionDoc, err = mongo.InsertCollection(ctx, collectionName)
	if err != nil {
		return 0, err
	}
	ctx.L().Infof("create a new collection:%+v", collectionDoc)
	return collectionDoc.Num, nil
}
