package mongodb

// Native counterpart of the engine's driver model (engine/mongo.go): a real
// mongo.Client whose driver.Deployment is an in-memory stand-in that answers
// the commands the repository code issues (find, insert, update, delete,
// findAndModify, and no-op session/index commands).  The engine never executes
// this file (vfFakeClient and vfFailAt are modelled); native replays and the
// translator validation do.

import (
	"bytes"
	gocontext "context"
	"fmt"
	"sort"
	"strings"
	"sync"
	"time"

	"go.mongodb.org/mongo-driver/bson"
	"go.mongodb.org/mongo-driver/bson/bsontype"
	"go.mongodb.org/mongo-driver/mongo"
	"go.mongodb.org/mongo-driver/mongo/address"
	"go.mongodb.org/mongo-driver/mongo/description"
	"go.mongodb.org/mongo-driver/mongo/options"
	"go.mongodb.org/mongo-driver/x/bsonx/bsoncore"
	"go.mongodb.org/mongo-driver/x/mongo/driver"
	"go.mongodb.org/mongo-driver/x/mongo/driver/topology"
	"go.mongodb.org/mongo-driver/x/mongo/driver/wiremessage"
)

type vfDeployment struct {
	mu       sync.Mutex
	data     map[string][]bson.Raw // collection name -> documents
	updates  chan description.Topology
	commands int
	failAt   int
	oid      int
}

var vfCurrentDeployment *vfDeployment

// vfFakeClient returns a client over a fresh, empty in-memory deployment.
func vfFakeClient() *mongo.Client {
	d := &vfDeployment{data: map[string][]bson.Raw{}}
	vfCurrentDeployment = d
	c, err := mongo.NewClient(&options.ClientOptions{Deployment: d})
	if err != nil {
		panic(err)
	}
	if err := c.Connect(gocontext.Background()); err != nil {
		panic(err)
	}
	return c
}

// vfFailAt makes the n-th data command from now fail (0: never).
func vfFailAt(n int) {
	d := vfCurrentDeployment
	d.mu.Lock()
	defer d.mu.Unlock()
	d.failAt = 0
	if n > 0 {
		d.failAt = d.commands + n
	}
}

var vfDescription = description.Server{
	CanonicalAddr:         address.Address("localhost:27017"),
	MaxDocumentSize:       16777216,
	MaxMessageSize:        48000000,
	MaxBatchCount:         100000,
	SessionTimeoutMinutes: 30,
	Kind:                  description.RSPrimary,
	WireVersion:           &description.VersionRange{Max: topology.SupportedWireVersions.Max},
}

func (f *vfDeployment) SelectServer(gocontext.Context, description.ServerSelector) (driver.Server, error) {
	return f, nil
}
func (f *vfDeployment) Kind() description.TopologyKind { return description.ReplicaSetWithPrimary }
func (f *vfDeployment) Connection(gocontext.Context) (driver.Connection, error) {
	return &vfConn{srv: f}, nil
}
func (f *vfDeployment) MinRTT() time.Duration              { return 0 }
func (f *vfDeployment) RTT90() time.Duration               { return 0 }
func (f *vfDeployment) Connect() error                     { return nil }
func (f *vfDeployment) Disconnect(gocontext.Context) error { return nil }
func (f *vfDeployment) Subscribe() (*driver.Subscription, error) {
	f.mu.Lock()
	defer f.mu.Unlock()
	if f.updates == nil {
		f.updates = make(chan description.Topology, 1)
		f.updates <- description.Topology{SessionTimeoutMinutes: 30}
	}
	return &driver.Subscription{Updates: f.updates}, nil
}
func (f *vfDeployment) Unsubscribe(*driver.Subscription) error { return nil }

type vfConn struct {
	srv  *vfDeployment
	resp bson.D
}

func (c *vfConn) WriteWireMessage(_ gocontext.Context, wm []byte) error {
	cmd, seqs, err := vfParseOpMsg(wm)
	if err != nil {
		return err
	}
	c.resp = c.srv.handle(cmd, seqs)
	return nil
}

func (c *vfConn) ReadWireMessage(_ gocontext.Context, dst []byte) ([]byte, error) {
	var idx int32
	idx, dst = wiremessage.AppendHeaderStart(dst, wiremessage.NextRequestID(), 0, wiremessage.OpMsg)
	dst = wiremessage.AppendMsgFlags(dst, 0)
	dst = wiremessage.AppendMsgSectionType(dst, wiremessage.SingleDocument)
	b, err := bson.Marshal(c.resp)
	if err != nil {
		return dst, err
	}
	dst = append(dst, b...)
	dst = bsoncore.UpdateLength(dst, idx, int32(len(dst[idx:])))
	return dst, nil
}
func (c *vfConn) Description() description.Server { return vfDescription }
func (c *vfConn) Close() error                    { return nil }
func (c *vfConn) ID() string                      { return "<vf>" }
func (c *vfConn) ServerConnectionID() *int32      { id := int32(1); return &id }
func (c *vfConn) Address() address.Address        { return address.Address("localhost:27017") }
func (c *vfConn) Stale() bool                     { return false }

func vfParseOpMsg(wm []byte) (bson.Raw, map[string][]bson.Raw, error) {
	_, _, _, opcode, rem, ok := wiremessage.ReadHeader(wm)
	if !ok || opcode != wiremessage.OpMsg {
		return nil, nil, fmt.Errorf("vfDeployment: unsupported wire message (opcode %v)", opcode)
	}
	if _, rem, ok = wiremessage.ReadMsgFlags(rem); !ok {
		return nil, nil, fmt.Errorf("vfDeployment: cannot read flags")
	}
	var cmd bson.Raw
	seqs := make(map[string][]bson.Raw)
	for len(rem) > 0 {
		var st wiremessage.SectionType
		if st, rem, ok = wiremessage.ReadMsgSectionType(rem); !ok {
			return nil, nil, fmt.Errorf("vfDeployment: cannot read section type")
		}
		switch st {
		case wiremessage.SingleDocument:
			var doc bsoncore.Document
			if doc, rem, ok = wiremessage.ReadMsgSectionSingleDocument(rem); !ok {
				return nil, nil, fmt.Errorf("vfDeployment: cannot read command")
			}
			cmd = bson.Raw(doc)
		case wiremessage.DocumentSequence:
			var id string
			var docs []bsoncore.Document
			if id, docs, rem, ok = wiremessage.ReadMsgSectionDocumentSequence(rem); !ok {
				return nil, nil, fmt.Errorf("vfDeployment: cannot read document sequence")
			}
			for _, d := range docs {
				seqs[id] = append(seqs[id], bson.Raw(d))
			}
		default:
			return nil, nil, fmt.Errorf("vfDeployment: unknown section type")
		}
	}
	return cmd, seqs, nil
}

func vfCmdDocs(cmd bson.Raw, seqs map[string][]bson.Raw, name string) []bson.Raw {
	if d, ok := seqs[name]; ok {
		return d
	}
	var ret []bson.Raw
	if v, err := cmd.LookupErr(name); err == nil {
		if arr, ok := v.ArrayOK(); ok {
			vals, _ := arr.Values()
			for _, e := range vals {
				ret = append(ret, e.Document())
			}
		}
	}
	return ret
}

func vfInt(v bson.RawValue) (int64, bool) {
	switch v.Type {
	case bsontype.Int32:
		return int64(v.Int32()), true
	case bsontype.Int64:
		return v.Int64(), true
	case bsontype.Double:
		return int64(v.Double()), true
	}
	return 0, false
}

// vfCompare returns -1/0/1 and whether the two values are comparable (same type bracket).
func vfCompare(a, b bson.RawValue) (int, bool) {
	if x, ok := vfInt(a); ok {
		if y, ok := vfInt(b); ok {
			switch {
			case x < y:
				return -1, true
			case x > y:
				return 1, true
			}
			return 0, true
		}
		return 0, false
	}
	if a.Type == bsontype.String && b.Type == bsontype.String {
		return strings.Compare(a.StringValue(), b.StringValue()), true
	}
	if a.Type == b.Type && bytes.Equal(a.Value, b.Value) {
		return 0, true
	}
	return 0, false
}

func vfMatches(doc bson.Raw, filter bson.Raw) bool {
	elems, _ := filter.Elements()
	for _, e := range elems {
		field, err := doc.LookupErr(e.Key())
		cond := e.Value()
		if sub, ok := cond.DocumentOK(); ok {
			subElems, _ := sub.Elements()
			if len(subElems) > 0 && strings.HasPrefix(subElems[0].Key(), "$") {
				for _, op := range subElems {
					if op.Key() == "$exists" {
						if (err == nil) != op.Value().Boolean() {
							return false
						}
						continue
					}
					if op.Key() == "$ne" {
						if err != nil {
							continue
						}
						if c, ok := vfCompare(field, op.Value()); ok && c == 0 {
							return false
						}
						continue
					}
					if err != nil {
						return false
					}
					c, ok := vfCompare(field, op.Value())
					if !ok {
						return false
					}
					switch op.Key() {
					case "$eq":
						if c != 0 {
							return false
						}
					case "$gte":
						if c < 0 {
							return false
						}
					case "$lte":
						if c > 0 {
							return false
						}
					case "$gt":
						if c <= 0 {
							return false
						}
					case "$lt":
						if c >= 0 {
							return false
						}
					default:
						panic("vfDeployment: unsupported operator " + op.Key())
					}
				}
				continue
			}
		}
		if err != nil {
			if cond.Type == bsontype.Null {
				continue
			}
			return false
		}
		if c, ok := vfCompare(field, cond); !ok || c != 0 {
			return false
		}
	}
	return true
}

func vfToD(r bson.Raw) bson.D {
	var d bson.D
	elems, _ := r.Elements()
	for _, e := range elems {
		d = append(d, bson.E{Key: e.Key(), Value: e.Value()})
	}
	return d
}

func vfSetField(d bson.D, key string, v interface{}) bson.D {
	for i := range d {
		if d[i].Key == key {
			d[i].Value = v
			return d
		}
	}
	return append(d, bson.E{Key: key, Value: v})
}

func vfRaw(d bson.D) bson.Raw {
	b, err := bson.Marshal(d)
	if err != nil {
		panic(err)
	}
	return b
}

// vfApplyUpdate applies an operator update to a document.
func vfApplyUpdate(doc bson.D, upd bson.Raw, inserting bool) bson.D {
	ops, _ := upd.Elements()
	for _, op := range ops {
		args, _ := op.Value().Document().Elements()
		switch op.Key() {
		case "$set":
			for _, a := range args {
				doc = vfSetField(doc, a.Key(), a.Value())
			}
		case "$setOnInsert":
			if inserting {
				for _, a := range args {
					doc = vfSetField(doc, a.Key(), a.Value())
				}
			}
		case "$inc":
			for _, a := range args {
				found := false
				for i := range doc {
					if doc[i].Key == a.Key() {
						cur := doc[i].Value.(bson.RawValue)
						x, _ := vfInt(cur)
						y, _ := vfInt(a.Value())
						if cur.Type == bsontype.Int32 {
							doc[i].Value = int32(x + y)
						} else {
							doc[i].Value = x + y
						}
						found = true
					}
				}
				if !found {
					doc = append(doc, bson.E{Key: a.Key(), Value: a.Value()})
				}
			}
		case "$currentDate":
			for _, a := range args {
				doc = vfSetField(doc, a.Key(), time.Time{})
			}
		default:
			panic("vfDeployment: unsupported update operator " + op.Key())
		}
	}
	return doc
}

func vfIsOperatorUpdate(u bson.Raw) bool {
	e, _ := u.Elements()
	return len(e) > 0 && strings.HasPrefix(e[0].Key(), "$")
}

func vfUpsertBase(q bson.Raw) bson.D {
	var d bson.D
	elems, _ := q.Elements()
	for _, e := range elems {
		if sub, ok := e.Value().DocumentOK(); ok {
			se, _ := sub.Elements()
			if len(se) > 0 && strings.HasPrefix(se[0].Key(), "$") {
				continue
			}
		}
		d = append(d, bson.E{Key: e.Key(), Value: e.Value()})
	}
	return d
}

func vfWithID(id interface{}, repl bson.Raw) bson.D {
	d := bson.D{{Key: "_id", Value: id}}
	elems, _ := repl.Elements()
	for _, e := range elems {
		if e.Key() != "_id" {
			d = append(d, bson.E{Key: e.Key(), Value: e.Value()})
		}
	}
	return d
}

func (f *vfDeployment) dup(coll string, id bson.RawValue) bool {
	for _, e := range f.data[coll] {
		if c, ok := vfCompare(e.Lookup("_id"), id); ok && c == 0 {
			return true
		}
	}
	return false
}

func vfDupErr(i int, coll string) bson.D {
	return bson.D{{Key: "index", Value: int32(i)}, {Key: "code", Value: int32(11000)}, {Key: "errmsg", Value: "E11000 duplicate key error collection: " + coll}}
}

func (f *vfDeployment) handle(cmd bson.Raw, seqs map[string][]bson.Raw) bson.D {
	elems, _ := cmd.Elements()
	name := elems[0].Key()
	coll, _ := elems[0].Value().StringValueOK()
	db := ""
	if v, err := cmd.LookupErr("$db"); err == nil {
		db = v.StringValue()
	}
	f.mu.Lock()
	defer f.mu.Unlock()
	switch name {
	case "find", "insert", "update", "delete", "findAndModify", "drop", "listCollections":
		f.commands++
		if f.failAt != 0 && f.commands == f.failAt {
			return bson.D{{Key: "ok", Value: 0}, {Key: "code", Value: int32(96)}, {Key: "errmsg", Value: "injected failure"}}
		}
	}
	switch name {
	case "find":
		var found []bson.Raw
		filter := bson.Raw{}
		if v, err := cmd.LookupErr("filter"); err == nil {
			filter = v.Document()
		}
		for _, d := range f.data[coll] {
			if len(filter) == 0 || vfMatches(d, filter) {
				found = append(found, d)
			}
		}
		if v, err := cmd.LookupErr("sort"); err == nil {
			se, _ := v.Document().Elements()
			if len(se) > 0 {
				key := se[0].Key()
				dir, _ := vfInt(se[0].Value())
				sort.SliceStable(found, func(i, j int) bool {
					c, _ := vfCompare(found[i].Lookup(key), found[j].Lookup(key))
					if dir < 0 {
						return c > 0
					}
					return c < 0
				})
			}
		}
		if v, err := cmd.LookupErr("limit"); err == nil {
			if l, ok := vfInt(v); ok && l > 0 && int(l) < len(found) {
				found = found[:int(l)]
			}
		}
		batch := bson.A{}
		for _, d := range found {
			batch = append(batch, d)
		}
		return bson.D{{Key: "ok", Value: 1}, {Key: "cursor", Value: bson.D{
			{Key: "id", Value: int64(0)}, {Key: "ns", Value: db + "." + coll}, {Key: "firstBatch", Value: batch}}}}
	case "insert":
		docs := vfCmdDocs(cmd, seqs, "documents")
		n := 0
		writeErrors := bson.A{}
		for i, d := range docs {
			if id, err := d.LookupErr("_id"); err == nil && f.dup(coll, id) {
				writeErrors = append(writeErrors, vfDupErr(i, coll))
				break // ordered
			}
			f.data[coll] = append(f.data[coll], append(bson.Raw{}, d...))
			n++
		}
		resp := bson.D{{Key: "ok", Value: 1}, {Key: "n", Value: int32(n)}}
		if len(writeErrors) > 0 {
			resp = append(resp, bson.E{Key: "writeErrors", Value: writeErrors})
		}
		return resp
	case "update":
		ups := vfCmdDocs(cmd, seqs, "updates")
		n, modified := 0, 0
		upserted := bson.A{}
		writeErrors := bson.A{}
		for i, u := range ups {
			q := u.Lookup("q").Document()
			ud := u.Lookup("u").Document()
			upsert := false
			if v, err := u.LookupErr("upsert"); err == nil {
				upsert = v.Boolean()
			}
			done := false
			for j, e := range f.data[coll] {
				if vfMatches(e, q) {
					if vfIsOperatorUpdate(ud) {
						f.data[coll][j] = vfRaw(vfApplyUpdate(vfToD(e), ud, false))
					} else {
						f.data[coll][j] = vfRaw(vfWithID(e.Lookup("_id"), ud))
					}
					n++
					modified++
					done = true
					break
				}
			}
			if !done && upsert {
				var nd bson.D
				if vfIsOperatorUpdate(ud) {
					nd = vfApplyUpdate(vfUpsertBase(q), ud, true)
				} else {
					var id interface{}
					if v, err := ud.LookupErr("_id"); err == nil {
						id = v
					} else if v, err := q.LookupErr("_id"); err == nil {
						id = v
					} else {
						f.oid++
						id = fmt.Sprintf("oid-%d", f.oid)
					}
					nd = vfWithID(id, ud)
				}
				raw := vfRaw(nd)
				if id, err := raw.LookupErr("_id"); err == nil && f.dup(coll, id) {
					writeErrors = append(writeErrors, vfDupErr(i, coll))
					continue
				}
				f.data[coll] = append(f.data[coll], raw)
				n++
				upserted = append(upserted, bson.D{{Key: "index", Value: int32(i)}, {Key: "_id", Value: raw.Lookup("_id")}})
			}
		}
		resp := bson.D{{Key: "ok", Value: 1}, {Key: "n", Value: int32(n)}, {Key: "nModified", Value: int32(modified)}}
		if len(upserted) > 0 {
			resp = append(resp, bson.E{Key: "upserted", Value: upserted})
		}
		if len(writeErrors) > 0 {
			resp = append(resp, bson.E{Key: "writeErrors", Value: writeErrors})
		}
		return resp
	case "drop":
		if _, ok := f.data[coll]; !ok {
			return bson.D{{Key: "ok", Value: 0}, {Key: "code", Value: int32(26)}, {Key: "codeName", Value: "NamespaceNotFound"}, {Key: "errmsg", Value: "ns not found"}}
		}
		delete(f.data, coll)
		return bson.D{{Key: "ok", Value: 1}}
	case "listCollections":
		filter := bson.Raw{}
		if v, err := cmd.LookupErr("filter"); err == nil {
			filter = v.Document()
		}
		var names []string
		for n := range f.data {
			names = append(names, n)
		}
		sort.Strings(names)
		batch := bson.A{}
		for _, n := range names {
			d := vfRaw(bson.D{{Key: "name", Value: n}, {Key: "type", Value: "collection"}})
			if len(filter) == 0 || vfMatches(d, filter) {
				batch = append(batch, d)
			}
		}
		return bson.D{{Key: "ok", Value: 1}, {Key: "cursor", Value: bson.D{
			{Key: "id", Value: int64(0)}, {Key: "ns", Value: db + ".$cmd.listCollections"}, {Key: "firstBatch", Value: batch}}}}
	case "delete":
		dels := vfCmdDocs(cmd, seqs, "deletes")
		n := 0
		for _, d := range dels {
			q := d.Lookup("q").Document()
			limit, _ := vfInt(d.Lookup("limit"))
			var keep []bson.Raw
			cnt := 0
			for _, e := range f.data[coll] {
				if (limit == 0 || cnt == 0) && vfMatches(e, q) {
					cnt++
					continue
				}
				keep = append(keep, e)
			}
			f.data[coll] = keep
			n += cnt
		}
		return bson.D{{Key: "ok", Value: 1}, {Key: "n", Value: int32(n)}}
	case "findAndModify":
		q := bson.Raw{}
		if v, err := cmd.LookupErr("query"); err == nil {
			q = v.Document()
		}
		ud := cmd.Lookup("update").Document()
		upsert, retNew := false, false
		if v, err := cmd.LookupErr("upsert"); err == nil {
			upsert = v.Boolean()
		}
		if v, err := cmd.LookupErr("new"); err == nil {
			retNew = v.Boolean()
		}
		for j, e := range f.data[coll] {
			if vfMatches(e, q) {
				before := e
				f.data[coll][j] = vfRaw(vfApplyUpdate(vfToD(e), ud, false))
				val := interface{}(before)
				if retNew {
					val = f.data[coll][j]
				}
				return bson.D{{Key: "ok", Value: 1}, {Key: "value", Value: val},
					{Key: "lastErrorObject", Value: bson.D{{Key: "n", Value: int32(1)}, {Key: "updatedExisting", Value: true}}}}
			}
		}
		if !upsert {
			return bson.D{{Key: "ok", Value: 1}, {Key: "value", Value: nil},
				{Key: "lastErrorObject", Value: bson.D{{Key: "n", Value: int32(0)}, {Key: "updatedExisting", Value: false}}}}
		}
		raw := vfRaw(vfApplyUpdate(vfUpsertBase(q), ud, true))
		f.data[coll] = append(f.data[coll], raw)
		var val interface{}
		if retNew {
			val = raw
		}
		return bson.D{{Key: "ok", Value: 1}, {Key: "value", Value: val},
			{Key: "lastErrorObject", Value: bson.D{{Key: "n", Value: int32(1)}, {Key: "updatedExisting", Value: false}, {Key: "upserted", Value: raw.Lookup("_id")}}}}
	}
	// endSessions, commitTransaction, abortTransaction, createIndexes, ping, ...
	return bson.D{{Key: "ok", Value: 1}}
}
