package mongodb

// The real repository over the modelled driver (its own file: it depends on
// nothing but the repository's fields, so that it keeps building when the
// repository API that other harness files use changes).

import (
	gocontext "context"

	"github.com/orda-io/orda/client/pkg/context"
	"github.com/orda-io/orda/client/pkg/iface"
	"github.com/orda-io/orda/server/schema"
)

// VFNewRealRepository builds the real repository over the modelled driver.
func VFNewRealRepository() *RepositoryMongo {
	client := vfFakeClient()
	db := client.Database("vf")
	return &RepositoryMongo{
		db:     db,
		client: client,
		MongoCollections: &MongoCollections{
			mongoClient: client,
			clients:     db.Collection(schema.CollectionNameClients),
			counters:    db.Collection(schema.CollectionNameColNumGenerator),
			snapshots:   db.Collection(schema.CollectionNameSnapshot),
			datatypes:   db.Collection(schema.CollectionNameDatatypes),
			operations:  db.Collection(schema.CollectionNameOperations),
			collections: db.Collection(schema.CollectionNameCollections),
		},
	}
}

func vfCtx() iface.OrdaContext { return context.NewOrdaContext(gocontext.TODO(), "vf") }

