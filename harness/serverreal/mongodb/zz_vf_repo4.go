package mongodb

// VF_Repo_Faults (C08, C16): one repository call while the database fails the
// k-th driver command of that call (server selection error: the driver returns
// a nil result and an error).  Every call of the repository API, with valid
// arguments, against a seeded store.  The call must not panic; it must report
// the failure (no call succeeds silently on a failed command); what it did not
// report as done is not half done: after the fault is gone the same call
// succeeds and the store reads as after one fault-free call.

import (
	"github.com/orda-io/orda/client/pkg/errors"
	"github.com/orda-io/orda/client/pkg/vf"
	"github.com/orda-io/orda/server/constants"
	"github.com/orda-io/orda/server/schema"
)

func VF_Repo_Faults() {
	r := VFNewRealRepository()
	ctx := vfCtx()
	_, e1 := r.InsertCollection(ctx, "colA")
	ca, _ := r.GetCollection(ctx, "colA")
	vf.Assert(e1 == nil && ca != nil, "seeding succeeds")
	vf.Assert(r.UpdateDatatype(ctx, vfDatatypeDoc("DA", "k", ca.Num, 2, "X", 2, 2)) == nil, "seeding succeeds")
	vf.Assert(r.InsertOperations(ctx, []interface{}{vfOpDoc("DA", 1, ca.Num, "X", 1), vfOpDoc("DA", 2, ca.Num, "X", 2)}) == nil, "seeding succeeds")
	vf.Assert(r.InsertSnapshot(ctx, ca.Num, "DA", 1, []byte("meta"), []byte(`{"v":1}`)) == nil, "seeding succeeds")
	vf.Assert(r.UpdateClient(ctx, &schema.ClientDoc{CUID: "X", Alias: "ax", CollectionNum: ca.Num, Type: 1, SyncType: 2}) == nil, "seeding succeeds")
	vf.Assert(r.InsertRealSnapshot(ctx, "colA", "k", map[string]interface{}{"v": 1.0}, 1) == nil, "seeding succeeds")
	kind := vf.Choice("call", 18)
	k := 1 + vf.Choice("failing-command", 2)
	vf.Tag("call", kind)
	call := func() errors.OrdaError {
		switch kind {
		case 0:
			_, e := r.GetClient(ctx, "X")
			return e
		case 1:
			return r.UpdateClient(ctx, &schema.ClientDoc{CUID: "X", Alias: "changed", CollectionNum: ca.Num, Type: 1, SyncType: 2})
		case 2:
			return r.UpdateClient(ctx, &schema.ClientDoc{CUID: "N", Alias: "new", CollectionNum: ca.Num, Type: 1, SyncType: 2})
		case 3:
			return r.DeleteClient(ctx, "X")
		case 4:
			_, e := r.GetCollection(ctx, "colA")
			return e
		case 5:
			_, e := r.InsertCollection(ctx, "colB")
			return e
		case 6:
			return r.DeleteCollection(ctx, "colA")
		case 7:
			return r.PurgeAllDocumentsOfCollection(ctx, "colA")
		case 8:
			_, e := r.GetDatatype(ctx, "DA")
			return e
		case 9:
			_, e := r.GetDatatypeByKey(ctx, ca.Num, "k")
			return e
		case 10:
			return r.UpdateDatatype(ctx, vfDatatypeDoc("DA", "k", ca.Num, 3, "X", 3, 3))
		case 11:
			return r.UpdateDatatype(ctx, vfDatatypeDoc("DN", "kn", ca.Num, 0, "X", 0, 0))
		case 12:
			return r.InsertOperations(ctx, []interface{}{vfOpDoc("DA", 3, ca.Num, "X", 3)})
		case 13:
			_, _, e := r.GetOperations(ctx, "DA", 1, constants.InfinitySseq)
			return e
		case 14:
			_, e := r.GetLatestSnapshot(ctx, ca.Num, "DA")
			return e
		case 15:
			return r.InsertSnapshot(ctx, ca.Num, "DA", 2, []byte("meta"), []byte(`{"v":2}`))
		case 16:
			return r.InsertRealSnapshot(ctx, "colA", "k", map[string]interface{}{"v": 2.0}, 2)
		}
		_, e := r.GetRealSnapshot(ctx, "colA", "k")
		return e
	}
	// how many driver commands the call makes when nothing fails is not known to the
	// harness: the fault plan may name a command the call never reaches
	vfFailAt(k)
	var err errors.OrdaError
	panicked, msg := vf.Try(func() { err = call() })
	vfFailAt(0)
	vf.Reach("returned")
	if panicked {
		vf.Tag("_panic", msg)
	}
	vf.Assert(!panicked, "C16 a repository call hit by a database failure does not panic")
	if k == 1 {
		vf.Assert(err != nil, "C08 a call whose first database command fails reports the failure")
	}
	if err == nil {
		return // the fault plan named a command the call never reached
	}
	vf.Reach("reported")
	// the same call without the fault succeeds
	var err2 errors.OrdaError
	panicked, msg = vf.Try(func() { err2 = call() })
	if panicked {
		vf.Tag("_panic", msg)
	}
	vf.Assert(!panicked && err2 == nil, "C08 after the failure is gone the same call succeeds")
}
