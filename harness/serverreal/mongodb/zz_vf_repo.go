package mongodb

// Repository level: the real server/mongodb code on the driver model.
//  * VFT_Repo*: translator validation scenarios (engine == native).
//  * VF_Repo_Equiv: the in-memory stand-in used by all service-level harnesses
//    (harness/server/mongodb/fake.go, here under the import path vffake) and the
//    real repository answer every call of a script alike.
//  * VF_Repo_CollectionNumbers (C17): collections created one after the other
//    get pairwise different numbers.

import (
	"fmt"
	"sort"

	"github.com/orda-io/orda/client/pkg/errors"
	"github.com/orda-io/orda/client/pkg/iface"
	"github.com/orda-io/orda/client/pkg/model"
	"github.com/orda-io/orda/client/pkg/vf"
	"github.com/orda-io/orda/server/constants"
	"github.com/orda-io/orda/server/schema"
	"github.com/orda-io/orda/server/vffake"
)

// repoAPI is the part of the repository the server uses.
type repoAPI interface {
	GetClient(ctx iface.OrdaContext, cuid string) (*schema.ClientDoc, errors.OrdaError)
	UpdateClient(ctx iface.OrdaContext, client *schema.ClientDoc) errors.OrdaError
	DeleteClient(ctx iface.OrdaContext, cuid string) errors.OrdaError
	GetCollection(ctx iface.OrdaContext, name string) (*schema.CollectionDoc, errors.OrdaError)
	InsertCollection(ctx iface.OrdaContext, name string) (*schema.CollectionDoc, errors.OrdaError)
	DeleteCollection(ctx iface.OrdaContext, name string) errors.OrdaError
	PurgeAllDocumentsOfCollection(ctx iface.OrdaContext, name string) errors.OrdaError
	GetNextCollectionNum(ctx iface.OrdaContext) (int32, errors.OrdaError)
	GetDatatype(ctx iface.OrdaContext, duid string) (*schema.DatatypeDoc, errors.OrdaError)
	GetDatatypeByKey(ctx iface.OrdaContext, collectionNum int32, key string) (*schema.DatatypeDoc, errors.OrdaError)
	UpdateDatatype(ctx iface.OrdaContext, datatype *schema.DatatypeDoc) errors.OrdaError
	PurgeDatatype(ctx iface.OrdaContext, collectionNum int32, key string) errors.OrdaError
	InsertOperations(ctx iface.OrdaContext, operations []interface{}) errors.OrdaError
	GetOperations(ctx iface.OrdaContext, duid string, from, to uint64) (model.OpList, []uint64, errors.OrdaError)
	PurgeOperations(ctx iface.OrdaContext, collectionNum int32, duid string) errors.OrdaError
	GetLatestSnapshot(ctx iface.OrdaContext, collectionNum int32, duid string) (*schema.SnapshotDoc, errors.OrdaError)
	InsertSnapshot(ctx iface.OrdaContext, collectionNum int32, duid string, sseq uint64, meta []byte, snapshot []byte) errors.OrdaError
	InsertRealSnapshot(ctx iface.OrdaContext, collectionName string, id string, data interface{}, sseq uint64) errors.OrdaError
	GetRealSnapshot(ctx iface.OrdaContext, collectionName string, id string) (map[string]interface{}, errors.OrdaError)
}

var _ repoAPI = (*RepositoryMongo)(nil)
var _ repoAPI = (*vffake.RepositoryMongo)(nil)

func obsErr(e errors.OrdaError) string {
	if e == nil {
		return "ok"
	}
	return "err"
}

func obsClient(c *schema.ClientDoc) string {
	if c == nil {
		return "<nil>"
	}
	return fmt.Sprintf("{%s %s %d %d %d}", c.CUID, c.Alias, c.CollectionNum, c.Type, c.SyncType)
}

func obsCollection(c *schema.CollectionDoc) string {
	if c == nil {
		return "<nil>"
	}
	return fmt.Sprintf("{%s %d}", c.Name, c.Num)
}

func obsDatatype(d *schema.DatatypeDoc) string {
	if d == nil {
		return "<nil>"
	}
	s := fmt.Sprintf("{%s %s %d %s %d/%d/%d %v", d.DUID, d.Key, d.CollectionNum, d.Type, d.Sseq.Begin, d.Sseq.End, d.Sseq.Safe, d.Visible)
	for _, m := range []map[string]*schema.SubscribedClientDoc{d.RWClients, d.ROClients} {
		keys := make([]string, 0, len(m))
		for k := range m {
			keys = append(keys, k)
		}
		sort.Strings(keys)
		s += " ["
		for _, k := range keys {
			sc := m[k]
			if sc == nil || sc.CP == nil {
				s += k + ":<nil> "
				continue
			}
			s += fmt.Sprintf("%s:%d:%d:%d ", k, sc.CP.Sseq, sc.CP.Cseq, sc.Type)
		}
		s += "]"
	}
	return s + "}"
}

func obsOps(ops model.OpList, sseqs []uint64) string {
	s := fmt.Sprintf("%d[", len(ops))
	for _, q := range sseqs {
		s += fmt.Sprintf("%d,", q)
	}
	s += "]"
	for _, o := range ops {
		s += fmt.Sprintf("|%s:%d:%d:%s:%d:%s", o.OpType.String(), o.ID.Era, o.ID.Lamport, o.ID.CUID, o.ID.Seq, string(o.Body))
	}
	return s
}

func obsSnapshot(sn *schema.SnapshotDoc) string {
	if sn == nil {
		return "<nil>"
	}
	return fmt.Sprintf("{%s %d %s %d %s %s}", sn.ID, sn.CollectionNum, sn.DUID, sn.Sseq, sn.Meta, string(sn.Snapshot))
}

func vfOpDoc(duid string, sseq uint64, colNum int32, cuid string, seq uint64) interface{} {
	op := &model.Operation{ID: &model.OperationID{Era: 0, Lamport: sseq, CUID: cuid, Seq: seq}, OpType: model.TypeOfOperation_COUNTER_INCREASE, Body: []byte(`{"Delta":1}`)}
	return schema.NewOperationDoc(op, duid, sseq, colNum)
}

func vfDatatypeDoc(duid, key string, colNum int32, end uint64, cuid string, s, c uint64) *schema.DatatypeDoc {
	d := schema.NewDatatypeDoc(duid, key, colNum, model.TypeOfDatatype_COUNTER.String())
	d.Sseq.End = end
	if cuid != "" {
		d.RWClients[cuid] = &schema.SubscribedClientDoc{CP: &model.CheckPoint{Sseq: s, Cseq: c}, Type: 1}
	}
	return d
}

// vftRepoScript drives one repository through a fixed script of calls and returns what it observed.
func vftRepoScript(r repoAPI) string {
	ctx := vfCtx()
	out := ""
	// collections and their numbers
	for _, name := range []string{"colA", "colB", "colC"} {
		c, e := r.InsertCollection(ctx, name)
		out += obsErr(e) + obsCollection(c)
	}
	_, e := r.InsertCollection(ctx, "colA")
	out += "dup:" + obsErr(e)
	c, e := r.GetCollection(ctx, "colB")
	out += obsErr(e) + obsCollection(c)
	c, e = r.GetCollection(ctx, "nope")
	out += obsErr(e) + obsCollection(c)
	// clients
	out += obsErr(r.UpdateClient(ctx, &schema.ClientDoc{CUID: "X", Alias: "ax", CollectionNum: 1, Type: 1, SyncType: 2}))
	out += obsErr(r.UpdateClient(ctx, &schema.ClientDoc{CUID: "X", Alias: "ax2", CollectionNum: 1, Type: 1, SyncType: 2}))
	out += obsErr(r.UpdateClient(ctx, &schema.ClientDoc{CUID: "Y", Alias: "ay", CollectionNum: 2}))
	cl, e := r.GetClient(ctx, "X")
	out += obsErr(e) + obsClient(cl)
	cl, e = r.GetClient(ctx, "Z")
	out += obsErr(e) + obsClient(cl)
	out += obsErr(r.DeleteClient(ctx, "Y")) + obsErr(r.DeleteClient(ctx, "Y"))
	// datatypes
	out += obsErr(r.UpdateDatatype(ctx, vfDatatypeDoc("D1", "k1", 1, 0, "X", 0, 0)))
	out += obsErr(r.UpdateDatatype(ctx, vfDatatypeDoc("D2", "k1", 2, 5, "", 0, 0)))
	out += obsErr(r.UpdateDatatype(ctx, vfDatatypeDoc("D1", "k1", 1, 3, "X", 3, 2)))
	d, e := r.GetDatatype(ctx, "D1")
	out += obsErr(e) + obsDatatype(d)
	d, e = r.GetDatatypeByKey(ctx, 2, "k1")
	out += obsErr(e) + obsDatatype(d)
	d, e = r.GetDatatypeByKey(ctx, 3, "k1")
	out += obsErr(e) + obsDatatype(d)
	// operations
	out += obsErr(r.InsertOperations(ctx, []interface{}{vfOpDoc("D1", 1, 1, "X", 1), vfOpDoc("D1", 2, 1, "X", 2), vfOpDoc("D1", 3, 1, "Y", 1)}))
	out += obsErr(r.InsertOperations(ctx, []interface{}{vfOpDoc("D2", 1, 2, "Y", 1)}))
	out += "dup:" + obsErr(r.InsertOperations(ctx, []interface{}{vfOpDoc("D1", 4, 1, "X", 3), vfOpDoc("D1", 2, 1, "X", 2), vfOpDoc("D1", 5, 1, "X", 4)}))
	ops, ss, e := r.GetOperations(ctx, "D1", 1, constants.InfinitySseq)
	out += obsErr(e) + obsOps(ops, ss)
	ops, ss, e = r.GetOperations(ctx, "D1", 3, constants.InfinitySseq)
	out += obsErr(e) + obsOps(ops, ss)
	ops, ss, e = r.GetOperations(ctx, "D9", 1, constants.InfinitySseq)
	out += obsErr(e) + obsOps(ops, ss)
	out += obsErr(r.InsertOperations(ctx, nil))
	// snapshots
	sn, e := r.GetLatestSnapshot(ctx, 1, "D1")
	out += obsErr(e) + obsSnapshot(sn)
	out += obsErr(r.InsertSnapshot(ctx, 1, "D1", 2, []byte("meta2"), []byte(`{"v":2}`)))
	out += obsErr(r.InsertSnapshot(ctx, 1, "D1", 3, []byte("meta3"), []byte(`{"v":3}`)))
	out += obsErr(r.InsertSnapshot(ctx, 2, "D2", 9, []byte("meta9"), []byte(`{"v":9}`)))
	out += "dup:" + obsErr(r.InsertSnapshot(ctx, 1, "D1", 3, []byte("again"), []byte(`{}`)))
	sn, e = r.GetLatestSnapshot(ctx, 1, "D1")
	out += obsErr(e) + obsSnapshot(sn)
	sn, e = r.GetLatestSnapshot(ctx, 2, "D1")
	out += obsErr(e) + obsSnapshot(sn)
	// purge
	out += obsErr(r.PurgeOperations(ctx, 2, "D2"))
	ops, ss, e = r.GetOperations(ctx, "D2", 1, constants.InfinitySseq)
	out += obsErr(e) + obsOps(ops, ss)
	out += obsErr(r.PurgeDatatype(ctx, 1, "k1"))
	d, e = r.GetDatatype(ctx, "D1")
	out += obsErr(e) + obsDatatype(d)
	ops, ss, e = r.GetOperations(ctx, "D1", 1, constants.InfinitySseq)
	out += obsErr(e) + obsOps(ops, ss)
	out += obsErr(r.PurgeAllDocumentsOfCollection(ctx, "colB"))
	d, e = r.GetDatatype(ctx, "D2")
	out += obsErr(e) + obsDatatype(d)
	c, e = r.GetCollection(ctx, "colB")
	out += obsErr(e) + obsCollection(c)
	cl, e = r.GetClient(ctx, "X")
	out += obsErr(e) + obsClient(cl)
	n, e := r.GetNextCollectionNum(ctx)
	out += obsErr(e) + fmt.Sprint(n)
	return out
}

// VFT_RepoReal / VFT_RepoFake: the script on the real repository and on the stand-in.
func VFT_RepoReal() string { return vftRepoScript(VFNewRealRepository()) }
func VFT_RepoFake() string { return vftRepoScript(vffake.NewInMemory()) }

// VF_Repo_ScriptAgrees: the real repository and the stand-in observe the same on the fixed script.
func VF_Repo_ScriptAgrees() {
	a, b := VFT_RepoReal(), VFT_RepoFake()
	vf.Reach("scripts-run")
	if a != b {
		vf.Tag("_real", a)
		vf.Tag("_fake", b)
	}
	vf.Assert(a == b, "the storage stand-in answers the fixed script exactly as the real repository does")
}

// VF_Repo_CollectionNumbers (C17): every collection created through
// MakeCollection gets a number of its own, whatever was created before
// (datatypes, operations and clients are keyed by that number).
func VF_Repo_CollectionNumbers() {
	r := VFNewRealRepository()
	ctx := vfCtx()
	names := []string{"colA", "colB", "colC", "colD"}
	n := 2 + vf.Choice("collections", 3)
	nums := map[int32]string{}
	for i := 0; i < n; i++ {
		num, err := MakeCollection(ctx, r, names[i])
		vf.Assert(err == nil, "C17 creating a collection succeeds")
		other, taken := nums[num]
		if taken {
			vf.Tag("_same-number", other+"/"+names[i])
		}
		vf.Assert(!taken, "C17 two collections never share a collection number")
		nums[num] = names[i]
		// asking again returns the same number and creates nothing
		again, err2 := MakeCollection(ctx, r, names[i])
		vf.Assert(err2 == nil && again == num, "C17 a collection keeps its number")
	}
	vf.Reach("created")
}

// ---- differential harness -----------------------------------------------------

func eqClient(a, b *schema.ClientDoc) bool {
	if a == nil || b == nil {
		return a == nil && b == nil
	}
	return a.CUID == b.CUID && a.Alias == b.Alias && a.CollectionNum == b.CollectionNum && a.Type == b.Type && a.SyncType == b.SyncType
}

func eqCollection(a, b *schema.CollectionDoc) bool {
	if a == nil || b == nil {
		return a == nil && b == nil
	}
	return a.Name == b.Name && a.Num == b.Num
}

func eqSubs(a, b map[string]*schema.SubscribedClientDoc) bool {
	if len(a) != len(b) {
		return false
	}
	for k, x := range a {
		y, ok := b[k]
		if !ok || (x == nil) != (y == nil) {
			return false
		}
		if x == nil {
			continue
		}
		if (x.CP == nil) != (y.CP == nil) || x.Type != y.Type {
			return false
		}
		if x.CP != nil && !vf.All(x.CP.Sseq == y.CP.Sseq, x.CP.Cseq == y.CP.Cseq) {
			return false
		}
	}
	return true
}

func eqDatatype(a, b *schema.DatatypeDoc) bool {
	if a == nil || b == nil {
		return a == nil && b == nil
	}
	return a.DUID == b.DUID && a.Key == b.Key && a.CollectionNum == b.CollectionNum && a.Type == b.Type && a.Visible == b.Visible &&
		vf.All(a.Sseq.Begin == b.Sseq.Begin, a.Sseq.End == b.Sseq.End, a.Sseq.Safe == b.Sseq.Safe) &&
		eqSubs(a.RWClients, b.RWClients) && eqSubs(a.ROClients, b.ROClients)
}

func eqOps(a model.OpList, sa []uint64, b model.OpList, sb []uint64) bool {
	if len(a) != len(b) || len(sa) != len(sb) {
		return false
	}
	for i := range a {
		x, y := a[i], b[i]
		if !vf.All(sa[i] == sb[i], x.ID.Lamport == y.ID.Lamport, x.ID.Seq == y.ID.Seq, x.ID.Era == y.ID.Era) ||
			x.OpType != y.OpType || x.ID.CUID != y.ID.CUID || string(x.Body) != string(y.Body) {
			return false
		}
	}
	return true
}

func eqSnapshot(a, b *schema.SnapshotDoc) bool {
	if a == nil || b == nil {
		return a == nil && b == nil
	}
	return a.CollectionNum == b.CollectionNum && a.DUID == b.DUID && a.Sseq == b.Sseq && a.Meta == b.Meta && string(a.Snapshot) == string(b.Snapshot)
}

// repoStep applies one call, chosen by the engine, to both repositories and compares what they answer.
func repoStep(tag string, r, f repoAPI, sseq func(string) uint64) {
	ctx := vfCtx()
	cuids := []string{"X", "Y"}
	names := []string{"colA", "colB"}
	duids := []string{"D1", "D2"}
	keys := []string{"k1", "k2"}
	call := vf.Choice(tag+".call", 16)
	vf.Tag(tag, call)
	same := func(e1, e2 errors.OrdaError) {
		vf.Assert((e1 == nil) == (e2 == nil), "repository and stand-in agree on success / failure")
	}
	switch call {
	case 0:
		c := &schema.ClientDoc{CUID: cuids[vf.Choice(tag+".cuid", 2)], Alias: "al", CollectionNum: int32(1 + vf.Choice(tag+".col", 2)), Type: 1, SyncType: 2}
		c2 := *c
		same(r.UpdateClient(ctx, c), f.UpdateClient(ctx, &c2))
	case 1:
		cuid := cuids[vf.Choice(tag+".cuid", 2)]
		a, e1 := r.GetClient(ctx, cuid)
		b, e2 := f.GetClient(ctx, cuid)
		same(e1, e2)
		vf.Assert(eqClient(a, b), "GetClient agrees")
	case 2:
		cuid := cuids[vf.Choice(tag+".cuid", 2)]
		same(r.DeleteClient(ctx, cuid), f.DeleteClient(ctx, cuid))
	case 3:
		name := names[vf.Choice(tag+".name", 2)]
		a, e1 := r.InsertCollection(ctx, name)
		b, e2 := f.InsertCollection(ctx, name)
		same(e1, e2)
		vf.Assert(e1 != nil || eqCollection(a, b), "InsertCollection agrees")
	case 4:
		name := names[vf.Choice(tag+".name", 2)]
		a, e1 := r.GetCollection(ctx, name)
		b, e2 := f.GetCollection(ctx, name)
		same(e1, e2)
		vf.Assert(eqCollection(a, b), "GetCollection agrees")
	case 5:
		i := vf.Choice(tag+".duid", 2)
		d1 := vfDatatypeDoc(duids[i], keys[vf.Choice(tag+".key", 2)], int32(1+vf.Choice(tag+".col", 2)), sseq(tag+".end"), "X", sseq(tag+".cps"), sseq(tag+".cpc"))
		d2 := vfDatatypeDoc(d1.DUID, d1.Key, d1.CollectionNum, d1.Sseq.End, "X", d1.RWClients["X"].CP.Sseq, d1.RWClients["X"].CP.Cseq)
		same(r.UpdateDatatype(ctx, d1), f.UpdateDatatype(ctx, d2))
	case 6:
		duid := duids[vf.Choice(tag+".duid", 2)]
		a, e1 := r.GetDatatype(ctx, duid)
		b, e2 := f.GetDatatype(ctx, duid)
		same(e1, e2)
		vf.Assert(eqDatatype(a, b), "GetDatatype agrees")
	case 7:
		col, key := int32(1+vf.Choice(tag+".col", 2)), keys[vf.Choice(tag+".key", 2)]
		a, e1 := r.GetDatatypeByKey(ctx, col, key)
		b, e2 := f.GetDatatypeByKey(ctx, col, key)
		same(e1, e2)
		vf.Assert(eqDatatype(a, b), "GetDatatypeByKey agrees")
	case 8:
		duid := duids[vf.Choice(tag+".duid", 2)]
		n := 1 + vf.Choice(tag+".n", 2)
		var o1, o2 []interface{}
		for i := 0; i < n; i++ {
			s := sseq(tag + ".s" + string(rune('0'+i)))
			o1 = append(o1, vfOpDoc(duid, s, 1, "X", s))
			o2 = append(o2, vfOpDoc(duid, s, 1, "X", s))
		}
		same(r.InsertOperations(ctx, o1), f.InsertOperations(ctx, o2))
	case 9:
		duid := duids[vf.Choice(tag+".duid", 2)]
		from := sseq(tag + ".from")
		a, sa, e1 := r.GetOperations(ctx, duid, from, constants.InfinitySseq)
		b, sb, e2 := f.GetOperations(ctx, duid, from, constants.InfinitySseq)
		same(e1, e2)
		vf.Assert(eqOps(a, sa, b, sb), "GetOperations agrees")
	case 10:
		col, duid := int32(1+vf.Choice(tag+".col", 2)), duids[vf.Choice(tag+".duid", 2)]
		same(r.PurgeOperations(ctx, col, duid), f.PurgeOperations(ctx, col, duid))
	case 11:
		col, duid := int32(1+vf.Choice(tag+".col", 2)), duids[vf.Choice(tag+".duid", 2)]
		s := sseq(tag + ".snap")
		same(r.InsertSnapshot(ctx, col, duid, s, []byte("meta"), []byte(`{"v":1}`)), f.InsertSnapshot(ctx, col, duid, s, []byte("meta"), []byte(`{"v":1}`)))
	case 12:
		col, duid := int32(1+vf.Choice(tag+".col", 2)), duids[vf.Choice(tag+".duid", 2)]
		a, e1 := r.GetLatestSnapshot(ctx, col, duid)
		b, e2 := f.GetLatestSnapshot(ctx, col, duid)
		same(e1, e2)
		vf.Assert(eqSnapshot(a, b), "GetLatestSnapshot agrees")
	case 13:
		col, key := int32(1+vf.Choice(tag+".col", 2)), keys[vf.Choice(tag+".key", 2)]
		same(r.PurgeDatatype(ctx, col, key), f.PurgeDatatype(ctx, col, key))
	case 14:
		name := names[vf.Choice(tag+".name", 2)]
		same(r.PurgeAllDocumentsOfCollection(ctx, name), f.PurgeAllDocumentsOfCollection(ctx, name))
	case 15:
		a, e1 := r.GetNextCollectionNum(ctx)
		b, e2 := f.GetNextCollectionNum(ctx)
		same(e1, e2)
		vf.Assert(a == b, "GetNextCollectionNum agrees")
	}
}

// repoObserve compares everything readable through the API.
func repoObserve(r, f repoAPI) {
	ctx := vfCtx()
	for _, cuid := range []string{"X", "Y"} {
		a, _ := r.GetClient(ctx, cuid)
		b, _ := f.GetClient(ctx, cuid)
		vf.Assert(eqClient(a, b), "final: clients agree")
	}
	for _, name := range []string{"colA", "colB"} {
		a, _ := r.GetCollection(ctx, name)
		b, _ := f.GetCollection(ctx, name)
		vf.Assert(eqCollection(a, b), "final: collections agree")
	}
	for _, duid := range []string{"D1", "D2"} {
		a, _ := r.GetDatatype(ctx, duid)
		b, _ := f.GetDatatype(ctx, duid)
		vf.Assert(eqDatatype(a, b), "final: datatypes agree")
		oa, sa, _ := r.GetOperations(ctx, duid, 0, constants.InfinitySseq)
		ob, sb, _ := f.GetOperations(ctx, duid, 0, constants.InfinitySseq)
		vf.Assert(eqOps(oa, sa, ob, sb), "final: logs agree")
		for col := int32(1); col <= 2; col++ {
			x, _ := r.GetLatestSnapshot(ctx, col, duid)
			y, _ := f.GetLatestSnapshot(ctx, col, duid)
			vf.Assert(eqSnapshot(x, y), "final: latest snapshots agree")
		}
	}
}

// VF_Repo_Equiv: from a populated state, every script of calls with arguments
// from small sets is answered alike by the real repository (on the driver
// model) and by the stand-in that the service-level harnesses run on.
func VF_Repo_Equiv() {
	r, f := repoAPI(VFNewRealRepository()), repoAPI(vffake.NewInMemory())
	ctx := vfCtx()
	small := func(tag string) uint64 {
		v := vf.U64(tag)
		vf.Assume(v < 1<<40)
		return v
	}
	if vf.Choice("populated", 2) == 1 {
		for _, x := range []repoAPI{r, f} {
			_, _ = x.InsertCollection(ctx, "colA")
			_ = x.UpdateClient(ctx, &schema.ClientDoc{CUID: "X", Alias: "al", CollectionNum: 1, Type: 1, SyncType: 2})
			_ = x.UpdateDatatype(ctx, vfDatatypeDoc("D1", "k1", 1, 2, "X", 2, 2))
			_ = x.InsertOperations(ctx, []interface{}{vfOpDoc("D1", 1, 1, "X", 1), vfOpDoc("D1", 2, 1, "X", 2)})
			_ = x.InsertSnapshot(ctx, 1, "D1", 1, []byte("meta"), []byte(`{"v":1}`))
		}
	}
	// two calls at both tiers: scripts of three calls (16^3 scripts, each with symbolic arguments)
	// ran for more than 45 minutes on 16 cores and were taken out of the registered bound
	steps := 2
	for i := 0; i < steps; i++ {
		repoStep("s"+string(rune('0'+i)), r, f, small)
	}
	vf.Reach("scripted")
	repoObserve(r, f)
}
