package mongodb

// Repository level, second part: properties of single repository calls of the
// real server/mongodb code on the driver model, stated from the property text
// (not by comparison with the stand-in).
//  * VF_Repo_LogOrder (C06, C05): GetOperations returns exactly the stored
//    operations of the datatype from the requested sequence number on, in
//    ascending sequence order, also across the 9->10 and 99->100 boundaries.
//  * VF_Repo_UserDocument (C11): after every InsertRealSnapshot the user
//    document of a key is exactly the JSON view handed in plus its version.

import (
	"github.com/orda-io/orda/client/pkg/model"
	"github.com/orda-io/orda/client/pkg/vf"
	"github.com/orda-io/orda/server/constants"
	"github.com/orda-io/orda/server/schema"
	"go.mongodb.org/mongo-driver/bson/primitive"
)

func VF_Repo_LogOrder() {
	r := VFNewRealRepository()
	ctx := vfCtx()
	// the log of D1 starts near a digit-count boundary and is stored in batches,
	// interleaved with another datatype's operations (stored positions are concrete:
	// document ids are strings built from them; the pulled position is symbolic)
	base := uint64(1 + vf.Choice("base", 3))
	switch vf.Choice("boundary", 3) {
	case 1:
		base += 6 // 7..9: crosses 9 -> 10
	case 2:
		base += 95 // 96..98: crosses 99 -> 100
	}
	n := uint64(6)
	var first, second []interface{}
	for s := base; s < base+n; s++ {
		d := vfOpDoc("D1", s, 1, "X", s)
		if s < base+n/2 {
			first = append(first, d)
		} else {
			second = append(second, d)
		}
	}
	vf.Assert(r.InsertOperations(ctx, first) == nil, "C06 storing operations succeeds")
	vf.Assert(r.InsertOperations(ctx, []interface{}{vfOpDoc("D2", base, 1, "Y", 1), vfOpDoc("D2", base+1, 1, "Y", 2)}) == nil, "C06 storing operations succeeds")
	vf.Assert(r.InsertOperations(ctx, second) == nil, "C06 storing operations succeeds")
	from := vf.U64("from")
	vf.Assume(vf.All(from >= base, from <= base+n))
	ops, sseqs, err := r.GetOperations(ctx, "D1", from, constants.InfinitySseq)
	vf.Reach("pulled")
	vf.Assert(err == nil, "C06 the range query succeeds")
	vf.Assert(uint64(len(ops)) == base+n-from && len(sseqs) == len(ops), "C06 the pull returns exactly the stored operations from the requested position on")
	for i := range ops {
		want := from + uint64(i)
		vf.Assert(vf.All(sseqs[i] == want, ops[i].ID.Seq == want, ops[i].ID.CUID == "X"), "C06 pulled operations come in ascending sequence order without gaps")
	}
}

func asU64(v interface{}) (uint64, bool) {
	switch x := v.(type) {
	case uint64:
		return x, true
	case int64:
		return uint64(x), true
	case int32:
		return uint64(x), true
	case int:
		return uint64(x), true
	case float64:
		return uint64(x), true
	}
	return 0, false
}

// vfView is a JSON view of a Map-like datatype: keys a, b, c present or not.
func vfView(tag string) map[string]interface{} {
	m := map[string]interface{}{}
	for _, k := range []string{"a", "b", "c"} {
		kinds := 3
		if k == "c" {
			kinds = 5 // numbers and arrays on one of the keys
		}
		switch vf.Choice(tag+"."+k, kinds) {
		case 1:
			m[k] = tag + "-" + k
		case 2:
			m[k] = map[string]interface{}{"n": tag}
		case 3: // numbers: every number of a datatype is a float64, of any magnitude
			m[k] = []float64{7, 2.5, -3, 1e19, -1e19, 18446744073709551615, 9007199254740993}[vf.Choice(tag+"."+k+".num", 7)]
		case 4:
			m[k] = []interface{}{"x", 1e19, map[string]interface{}{"n": 4.0}}
		}
	}
	return m
}

func viewEq(a, b interface{}) bool {
	// nested documents come back from the driver as primitive.M
	if m, ok := a.(primitive.M); ok {
		a = map[string]interface{}(m)
	}
	if m, ok := b.(primitive.M); ok {
		b = map[string]interface{}(m)
	}
	if l, ok := a.(primitive.A); ok {
		a = []interface{}(l)
	}
	if l, ok := b.(primitive.A); ok {
		b = []interface{}(l)
	}
	switch x := a.(type) {
	case map[string]interface{}:
		y, ok := b.(map[string]interface{})
		if !ok || len(x) != len(y) {
			return false
		}
		for k, v := range x {
			w, ok := y[k]
			if !ok || !viewEq(v, w) {
				return false
			}
		}
		return true
	case []interface{}:
		y, ok := b.([]interface{})
		if !ok || len(x) != len(y) {
			return false
		}
		for i := range x {
			if !viewEq(x[i], y[i]) {
				return false
			}
		}
		return true
	}
	// a number is the same JSON number whichever numeric type carries it
	if fa, ok := asF64(a); ok {
		fb, ok2 := asF64(b)
		return ok2 && fa == fb
	}
	return a == b
}

func asF64(v interface{}) (float64, bool) {
	switch x := v.(type) {
	case float64:
		return x, true
	case float32:
		return float64(x), true
	case int64:
		return float64(x), true
	case int32:
		return float64(x), true
	case int:
		return float64(x), true
	}
	return 0, false
}

func VF_Repo_UserDocument() {
	r := VFNewRealRepository()
	ctx := vfCtx()
	v1, v2 := vf.U64("v1"), vf.U64("v2")
	vf.Assume(vf.All(v1 >= 1, v1 < v2, v2 < 1<<62))
	other := map[string]interface{}{"a": "other"}
	vf.Assert(r.InsertRealSnapshot(ctx, "colA", "k2", other, 7) == nil, "C11 writing the user document succeeds")
	views := []map[string]interface{}{vfView("s1"), vfView("s2")}
	vers := []uint64{v1, v2}
	for i := 0; i < 2; i++ {
		vf.Assert(r.InsertRealSnapshot(ctx, "colA", "k1", views[i], vers[i]) == nil, "C11 writing the user document succeeds")
		got, err := r.GetRealSnapshot(ctx, "colA", "k1")
		vf.Assert(err == nil && got != nil, "C11 the user document is readable")
		ver, ok := asU64(got[Ver])
		vf.Assert(ok && ver == vers[i], "C11 the user document records the version of the state it shows")
		vf.Assert(got["_id"] == "k1", "C11 the user document is kept under the datatype's key")
		rest := map[string]interface{}{}
		for k, v := range got {
			if k != "_id" && k != Ver {
				rest[k] = v
			}
		}
		if !viewEq(rest, views[i]) {
			vf.Tag("_step", i)
		}
		vf.Assert(viewEq(rest, views[i]), "C11 the user document is exactly the JSON view of the state at its version")
	}
	vf.Reach("written")
	o, err := r.GetRealSnapshot(ctx, "colA", "k2")
	vf.Assert(err == nil && o != nil && o["a"] == "other", "C17 another key's user document is untouched")
	missing, err := r.GetRealSnapshot(ctx, "colB", "k1")
	vf.Assert(err == nil && missing == nil, "C17 the same key in another collection is another document")
	// collection names that differ in one character only are different collections
	for _, pair := range [][2]string{{"pay$roll", "pay_roll"}, {"a.b", "a_b"}, {"Col", "col"}} {
		vf.Assert(r.InsertRealSnapshot(ctx, pair[0], "k1", map[string]interface{}{"who": pair[0]}, 1) == nil, "C11 writing the user document succeeds")
		vf.Assert(r.InsertRealSnapshot(ctx, pair[1], "k1", map[string]interface{}{"who": pair[1]}, 2) == nil, "C11 writing the user document succeeds")
		x, e1 := r.GetRealSnapshot(ctx, pair[0], "k1")
		y, e2 := r.GetRealSnapshot(ctx, pair[1], "k1")
		vf.Assert(e1 == nil && e2 == nil && x != nil && y != nil && x["who"] == pair[0] && y["who"] == pair[1], "C17 the same key in two collections names two independent user documents")
	}
}

// VF_Repo_Purge (C17): resetting a collection removes exactly the documents
// that carry its collection number - datatypes, operations (also operations
// whose datatype document is missing: the commit is two writes and may have been
// interrupted between them, C08), snapshots, clients - and nothing of another
// collection.  Which collection each document belongs to is explored exhaustively.
func VF_Repo_Purge() {
	r := VFNewRealRepository()
	ctx := vfCtx()
	_, e1 := r.InsertCollection(ctx, "colA")
	_, e2 := r.InsertCollection(ctx, "colB")
	vf.Assert(e1 == nil && e2 == nil, "C17 creating collections succeeds")
	ca, _ := r.GetCollection(ctx, "colA")
	cb, _ := r.GetCollection(ctx, "colB")
	vf.Assert(ca != nil && cb != nil && ca.Num != cb.Num, "C17 two collections have two numbers")
	nums := []int32{ca.Num, cb.Num}
	// five datatypes' worth of documents; each belongs to colA or colB (solver's choice),
	// and each may lack its datatype document (interrupted creation)
	duids := []string{"D1", "D2", "D3"}
	owner := make([]int32, len(duids))
	hasDoc := make([]bool, len(duids))
	for i, d := range duids {
		owner[i] = nums[vf.Choice(d+".col", 2)]
		hasDoc[i] = vf.Choice(d+".has-datatype-doc", 2) == 1
		if hasDoc[i] {
			vf.Assert(r.UpdateDatatype(ctx, vfDatatypeDoc(d, "k"+d, owner[i], 2, "X", 2, 2)) == nil, "C17 storing succeeds")
		}
		vf.Assert(r.InsertOperations(ctx, []interface{}{vfOpDoc(d, 1, owner[i], "X", 1), vfOpDoc(d, 2, owner[i], "X", 2)}) == nil, "C17 storing succeeds")
		vf.Assert(r.InsertSnapshot(ctx, owner[i], d, 2, []byte("meta"), []byte(`{"v":1}`)) == nil, "C17 storing succeeds")
	}
	for i, c := range []string{"X", "Y"} {
		vf.Assert(r.UpdateClient(ctx, &schema.ClientDoc{CUID: c, Alias: "al", CollectionNum: nums[i], Type: 1, SyncType: 2}) == nil, "C17 storing succeeds")
	}
	vf.Assert(r.PurgeAllDocumentsOfCollection(ctx, "colA") == nil, "C17 reset succeeds")
	vf.Reach("purged")
	for i, d := range duids {
		ops, _, err := r.GetOperations(ctx, d, 1, constants.InfinitySseq)
		dt, err2 := r.GetDatatype(ctx, d)
		sn, err3 := r.GetLatestSnapshot(ctx, owner[i], d)
		vf.Assert(err == nil && err2 == nil && err3 == nil, "C17 reads succeed")
		if owner[i] == ca.Num {
			vf.Assert(len(ops) == 0, "C17 reset removes every operation of that collection")
			vf.Assert(dt == nil, "C17 reset removes every datatype of that collection")
			vf.Assert(sn == nil, "C17 reset removes every snapshot of that collection")
		} else {
			vf.Assert(len(ops) == 2, "C17 reset leaves another collection's operations alone")
			vf.Assert((dt != nil) == hasDoc[i], "C17 reset leaves another collection's datatypes alone")
			vf.Assert(sn != nil, "C17 reset leaves another collection's snapshots alone")
		}
	}
	x, _ := r.GetClient(ctx, "X")
	y, _ := r.GetClient(ctx, "Y")
	vf.Assert(x == nil, "C17 reset removes the clients of that collection")
	vf.Assert(y != nil, "C17 reset leaves another collection's clients alone")
}

// VF_Repo_LogRoundTrip (C14, C06; store part): three consecutive operations
// with independent symbolic identifier fields (era, clock, sequence number,
// client id - zero values included), stored through the real InsertOperations
// and read back by ONE GetOperations call, come back as they were stored, each
// with its own identifier: no field of one operation leaks into the next.
func VF_Repo_LogRoundTrip() {
	r := VFNewRealRepository()
	ctx := vfCtx()
	sseq := vf.U64("sseq")
	vf.Assume(vf.All(sseq >= 1, sseq < 1<<62))
	var want []*model.Operation
	var docs []interface{}
	for i := 0; i < 3; i++ {
		tag := "op" + string(rune('0'+i))
		op := &model.Operation{ID: &model.OperationID{Era: vf.U32(tag + ".era"), Lamport: vf.U64(tag + ".lamport"), CUID: vf.UID(tag + ".cuid"), Seq: vf.U64(tag + ".seq")},
			OpType: model.TypeOfOperation_COUNTER_INCREASE, Body: []byte(`{"Delta":1}`)}
		want = append(want, op)
		docs = append(docs, schema.NewOperationDoc(op, "D1", sseq+uint64(i), 1))
	}
	vf.Assert(r.InsertOperations(ctx, docs) == nil, "C14 storing operations succeeds")
	ops, sseqs, err := r.GetOperations(ctx, "D1", sseq, constants.InfinitySseq)
	vf.Reach("read-back")
	vf.Assert(err == nil && len(ops) == 3 && len(sseqs) == 3, "C06 the stored operations are read back, all of them")
	for i, g := range ops {
		w := want[i]
		vf.Assert(vf.All(g.ID.Era == w.ID.Era, g.ID.Lamport == w.ID.Lamport, g.ID.Seq == w.ID.Seq, g.ID.CUID == w.ID.CUID, sseqs[i] == sseq+uint64(i)),
			"C14 every operation of a pull carries its own identifier, as stored")
	}
}

// VF_Repo_OperationRoundTrip (C14, store part): an operation with symbolic
// identifier fields, any operation type and a body containing unusual
// characters, stored through the real InsertOperations (OperationDoc, BSON
// codec model, driver model) and read back through the real GetOperations,
// is the same operation: identifier, type and body bytes.
func VF_Repo_OperationRoundTrip() {
	r := VFNewRealRepository()
	ctx := vfCtx()
	era, lam, seq := vf.U32("era"), vf.U64("lamport"), vf.U64("seq")
	sseq := vf.U64("sseq")
	vf.Assume(vf.All(sseq >= 1, sseq < 1<<62))
	types := []model.TypeOfOperation{model.TypeOfOperation_COUNTER_SNAPSHOT, model.TypeOfOperation_COUNTER_INCREASE,
		model.TypeOfOperation_MAP_PUT, model.TypeOfOperation_MAP_REMOVE, model.TypeOfOperation_LIST_INSERT, model.TypeOfOperation_LIST_DELETE,
		model.TypeOfOperation_LIST_UPDATE, model.TypeOfOperation_DOC_OBJ_PUT, model.TypeOfOperation_DOC_OBJ_RMV, model.TypeOfOperation_DOC_ARR_INS,
		model.TypeOfOperation_DOC_ARR_DEL, model.TypeOfOperation_DOC_ARR_UPD, model.TypeOfOperation_TRANSACTION, model.TypeOfOperation_ERROR,
		model.TypeOfOperation_DOC_SNAPSHOT}
	typ := types[vf.Choice("type", len(types))]
	bodies := []string{`{"Delta":1}`, `{"K":"q\"b\\s/:~\n\t","V":"ctl\u0007\u000b\u0000\u001c\u007f"}`, "{\"V\":[\"é中\U0001F600\U000E0001\",{}]}", ``}
	body := []byte(bodies[vf.Choice("body", len(bodies))])
	cuid := vf.UID("cuid")
	op := &model.Operation{ID: &model.OperationID{Era: era, Lamport: lam, CUID: cuid, Seq: seq}, OpType: typ, Body: body}
	vf.Assert(r.InsertOperations(ctx, []interface{}{schema.NewOperationDoc(op, "D1", sseq, 1)}) == nil, "C14 storing an operation succeeds")
	ops, sseqs, err := r.GetOperations(ctx, "D1", sseq, constants.InfinitySseq)
	vf.Reach("read-back")
	vf.Assert(err == nil && len(ops) == 1 && len(sseqs) == 1, "C14 the stored operation is read back")
	g := ops[0]
	vf.Assert(vf.All(g.ID.Era == era, g.ID.Lamport == lam, g.ID.Seq == seq, g.ID.CUID == cuid, sseqs[0] == sseq), "C14 the identifier survives the store")
	vf.Assert(g.OpType == typ, "C14 the operation type survives the store")
	vf.Assert(string(g.Body) == string(body), "C14 the body survives the store byte for byte")
}
