package mongodb

// VF_Repo_Concurrent (C17, C12; interleaving): the server handles requests
// concurrently, so two repository calls of different requests overlap: the
// calls of a request for collection A (its datatype by key, its client, its
// collection document, its operations, its reset) run while a request for
// collection B makes the corresponding calls.  Context switches at every
// driver round trip.  Each call must see exactly the documents it asked for.

import (
	"github.com/orda-io/orda/client/pkg/vf"
	"github.com/orda-io/orda/server/constants"
	"github.com/orda-io/orda/server/schema"
)

func VF_Repo_Concurrent() {
	vf.Preemptions(1 + vf.Tier())
	r := VFNewRealRepository()
	ctx := vfCtx()
	_, e1 := r.InsertCollection(ctx, "colA")
	_, e2 := r.InsertCollection(ctx, "colB")
	ca, _ := r.GetCollection(ctx, "colA")
	cb, _ := r.GetCollection(ctx, "colB")
	vf.Assert(e1 == nil && e2 == nil && ca != nil && cb != nil && ca.Num != cb.Num, "C17 two collections have two numbers")
	// the same key in both collections, one client each
	vf.Assert(r.UpdateDatatype(ctx, vfDatatypeDoc("DA", "k", ca.Num, 2, "X", 2, 2)) == nil, "storing succeeds")
	vf.Assert(r.UpdateDatatype(ctx, vfDatatypeDoc("DB", "k", cb.Num, 1, "Y", 1, 1)) == nil, "storing succeeds")
	vf.Assert(r.InsertOperations(ctx, []interface{}{vfOpDoc("DA", 1, ca.Num, "X", 1), vfOpDoc("DA", 2, ca.Num, "X", 2)}) == nil, "storing succeeds")
	vf.Assert(r.InsertOperations(ctx, []interface{}{vfOpDoc("DB", 1, cb.Num, "Y", 1)}) == nil, "storing succeeds")
	vf.Assert(r.UpdateClient(ctx, &schema.ClientDoc{CUID: "X", Alias: "ax", CollectionNum: ca.Num, Type: 1, SyncType: 2}) == nil, "storing succeeds")
	vf.Assert(r.UpdateClient(ctx, &schema.ClientDoc{CUID: "Y", Alias: "ay", CollectionNum: cb.Num, Type: 1, SyncType: 2}) == nil, "storing succeeds")
	kindA, kindB := vf.Choice("call-of-A", 5), vf.Choice("call-of-B", 4)
	vf.Tag("calls", string(rune('0'+kindA))+string(rune('0'+kindB)))
	okA, okB := false, false
	// what a request does for its own collection (name, number, key, datatype id, client id)
	call := func(kind int, name string, num int32, duid, cuid string, nOps int) bool {
		switch kind {
		case 0:
			d, e := r.GetDatatypeByKey(vfCtx(), num, "k")
			return e == nil && d != nil && d.DUID == duid && d.CollectionNum == num
		case 1:
			c, e := r.GetClient(vfCtx(), cuid)
			return e == nil && c != nil && c.CUID == cuid && c.CollectionNum == num
		case 2:
			c, e := r.GetCollection(vfCtx(), name)
			return e == nil && c != nil && c.Name == name && c.Num == num
		case 3:
			ops, sseqs, e := r.GetOperations(vfCtx(), duid, 1, constants.InfinitySseq)
			return e == nil && len(ops) == nOps && len(sseqs) == nOps
		}
		// 4: the collection is reset
		return r.PurgeAllDocumentsOfCollection(vfCtx(), name) == nil
	}
	done := make(chan int, 2)
	go func() { okA = call(kindA, "colA", ca.Num, "DA", "X", 2); done <- 1 }()
	go func() { okB = call(kindB, "colB", cb.Num, "DB", "Y", 1); done <- 2 }()
	<-done
	<-done
	vf.Reach("both-returned")
	vf.Assert(okA, "C17 a call made for collection A sees exactly A's documents, whatever runs at the same moment")
	vf.Assert(okB, "C17 a call made for collection B sees exactly B's documents, whatever runs at the same moment")
	// B is untouched in any case; A is untouched unless it was reset, and then it is gone entirely
	db, _ := r.GetDatatypeByKey(ctx, cb.Num, "k")
	opsB, _, _ := r.GetOperations(ctx, "DB", 1, constants.InfinitySseq)
	y, _ := r.GetClient(ctx, "Y")
	vf.Assert(db != nil && db.DUID == "DB" && len(opsB) == 1 && y != nil, "C17 collection B keeps all its documents")
	da, _ := r.GetDatatypeByKey(ctx, ca.Num, "k")
	opsA, _, _ := r.GetOperations(ctx, "DA", 1, constants.InfinitySseq)
	x, _ := r.GetClient(ctx, "X")
	if kindA == 4 {
		vf.Assert(da == nil && len(opsA) == 0 && x == nil, "C17 a reset removes exactly that collection's documents")
	} else {
		vf.Assert(da != nil && da.DUID == "DA" && len(opsA) == 2 && x != nil, "C17 collection A keeps all its documents")
	}
}
