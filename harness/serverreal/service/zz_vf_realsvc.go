package service

// Service level on the REAL repository: the real OrdaService over the real
// server/mongodb code, which runs on the engine's model of the MongoDB driver
// (natively: on the in-memory deployment of zz_vf_native_mongo.go).  No storage
// stand-in: what these harnesses observe is read back through the repository.
//
// VF_Real_Registration (C16, C17, C13): collections are created through the RPC,
// clients register, one client tries to register in / sync with a collection it
// is not bound to and is refused without any stored change, a datatype is
// created and subscribed through ProcessPushPull, a collection is reset.

import (
	gocontext "context"
	"encoding/json"
	"time"

	mqtt "github.com/eclipse/paho.mqtt.golang"
	"go.mongodb.org/mongo-driver/bson/primitive"
	clientconstants "github.com/orda-io/orda/client/pkg/constants"
	"github.com/orda-io/orda/client/pkg/context"
	"github.com/orda-io/orda/client/pkg/iface"
	"github.com/orda-io/orda/client/pkg/model"
	"github.com/orda-io/orda/client/pkg/vf"
	"github.com/orda-io/orda/server/constants"
	"github.com/orda-io/orda/server/managers"
	"github.com/orda-io/orda/server/mongodb"
	"github.com/orda-io/orda/server/notification"
	"github.com/orda-io/orda/server/redis"
)

type vfTok struct{}

func (vfTok) Wait() bool                     { return true }
func (vfTok) WaitTimeout(time.Duration) bool { return true }
func (vfTok) Done() <-chan struct{}          { return nil }
func (vfTok) Error() error                   { return nil }

type vfMq struct{ published int }

func (m *vfMq) IsConnected() bool       { return true }
func (m *vfMq) IsConnectionOpen() bool  { return true }
func (m *vfMq) Connect() mqtt.Token     { return vfTok{} }
func (m *vfMq) Disconnect(quiesce uint) {}
func (m *vfMq) Publish(topic string, qos byte, retained bool, payload interface{}) mqtt.Token {
	m.published++
	return vfTok{}
}
func (m *vfMq) Subscribe(topic string, qos byte, callback mqtt.MessageHandler) mqtt.Token {
	return vfTok{}
}
func (m *vfMq) SubscribeMultiple(filters map[string]byte, callback mqtt.MessageHandler) mqtt.Token {
	return vfTok{}
}
func (m *vfMq) Unsubscribe(topics ...string) mqtt.Token             { return vfTok{} }
func (m *vfMq) AddRoute(topic string, callback mqtt.MessageHandler) {}
func (m *vfMq) OptionsReader() mqtt.ClientOptionsReader             { return mqtt.ClientOptionsReader{} }

type vfRealWorld struct {
	svc  *OrdaService
	repo *mongodb.RepositoryMongo
	mq   *vfMq
}

func vfNewRealWorld() *vfRealWorld {
	ctx := context.NewOrdaContext(gocontext.TODO(), "vf")
	repo := mongodb.VFNewRealRepository()
	mq := &vfMq{}
	rc, _ := redis.New(ctx, nil)
	mgr := &managers.Managers{Mongo: repo, Notifier: notification.NewNotifierWithClient(mq), Redis: rc}
	return &vfRealWorld{svc: NewOrdaService(mgr), repo: repo, mq: mq}
}

func rctx() iface.OrdaContext { return context.NewOrdaContext(gocontext.TODO(), "vf") }

const (
	rX = "XXXXXXXXXXXXXXXX"
	rY = "YYYYYYYYYYYYYYYY"
	rD = "DDDDDDDDDDDDDDDD"
	rE = "EEEEEEEEEEEEEEEE"
)

func (w *vfRealWorld) register(col, cuid string) error {
	_, err := w.svc.ProcessClient(gocontext.TODO(), &model.ClientMessage{Header: model.NewMessageHeader(model.RequestType_CLIENTS),
		Collection: col, Cuid: cuid, ClientAlias: "al", ClientType: model.ClientType_PERSISTENT, SyncType: model.SyncType_MANUALLY})
	return err
}

func (w *vfRealWorld) pushPull(col, cuid string, ppp *model.PushPullPack) (*model.PushPullPack, error) {
	res, err := w.svc.ProcessPushPull(gocontext.TODO(), &model.PushPullMessage{Header: model.NewMessageHeader(model.RequestType_PUSHPULLS),
		Collection: col, Cuid: cuid, PushPullPacks: []*model.PushPullPack{ppp}})
	if err != nil || res == nil || len(res.PushPullPacks) == 0 {
		return nil, err
	}
	return res.PushPullPacks[0], nil
}

func rOp(cuid string, seq, lamport uint64, snapshot bool) *model.Operation {
	if snapshot {
		return &model.Operation{ID: &model.OperationID{Lamport: lamport, CUID: cuid, Seq: seq}, OpType: model.TypeOfOperation_COUNTER_SNAPSHOT, Body: []byte(`{"Counter":0}`)}
	}
	return &model.Operation{ID: &model.OperationID{Lamport: lamport, CUID: cuid, Seq: seq}, OpType: model.TypeOfOperation_COUNTER_INCREASE, Body: []byte(`{"Delta":1}`)}
}

func hasErrBit(p *model.PushPullPack) bool {
	o := model.PushPullPackOption(p.Option)
	return o.HasErrorBit()
}

func VF_Real_Registration() {
	w := vfNewRealWorld()
	_, e1 := w.svc.CreateCollection(gocontext.TODO(), &model.CollectionMessage{Collection: "colA"})
	_, e2 := w.svc.CreateCollection(gocontext.TODO(), &model.CollectionMessage{Collection: "colB"})
	vf.Assert(e1 == nil && e2 == nil, "C16 creating collections succeeds")
	ca, _ := w.repo.GetCollection(rctx(), "colA")
	cb, _ := w.repo.GetCollection(rctx(), "colB")
	vf.Assert(ca != nil && cb != nil && ca.Num != cb.Num, "C17 two collections have two numbers")
	vf.Assert(w.register("colA", rX) == nil && w.register("colB", rY) == nil, "C16 valid registrations succeed")
	vf.Assert(w.register("colA", rX) == nil, "C16 registering again in one's own collection succeeds")
	// x creates a counter in colA and pushes
	opt := model.PushPullBitNormal
	opt.SetSubscribeBit().SetCreateBit()
	r0, e0 := w.pushPull("colA", rX, &model.PushPullPack{Key: "k", DUID: rD, Option: uint32(opt), Type: model.TypeOfDatatype_COUNTER,
		CheckPoint: &model.CheckPoint{}, Operations: []*model.Operation{rOp(rX, 1, 1, true), rOp(rX, 2, 2, false)}})
	vf.Assert(e0 == nil && r0 != nil && !hasErrBit(r0), "C13 the datatype is created")
	vf.Quiesce()
	// a refused request of x: a collection it is not bound to / that does not exist
	kind := vf.Choice("foreign-request", 4)
	vf.Tag("foreign-request", kind)
	ncol := func() int {
		n := 0
		for _, name := range []string{"colA", "colB", "colC", ""} {
			if c, _ := w.repo.GetCollection(rctx(), name); c != nil {
				n++
			}
		}
		return n
	}
	n0 := ncol()
	var ferr error
	switch kind {
	case 0: // registration in another existing collection
		ferr = w.register("colB", rX)
	case 1: // registration in a collection that does not exist
		ferr = w.register("colC", rX)
	case 2: // push-pull in another collection
		_, ferr = w.pushPull("colB", rX, &model.PushPullPack{Key: "k", DUID: rE, Option: uint32(opt), Type: model.TypeOfDatatype_COUNTER,
			CheckPoint: &model.CheckPoint{}, Operations: []*model.Operation{rOp(rX, 1, 1, true)}})
	case 3: // registration with the empty collection name
		ferr = w.register("", rX)
	}
	vf.Reach("refused")
	vf.Assert(ferr != nil, "C17 a client bound to one collection is refused in any other")
	x, _ := w.repo.GetClient(rctx(), rX)
	vf.Assert(x != nil && x.CollectionNum == ca.Num, "C16/C17 a refused request leaves the client's binding as it was")
	vf.Assert(ncol() == n0, "C16 a refused request creates no collection")
	db, _ := w.repo.GetDatatypeByKey(rctx(), cb.Num, "k")
	vf.Assert(db == nil, "C17 nothing was created in the other collection")
	// x is still served in its own collection, and is still refused in the other
	r1, e1b := w.pushPull("colA", rX, &model.PushPullPack{Key: "k", DUID: rD, Option: uint32(model.PushPullBitNormal), Type: model.TypeOfDatatype_COUNTER,
		CheckPoint: &model.CheckPoint{Sseq: 2, Cseq: 2}, Operations: []*model.Operation{rOp(rX, 3, 3, false)}})
	vf.Assert(e1b == nil && r1 != nil && !hasErrBit(r1) && r1.CheckPoint.Cseq == 3, "C17 the client is still served in its own collection")
	_, e2b := w.pushPull("colB", rX, &model.PushPullPack{Key: "k", DUID: rE, Option: uint32(opt), Type: model.TypeOfDatatype_COUNTER,
		CheckPoint: &model.CheckPoint{}, Operations: []*model.Operation{rOp(rX, 1, 1, true)}})
	vf.Assert(e2b != nil, "C17 ... and still refused in the other")
	vf.Quiesce()
	ops, _, _ := w.repo.GetOperations(rctx(), rD, 1, constants.InfinitySseq)
	vf.Assert(len(ops) == 3, "C06 the log holds exactly the pushed operations")
	// resetting colA removes x and its datatype, and nothing of colB
	_, er := w.svc.ResetCollection(gocontext.TODO(), &model.CollectionMessage{Collection: "colA"})
	vf.Assert(er == nil, "C16 reset succeeds")
	x2, _ := w.repo.GetClient(rctx(), rX)
	y2, _ := w.repo.GetClient(rctx(), rY)
	d2, _ := w.repo.GetDatatype(rctx(), rD)
	vf.Assert(x2 == nil && d2 == nil, "C17 resetting a collection removes its clients and datatypes")
	vf.Assert(y2 != nil && y2.CollectionNum == cb.Num, "C17 ... and nothing of another collection")
}

// VF_Real_LongPull (C05, C06): the far-behind client of VF_C05_LongPull at the
// real-repository tier (raw requests): x pushes constants.OperationBufferSize+3
// operations in three batches; y, subscribed at the start, then sends one request
// that pushes two operations of its own and pulls everything it has missed.  It
// gets every operation of x, in log order; checkpoint and recorded end of log
// equal the number of stored operations; a further push of x is accepted.
func VF_Real_LongPull() {
	w := vfNewRealWorld()
	_, e1 := w.svc.CreateCollection(gocontext.TODO(), &model.CollectionMessage{Collection: "colA"})
	vf.Assert(e1 == nil && w.register("colA", rX) == nil && w.register("colA", rY) == nil, "setup")
	opt := model.PushPullBitNormal
	opt.SetSubscribeBit().SetCreateBit()
	r0, e0 := w.pushPull("colA", rX, &model.PushPullPack{Key: "k", DUID: rD, Option: uint32(opt), Type: model.TypeOfDatatype_COUNTER,
		CheckPoint: &model.CheckPoint{}, Operations: []*model.Operation{rOp(rX, 1, 1, true)}})
	vf.Assert(e0 == nil && r0 != nil && !hasErrBit(r0), "C13 the datatype is created")
	sub := model.PushPullBitNormal
	sub.SetSubscribeBit()
	r1, e1b := w.pushPull("colA", rY, &model.PushPullPack{Key: "k", DUID: rE, Option: uint32(sub), Type: model.TypeOfDatatype_COUNTER, CheckPoint: &model.CheckPoint{}})
	vf.Assert(e1b == nil && r1 != nil && !hasErrBit(r1) && r1.DUID == rD && len(r1.Operations) == 1, "C13 y subscribes and gets the log so far")
	vf.Quiesce()
	n := clientconstants.OperationBufferSize + 3
	seq := uint64(1)
	for batch := 0; batch < 3; batch++ {
		var ops []*model.Operation
		first := seq
		for len(ops) < (n+2)/3 && int(seq) < n+1 {
			seq++
			ops = append(ops, rOp(rX, seq, seq, false))
		}
		rb, eb := w.pushPull("colA", rX, &model.PushPullPack{Key: "k", DUID: rD, Option: uint32(model.PushPullBitNormal), Type: model.TypeOfDatatype_COUNTER,
			CheckPoint: &model.CheckPoint{Sseq: first, Cseq: first}, Operations: ops})
		vf.Assert(eb == nil && rb != nil && !hasErrBit(rb) && rb.CheckPoint.Cseq == seq, "C06 a batch is accepted")
		vf.Quiesce()
	}
	stored := int(seq) // x's operations 1..seq
	ry, ey := w.pushPull("colA", rY, &model.PushPullPack{Key: "k", DUID: rD, Option: uint32(model.PushPullBitNormal), Type: model.TypeOfDatatype_COUNTER,
		CheckPoint: &model.CheckPoint{Sseq: 1, Cseq: 0}, Operations: []*model.Operation{rOp(rY, 1, 5000, false), rOp(rY, 2, 5001, false)}})
	vf.Quiesce()
	vf.Reach("pulled")
	vf.Assert(ey == nil && ry != nil && !hasErrBit(ry), "C16 the far-behind client is served")
	vf.Assert(len(ry.Operations) == stored-1, "C05 one pull returns every operation the client has missed")
	for i, o := range ry.Operations {
		vf.Assert(o.ID.CUID == rX && o.ID.Seq == uint64(i+2), "C05/C06 pulled operations come in log order")
	}
	vf.Assert(ry.CheckPoint.Sseq == uint64(stored+2) && ry.CheckPoint.Cseq == 2, "C06 the checkpoint is (end of log, own stored operations)")
	d, _ := w.repo.GetDatatype(rctx(), rD)
	all, sseqs, _ := w.repo.GetOperations(rctx(), rD, 1, constants.InfinitySseq)
	vf.Assert(d != nil && int(d.Sseq.End) == stored+2 && len(all) == stored+2 && len(sseqs) == stored+2, "C06 the recorded end of the log equals the number of stored operations")
	rz, ez := w.pushPull("colA", rX, &model.PushPullPack{Key: "k", DUID: rD, Option: uint32(model.PushPullBitNormal), Type: model.TypeOfDatatype_COUNTER,
		CheckPoint: &model.CheckPoint{Sseq: seq, Cseq: seq}, Operations: []*model.Operation{rOp(rX, seq+1, 9000, false)}})
	vf.Assert(ez == nil && rz != nil && !hasErrBit(rz) && len(rz.Operations) == 2, "C06 the next push is accepted and pulls y's two operations")
}

// VF_Real_Patch (C19, C11, C18): REST patches at the real-repository tier.  A
// document is created by a first patch (or by a client's push), patched again,
// and after the post-commit work has run the stored snapshot and the user-visible
// document are what the log replays to, at the version they record; each patch
// that stored operations was announced once.
func VF_Real_Patch() {
	w := vfNewRealWorld()
	_, e1 := w.svc.CreateCollection(gocontext.TODO(), &model.CollectionMessage{Collection: "colA"})
	vf.Assert(e1 == nil, "setup")
	targets := []string{`{"a":"1","b":{"c":"x"}}`, `{"a":["p","q"],"n":7}`, `{"a":["p","r","s"],"n":1e19}`, `{}`}
	t1 := targets[vf.Choice("first", 3)]
	t2 := targets[vf.Choice("second", 4)]
	want2 := map[string]interface{}{}
	r1, err1 := w.svc.PatchDocument(gocontext.TODO(), &model.PatchMessage{Collection: "colA", Key: "doc", Json: t1})
	vf.Assert(err1 == nil && r1 != nil, "C19 the first patch creates the document")
	vf.Quiesce()
	r2, err2 := w.svc.PatchDocument(gocontext.TODO(), &model.PatchMessage{Collection: "colA", Key: "doc", Json: t2})
	vf.Assert(err2 == nil && r2 != nil, "C19 the second patch is answered")
	vf.Quiesce()
	vf.Reach("patched")
	vf.Assert(json.Unmarshal([]byte(t2), &want2) == nil, "target parses")
	var got2 map[string]interface{}
	vf.Assert(json.Unmarshal([]byte(r2.Json), &got2) == nil && realViewEq(got2, want2), "C19 the response JSON equals the target")
	ca, _ := w.repo.GetCollection(rctx(), "colA")
	d, _ := w.repo.GetDatatypeByKey(rctx(), ca.Num, "doc")
	vf.Assert(d != nil, "C19 the document exists")
	ops, sseqs, _ := w.repo.GetOperations(rctx(), d.DUID, 1, constants.InfinitySseq)
	vf.Assert(uint64(len(ops)) == d.Sseq.End && len(sseqs) == len(ops), "C06 the log is as long as its recorded end")
	for i, s := range sseqs {
		vf.Assert(s == uint64(i+1), "C06 server sequence numbers 1..n without gaps")
	}
	snap, _ := w.repo.GetLatestSnapshot(rctx(), ca.Num, d.DUID)
	vf.Assert(snap != nil && snap.Sseq == d.Sseq.End, "C11 the stored snapshot is at the end of the log")
	user, _ := w.repo.GetRealSnapshot(rctx(), "colA", "doc")
	vf.Assert(user != nil, "C11 the user-visible document exists")
	ver, _ := user[mongodb.Ver]
	delete(user, "_id")
	delete(user, mongodb.Ver)
	vf.Assert(realViewEq(user, want2), "C11/C19 the user-visible document equals the target of the last patch")
	vf.Assert(realNum(ver) == float64(d.Sseq.End), "C11 the user-visible document records the version it shows")
	changed := 1
	if !realViewEq(parse(t1), want2) {
		changed = 2
	}
	vf.Assert(w.mq.published == changed, "C18 each patch that stored operations is announced exactly once")
}

func parse(s string) map[string]interface{} {
	m := map[string]interface{}{}
	_ = json.Unmarshal([]byte(s), &m)
	return m
}

func realNum(v interface{}) float64 {
	switch x := v.(type) {
	case float64:
		return x
	case int64:
		return float64(x)
	case int32:
		return float64(x)
	case uint64:
		return float64(x)
	}
	return -1
}

// realViewEq: JSON views are equal (documents come back from the driver as primitive.M / primitive.A).
func realViewEq(a, b interface{}) bool {
	if m, ok := a.(primitive.M); ok {
		a = map[string]interface{}(m)
	}
	if m, ok := b.(primitive.M); ok {
		b = map[string]interface{}(m)
	}
	if l, ok := a.(primitive.A); ok {
		a = []interface{}(l)
	}
	if l, ok := b.(primitive.A); ok {
		b = []interface{}(l)
	}
	switch x := a.(type) {
	case map[string]interface{}:
		y, ok := b.(map[string]interface{})
		if !ok || len(x) != len(y) {
			return false
		}
		for k, v := range x {
			w, ok := y[k]
			if !ok || !realViewEq(v, w) {
				return false
			}
		}
		return true
	case []interface{}:
		y, ok := b.([]interface{})
		if !ok || len(x) != len(y) {
			return false
		}
		for i := range x {
			if !realViewEq(x[i], y[i]) {
				return false
			}
		}
		return true
	}
	if fa := realNum(a); fa != -1 {
		return realNum(b) == fa
	}
	return a == b
}
