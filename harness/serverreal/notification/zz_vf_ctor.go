package notification

import mqtt "github.com/eclipse/paho.mqtt.golang"

// NewNotifierWithClient (verification overlay, add-only): builds the real
// Notifier around a caller-supplied mqtt.Client.
func NewNotifierWithClient(c mqtt.Client) *Notifier { return &Notifier{mqttClient: c} }
