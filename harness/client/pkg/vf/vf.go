// Package vf is the harness API of the /verif solver-based checks.
//
// Under the symbolic engine (gosym) every function below is intercepted:
// inputs become SMT variables, Assume/Assert become solver queries.  Compiled
// natively the same functions replay one recorded counterexample (file named
// by $VF_REPLAY) so that a solver model can be confirmed against the real
// build.  This file is injected by overlay; it is never written into /repo.
package vf

import (
	"context"
	"encoding/json"
	"fmt"
	"os"
	"strconv"
	"time"
)

type input struct {
	Name  string `json:"name"`
	Kind  string `json:"kind"`
	Value string `json:"value"`
}

type replayFile struct {
	Harness string  `json:"harness"`
	Label   string  `json:"label"`
	Inputs  []input `json:"inputs"`
}

var (
	rf          *replayFile
	cursor      int
	clockCursor int
	lastClock   int64
)

// Vacuous is panicked when a replayed input violates an assumption.
type Vacuous struct{ Why string }

// Failed is panicked when an assertion fails during a native replay.
type Failed struct{ Label string }

func load() {
	if rf != nil {
		return
	}
	rf = &replayFile{}
	p := os.Getenv("VF_REPLAY")
	if p == "" {
		panic("vf: native execution needs $VF_REPLAY")
	}
	b, err := os.ReadFile(p)
	if err != nil {
		panic(err)
	}
	if err := json.Unmarshal(b, rf); err != nil {
		panic(err)
	}
}

func next(name, kind string) string {
	load()
	for cursor < len(rf.Inputs) && rf.Inputs[cursor].Kind == "clock" {
		cursor++ // clock readings are a stream of their own (ReplayNow)
	}
	if cursor >= len(rf.Inputs) {
		panic(Vacuous{"replay ran out of recorded inputs at " + name})
	}
	in := rf.Inputs[cursor]
	cursor++
	if in.Name != name {
		panic(Vacuous{fmt.Sprintf("replay divergence: recorded %q, asked %q", in.Name, name)})
	}
	return in.Value
}

// Reset restarts the replay cursor (used by the native replay driver).
func Reset() { rf = nil; cursor = 0; clockCursor = 0; lastClock = 0 }

// SymbolicClock makes every time.Now() of the code under test an arbitrary
// instant not earlier than the previous one (engine); natively the recorded
// instants are replayed through ReplayNow.
func SymbolicClock() {}

// ReplayNow is what the replay build calls instead of time.Now() in the server
// packages when the counterexample contains clock readings: the next recorded
// instant (the last one again when the recording is exhausted).
func ReplayNow() time.Time {
	load()
	for clockCursor < len(rf.Inputs) && rf.Inputs[clockCursor].Kind != "clock" {
		clockCursor++
	}
	if clockCursor < len(rf.Inputs) {
		v, _ := strconv.ParseInt(rf.Inputs[clockCursor].Value, 10, 64)
		clockCursor++
		lastClock = v
	}
	if lastClock == 0 {
		return time.Now()
	}
	return time.Unix(0, lastClock)
}

func U64(name string) uint64 { v, _ := strconv.ParseUint(next(name, "u64"), 10, 64); return v }
func U32(name string) uint32 { v, _ := strconv.ParseUint(next(name, "u32"), 10, 32); return uint32(v) }
// NatU64/NatU32 are like U64/U32 but encoded as mathematical integers: use them
// for values that are only compared and formatted (decimal digits), not
// bit-manipulated.
func NatU64(name string) uint64 { return U64(name) }
func NatU32(name string) uint32 { return U32(name) }
func U8(name string) uint8   { v, _ := strconv.ParseUint(next(name, "u8"), 10, 8); return uint8(v) }
func I32(name string) int32  { v, _ := strconv.ParseInt(next(name, "i32"), 10, 32); return int32(v) }
func I64(name string) int64  { v, _ := strconv.ParseInt(next(name, "i64"), 10, 64); return v }
func F64(name string) float64 {
	v, _ := strconv.ParseFloat(next(name, "f64"), 64)
	return v
}
func Bool(name string) bool { return next(name, "bool") == "true" }
func Str(name string) string { return next(name, "str") }

// UID is a symbolic 16-byte identifier (client id); recorded as 32 hex digits.
func UID(name string) string {
	h := next(name, "uid")
	b := make([]byte, 0, 16)
	for i := 0; i+1 < len(h); i += 2 {
		v, _ := strconv.ParseUint(h[i:i+2], 16, 8)
		b = append(b, byte(v))
	}
	return string(b)
}

// Int is a symbolic int in [lo, hi].
func Int(name string, lo, hi int) int {
	v, _ := strconv.ParseInt(next(name, "int"), 10, 64)
	if int(v) < lo || int(v) > hi {
		panic(Vacuous{"Int out of range " + name})
	}
	return int(v)
}

// Choice is a concrete value in [0, n): the engine explores every value.
func Choice(name string, n int) int {
	v, _ := strconv.Atoi(next(name, "choice"))
	return v
}

func Assume(c bool) {
	if !c {
		panic(Vacuous{"assumption false"})
	}
}

func Assert(c bool, label string) {
	if !c {
		panic(Failed{label})
	}
}

// All/Any/Not/Implies are non-short-circuit boolean connectives: under the
// engine they build one term instead of forking the path per operand.
func All(cs ...bool) bool {
	for _, c := range cs {
		if !c {
			return false
		}
	}
	return true
}
func Any(cs ...bool) bool {
	for _, c := range cs {
		if c {
			return true
		}
	}
	return false
}
func Not(c bool) bool           { return !c }
func Implies(a, b bool) bool    { return !a || b }
func Pure(fn string)            {}
func Reach(label string)        {}
func Tag(key string, val any)   {}
func Quiesce()                  { quiesceNative() }
func Symbolic() bool            { return false }
func HashAbstract(on bool)      {}
func PermuteMaps(fn string)     {}
func Preemptions(n int)         {}
func PreemptIn(fn string)       {}

// NoSlowHolders switches the model's "a lock holder is slower than the lease" decision off.
func NoSlowHolders() {}
func Yield()                    { yieldNative() }

// RealFormatting: the formatting helpers of log lines (ToString of messages, packs,
// operations), which the engine normally skips, are executed from here on: a crash
// inside them is a crash of the request.  Their results are still not looked at.
func RealFormatting() {}

// Busy: the caller is busy for a while (a critical section that takes longer than a
// retry delay of somebody waiting for it).  Engine: a scheduling point.  Native: 400 ms.
func Busy() { busyNative() }

// Slow makes the caller take longer than the server's lock lease (native demonstrations only).
func Slow() { slowNative() }
func Concretize(x int) int      { return x }
func ConcretizeU64(x uint64) uint64 { return x }
func IsConcrete(x any) bool     { return true }
func Log(x any)                 {}

// Tier is 0 for quick and 1 for thorough bounds.
func Tier() int {
	if os.Getenv("VF_TIER") == "1" {
		return 1
	}
	return 0
}

// Try runs f and reports whether it panicked (ordinary Go code: executed by
// the engine like any other function).
func Try(f func()) (panicked bool, msg string) {
	defer func() {
		if r := recover(); r != nil {
			switch r.(type) {
			case Vacuous, Failed:
				panic(r)
			}
			panicked = true
			msg = fmt.Sprint(r)
		}
	}()
	f()
	return false, ""
}

// ---------------------------------------------------------------------
// Cancellable contexts.  Natively these are the standard library's; under the
// engine context.WithCancel/WithTimeout are routed to the small model below
// (a timeout "fires" only when nothing else can make progress).

type Ctx struct {
	Parent    context.Context
	Cancelled bool
	ch        chan struct{}
}

func (c *Ctx) Deadline() (time.Time, bool) { return time.Time{}, false }
func (c *Ctx) Done() <-chan struct{}       { return c.ch }
func (c *Ctx) Err() error {
	if c.Cancelled {
		return context.Canceled
	}
	if c.Parent != nil {
		return c.Parent.Err()
	}
	return nil
}
func (c *Ctx) Value(key any) any {
	if c.Parent != nil {
		return c.Parent.Value(key)
	}
	return nil
}

// ModelWithCancel is what the engine substitutes for context.WithCancel / WithTimeout.
func ModelWithCancel(parent context.Context) (context.Context, context.CancelFunc) {
	c := &Ctx{Parent: parent, ch: make(chan struct{})}
	return c, func() {
		if !c.Cancelled {
			c.Cancelled = true
			close(c.ch)
		}
	}
}

// WithCancel is context.WithCancel (for harnesses that model a request context
// which the transport cancels when the call returns).
func WithCancel(parent context.Context) (context.Context, context.CancelFunc) {
	return context.WithCancel(parent)
}
