package vf

import (
	"runtime"
	"sync/atomic"
	"time"
)

func quiesceNative() { time.Sleep(20 * time.Millisecond) }

func yieldNative() { runtime.Gosched() }

func slowNative() { time.Sleep(6 * time.Second) }

func busyNative() { time.Sleep(400 * time.Millisecond) }

var yieldSeed uint64 = 88172645463325252

// NativeYield is what the replay build inserts before every statement of the
// packages under an interleaving exploration: a scheduling point, sometimes a
// short sleep, so that the windows between two statements are wide enough for
// the native scheduler to hit the interleaving the engine found.
func NativeYield() {
	x := atomic.AddUint64(&yieldSeed, 0x9E3779B97F4A7C15)
	x ^= x >> 31
	x *= 0xBF58476D1CE4E5B9
	x ^= x >> 29
	switch {
	case x%16 == 0:
		time.Sleep(time.Duration(1+x%40) * time.Microsecond)
	case x%2 == 0:
		runtime.Gosched()
	}
}
