package vf

import "time"

func quiesceNative() { time.Sleep(20 * time.Millisecond) }
