package vf

import (
	"runtime"
	"time"
)

func quiesceNative() { time.Sleep(20 * time.Millisecond) }

func yieldNative() { runtime.Gosched() }

func slowNative() { time.Sleep(6 * time.Second) }
