package model

import "github.com/orda-io/orda/client/pkg/vf"

func vfTS(tag string) *Timestamp {
	t := &Timestamp{Era: vf.U32(tag + ".era"), Lamport: vf.U64(tag + ".lamport"), CUID: vf.UID(tag + ".cuid"), Delimiter: vf.U32(tag + ".delim")}
	// counting clocks never come near the wrap-around distance (stated bound)
	vf.Assume(t.Lamport < 1<<62 && t.Era < 1<<30)
	return t
}

func sgn(x int) int {
	if x > 0 {
		return 1
	}
	if x < 0 {
		return -1
	}
	return 0
}

// VF_C15_CompareOrder: Timestamp.Compare is a strict total order on (era, lamport, cuid).
func VF_C15_CompareOrder() {
	a, b, c := vfTS("a"), vfTS("b"), vfTS("c")
	ab, ba, bc, ac := a.Compare(b), b.Compare(a), b.Compare(c), a.Compare(c)
	vf.Reach("compared")
	same := a.Era == b.Era && a.Lamport == b.Lamport && a.CUID == b.CUID
	vf.Assert(a.Compare(a) == 0, "irreflexive")
	vf.Assert((ab == 0) == same, "zero iff same (era,lamport,cuid)")
	vf.Assert(sgn(ab) == -sgn(ba), "antisymmetric")
	if ab < 0 && bc < 0 {
		vf.Reach("chain")
		vf.Assert(ac < 0, "transitive")
	}
	if ab <= 0 && bc <= 0 {
		vf.Assert(ac <= 0, "transitive-weak")
	}
}

func pow10(n int) uint64 {
	r := uint64(1)
	for i := 0; i < n; i++ {
		r *= 10
	}
	return r
}

// digits64/digits32 return a symbolic value with exactly d decimal digits (the
// case split that keeps the string solver fast).
func digits64(tag string, maxDigits int) uint64 {
	d := 1 + vf.Choice(tag+".digits", maxDigits)
	x := vf.NatU64(tag)
	lo := pow10(d - 1)
	if d == 1 {
		lo = 0
	}
	vf.Assume(vf.All(x >= lo, x < pow10(d)))
	return x
}

func digits32(tag string, maxDigits int) uint32 {
	d := 1 + vf.Choice(tag+".digits", maxDigits)
	x := vf.NatU32(tag)
	lo := uint32(pow10(d - 1))
	if d == 1 {
		lo = 0
	}
	vf.Assume(vf.All(x >= lo, x < uint32(pow10(d))))
	return x
}

// VF_C15_HashInjective: two timestamps with the same Hash() are the same
// timestamp.  The real Hash (format string and all) is executed; %d of a
// symbolic integer becomes str.from_int.
func VF_C15_HashInjective() {
	ld, dd := 4, 3
	if vf.Tier() == 1 {
		ld, dd = 7, 4
	}
	mk := func(tag string) *Timestamp {
		return &Timestamp{
			Era:       digits32(tag+".era", 1),
			Lamport:   digits64(tag+".lamport", ld),
			CUID:      vf.Str(tag + ".cuid"),
			Delimiter: digits32(tag+".delim", dd),
		}
	}
	a, b := mk("a"), mk("b")
	vf.Assume(vf.All(len(a.CUID) == 16, len(b.CUID) == 16))
	ha, hb := a.Hash(), b.Hash()
	vf.Reach("hashed")
	same := vf.All(a.Era == b.Era, a.Lamport == b.Lamport, a.Delimiter == b.Delimiter, a.CUID == b.CUID)
	vf.Assert(vf.Implies(ha == hb, same), "C15 Hash is injective")
}

// VF_C15_Clock: one step of the logical clock / sequence counter from an
// arbitrary state (L4).
func VF_C15_Clock() {
	id := &OperationID{Era: 0, Lamport: vf.U64("lamport"), CUID: vf.UID("cuid"), Seq: vf.U64("seq")}
	vf.Assume(vf.All(id.Lamport < 1<<62, id.Seq < 1<<62))
	l0, s0 := id.Lamport, id.Seq
	switch vf.Choice("step", 4) {
	case 0: // local operation
		n := id.Next()
		vf.Reach("next")
		vf.Assert(vf.All(n.Seq == s0+1, id.Seq == s0+1), "C15 sequence numbers increase by one")
		vf.Assert(vf.All(n.Lamport > l0, n.Lamport == id.Lamport), "C15 clock increases on a local operation")
		vf.Assert(n.CUID == id.CUID, "C15 identifier carries the client id")
	case 1: // failed local operation: identifier consumed then rolled back
		_ = id.Next()
		id.RollBack()
		vf.Reach("rollback")
		vf.Assert(vf.All(id.Lamport == l0, id.Seq == s0), "C15 rollback restores clock and sequence")
	case 2: // remote operation applied, then a local one
		other := vf.U64("remote.lamport")
		vf.Assume(other < 1<<62)
		r := id.SyncLamport(other)
		vf.Assert(vf.All(r == id.Lamport, id.Seq == s0), "C15 sync does not touch the sequence")
		vf.Assert(vf.All(id.Lamport >= other, id.Lamport >= l0), "C15 clock never decreases on sync")
		n := id.Next()
		vf.Reach("sync")
		vf.Assert(vf.All(n.Lamport > other, n.Lamport > l0), "C15 next local identifier is ordered after every applied operation")
		ts := n.GetTimestamp()
		rts := &Timestamp{Era: 0, Lamport: other, CUID: vf.UID("remote.cuid")}
		vf.Assert(ts.Compare(rts) > 0, "C15 new local timestamp compares greater than the applied one")
	case 3: // delimiters inside one operation are distinct and increasing
		ts := &Timestamp{Era: 0, Lamport: l0, CUID: id.CUID, Delimiter: vf.U32("delim")}
		vf.Assume(ts.Delimiter < 0xfffffffe)
		a := ts.GetAndNextDelimiter()
		b := ts.GetAndNextDelimiter()
		c := ts.Clone()
		vf.Reach("delim")
		vf.Assert(vf.All(b.Delimiter == a.Delimiter+1, c.Delimiter == a.Delimiter+2, a.Delimiter != b.Delimiter), "C15 delimiters of one batch are distinct")
		vf.Assert(vf.All(a.Lamport == l0, b.Lamport == l0, a.CUID == id.CUID), "C15 batch elements share the operation's clock and client")
	}
}

// VF_C15_CompareAlphabet (C15, C02): the tie-break of equal clocks is the
// byte-wise order of the client identifiers.  Identifiers are 16 characters of
// an alphabet that mixes letter cases, digits and punctuation, so any
// normalisation of the identifiers (case folding, trimming, collation) changes
// the order or merges distinct clients.  Concrete pairs built from one
// character of each class at the first, a middle and the last position; era and
// clock symbolic and equal.
func VF_C15_CompareAlphabet() {
	classes := []byte{'-', '0', '9', 'A', 'Z', '_', 'a', 'z', ' ', '~'}
	pos := []int{0, 7, 15}[vf.Choice("position", 3)]
	ca, cb := classes[vf.Choice("a.class", len(classes))], classes[vf.Choice("b.class", len(classes))]
	mk := func(c byte) string {
		b := []byte("mmmmmmmmmmmmmmmm")
		b[pos] = c
		return string(b)
	}
	era, lam := vf.U32("era"), vf.U64("lamport")
	x := &Timestamp{Era: era, Lamport: lam, CUID: mk(ca), Delimiter: 0}
	y := &Timestamp{Era: era, Lamport: lam, CUID: mk(cb), Delimiter: 0}
	ox := &OperationID{Era: era, Lamport: lam, CUID: mk(ca)}
	oy := &OperationID{Era: era, Lamport: lam, CUID: mk(cb)}
	want := 0
	if ca < cb {
		want = -1
	} else if ca > cb {
		want = 1
	}
	vf.Reach("compared")
	vf.Assert(sgn(x.Compare(y)) == want, "C15 equal clocks are ordered by the byte-wise order of the client identifiers (timestamps)")
	vf.Assert(sgn(ox.Compare(oy)) == want, "C15 equal clocks are ordered by the byte-wise order of the client identifiers (operation ids)")
}

// VF_C15_ClockMagnitudes (C15): the clock step at the magnitudes where machine
// arithmetic changes character - around the 31/32-bit limits, around 2^53 (the
// end of exact float64 integers) and around the 62/63-bit limits - for every
// pair (local clock, remote clock) taken from those neighbourhoods.  Concrete
// values (the symbolic VF_C15_Clock covers the whole range while the step is
// integer arithmetic; this one stays fast whatever arithmetic the step uses).
func VF_C15_ClockMagnitudes() {
	centres := []uint64{0, 1 << 31, 1 << 32, 1 << 53, 1 << 62}
	pick := func(tag string) uint64 {
		c := centres[vf.Choice(tag+".centre", len(centres))]
		d := vf.Choice(tag+".offset", 5) // -2 .. +2
		if c == 0 && d < 2 {
			vf.Assume(false)
		}
		return c + uint64(d) - 2
	}
	l0, other := pick("local"), pick("remote")
	id := &OperationID{Era: 0, Lamport: l0, CUID: "AAAAAAAAAAAAAAAA", Seq: 7}
	r := id.SyncLamport(other)
	vf.Reach("sync")
	vf.Assert(r == id.Lamport && id.Seq == 7, "C15 sync does not touch the sequence")
	vf.Assert(id.Lamport >= other && id.Lamport >= l0, "C15 clock never decreases on sync")
	n := id.Next()
	vf.Assert(n.Lamport > other && n.Lamport > l0, "C15 next local identifier is ordered after every applied operation")
	m := id.Next()
	vf.Assert(m.Lamport > n.Lamport && m.Seq == n.Seq+1, "C15 two operations of one client never share an identifier")
	rts := &Timestamp{Era: 0, Lamport: other, CUID: "ZZZZZZZZZZZZZZZZ"}
	vf.Assert(n.GetTimestamp().Compare(rts) > 0 && rts.Compare(n.GetTimestamp()) < 0, "C15 new local timestamp compares greater than the applied one")
	x := &OperationID{Era: 0, Lamport: l0, CUID: "AAAAAAAAAAAAAAAA"}
	y := &OperationID{Era: 0, Lamport: other, CUID: "AAAAAAAAAAAAAAAA"}
	want := 0
	if l0 < other {
		want = -1
	} else if l0 > other {
		want = 1
	}
	vf.Assert(sgn(x.Compare(y)) == want, "C15 identifiers of one client are ordered by their clocks")
}
