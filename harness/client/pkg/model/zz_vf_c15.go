package model

import "github.com/orda-io/orda/client/pkg/vf"

func vfTS(tag string) *Timestamp {
	t := &Timestamp{Era: vf.U32(tag + ".era"), Lamport: vf.U64(tag + ".lamport"), CUID: vf.UID(tag + ".cuid"), Delimiter: vf.U32(tag + ".delim")}
	// counting clocks never come near the wrap-around distance (stated bound)
	vf.Assume(t.Lamport < 1<<62 && t.Era < 1<<30)
	return t
}

func sgn(x int) int {
	if x > 0 {
		return 1
	}
	if x < 0 {
		return -1
	}
	return 0
}

// VF_C15_CompareOrder: Timestamp.Compare is a strict total order on (era, lamport, cuid).
func VF_C15_CompareOrder() {
	a, b, c := vfTS("a"), vfTS("b"), vfTS("c")
	ab, ba, bc, ac := a.Compare(b), b.Compare(a), b.Compare(c), a.Compare(c)
	vf.Reach("compared")
	same := a.Era == b.Era && a.Lamport == b.Lamport && a.CUID == b.CUID
	vf.Assert(a.Compare(a) == 0, "irreflexive")
	vf.Assert((ab == 0) == same, "zero iff same (era,lamport,cuid)")
	vf.Assert(sgn(ab) == -sgn(ba), "antisymmetric")
	if ab < 0 && bc < 0 {
		vf.Reach("chain")
		vf.Assert(ac < 0, "transitive")
	}
	if ab <= 0 && bc <= 0 {
		vf.Assert(ac <= 0, "transitive-weak")
	}
}
