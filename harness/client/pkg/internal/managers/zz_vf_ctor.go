package managers

import (
	mqtt "github.com/eclipse/paho.mqtt.golang"
	"github.com/orda-io/orda/client/pkg/context"
	"github.com/orda-io/orda/client/pkg/model"
)

// NewSyncManagerWithService (verification overlay, add-only): a SyncManager
// whose RPCs go to the given service client instead of a dialled connection.
func NewSyncManagerWithService(ctx *context.ClientContext, client *model.Client, svc model.OrdaServiceClient) *SyncManager {
	return &SyncManager{ctx: ctx, client: client, serviceClient: svc}
}

// NewSyncManagerWithServiceAndNotifier (verification overlay, add-only): as
// above, plus the real NotifyManager around a caller-supplied mqtt.Client with
// its notification loop running (what Connect does for realtime clients).
func NewSyncManagerWithServiceAndNotifier(ctx *context.ClientContext, client *model.Client, svc model.OrdaServiceClient, mq mqtt.Client) *SyncManager {
	nm := &NotifyManager{client: mq, ctx: ctx, channel: make(chan *notificationMsg)}
	go nm.notificationLoop()
	return &SyncManager{ctx: ctx, client: client, serviceClient: svc, notifyManager: nm}
}
