package managers

import (
	"github.com/orda-io/orda/client/pkg/context"
	"github.com/orda-io/orda/client/pkg/model"
)

// NewSyncManagerWithService (verification overlay, add-only): a SyncManager
// whose RPCs go to the given service client instead of a dialled connection.
func NewSyncManagerWithService(ctx *context.ClientContext, client *model.Client, svc model.OrdaServiceClient) *SyncManager {
	return &SyncManager{ctx: ctx, client: client, serviceClient: svc}
}
