package managers

// VF_C18_NotifyBurst (C18; interleaving): the client's notification path under
// a burst.  The broker hands several notifications of one topic to the real
// NotifyManager (each in a goroutine of its own, as the MQTT router does) while
// its loop is busy delivering an earlier one to a slow receiver.  None may be
// lost for good: in particular the newest announcement (greatest sseq) must
// reach the receiver, and so must a foreign one that queues behind the client's
// own - otherwise a realtime client that only performs local operations stays
// behind the log for ever.

import (
	gocontext "context"
	"encoding/json"

	mqtt "github.com/eclipse/paho.mqtt.golang"
	"github.com/orda-io/orda/client/pkg/context"
	"github.com/orda-io/orda/client/pkg/model"
	"github.com/orda-io/orda/client/pkg/vf"
)

type vfNote struct {
	topic   string
	payload []byte
}

func (m *vfNote) Duplicate() bool   { return false }
func (m *vfNote) Qos() byte         { return 0 }
func (m *vfNote) Retained() bool    { return false }
func (m *vfNote) Topic() string     { return m.topic }
func (m *vfNote) MessageID() uint16 { return 0 }
func (m *vfNote) Payload() []byte   { return m.payload }
func (m *vfNote) Ack()              {}

var _ mqtt.Message = (*vfNote)(nil)

type vfReceiver struct {
	got []model.Notification
}

func (r *vfReceiver) ReceiveNotification(topic string, n model.Notification) {
	r.got = append(r.got, n)
	vf.Yield() // handling a notification takes time (a sync round trip)
}

func VF_C18_NotifyBurst() {
	vf.Preemptions(2)
	cm := &model.Client{CUID: "MMMMMMMMMMMMMMMM", Collection: "col", SyncType: model.SyncType_REALTIME}
	ctx := context.NewClientContext(gocontext.TODO(), cm)
	nm := &NotifyManager{ctx: ctx, channel: make(chan *notificationMsg)}
	recv := &vfReceiver{}
	nm.SetReceiver(recv)
	go nm.notificationLoop()
	n := 3
	// who caused each notification: the middle one may be the client's own push
	ownMiddle := vf.Choice("own-middle", 2) == 1
	done := make(chan int, n)
	for i := 1; i <= n; i++ {
		cuid := "OOOOOOOOOOOOOOOO"
		if ownMiddle && i == 2 {
			cuid = cm.CUID
		}
		b, _ := json.Marshal(&model.Notification{CUID: cuid, DUID: "DDDDDDDDDDDDDDDD", Sseq: uint64(i)})
		msg := &vfNote{topic: "col/key1", payload: b}
		go func() { nm.notificationSubscribeFunc(nil, msg); done <- 1 }()
	}
	for i := 0; i < n; i++ {
		<-done
	}
	vf.Quiesce()
	vf.Reach("delivered")
	maxAll, maxForeign := uint64(0), uint64(0)
	for _, g := range recv.got {
		if g.Sseq > maxAll {
			maxAll = g.Sseq
		}
		if g.CUID != cm.CUID && g.Sseq > maxForeign {
			maxForeign = g.Sseq
		}
	}
	vf.Assert(maxAll == uint64(n), "C18 the newest announcement of a burst reaches the client")
	vf.Assert(maxForeign == uint64(n), "C18 a foreign announcement is not lost behind the client's own")
}
