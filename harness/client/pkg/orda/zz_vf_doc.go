package orda

// Document (JSON tree) harnesses: replicas built through the real public API
// with *symbolic* clocks and client ids, operations moved between replicas as
// model operations (so bodies go through the encode/decode path), every
// delivery order within the bound.  C01/C02/C04 (document part), C10, C15-4.

import (
	"encoding/json"
	"strconv"
	"github.com/orda-io/orda/client/pkg/iface"
	"github.com/orda-io/orda/client/pkg/model"
	"github.com/orda-io/orda/client/pkg/vf"
)

type docPeer struct {
	doc  *document
	sent int // operations already handed to the other replica
}

// vfNewDoc creates a document replica whose client id and clock are symbolic.
func vfNewDoc(tag string) *docPeer {
	cuid := vf.UID(tag + ".cuid")
	d, err := newDocument(vfBase("k", model.TypeOfDatatype_DOCUMENT, cuid), nil, nil)
	vf.Assert(err == nil, "newDocument succeeds")
	doc := d.(*document)
	l0 := vf.U64(tag + ".clock")
	vf.Assume(l0 < vfMaxLamport/2)
	doc.GetOpID().Lamport = l0
	return &docPeer{doc: doc}
}

// flush returns the operations issued since the last flush.
func (p *docPeer) flush() []*model.Operation {
	ops := p.doc.CreatePushPullPack().Operations
	out := ops[p.sent:]
	p.sent = len(ops)
	return out
}

func (p *docPeer) receive(ops []*model.Operation) {
	if len(ops) == 0 {
		return
	}
	_, err := p.doc.ReceiveRemoteModelOperations(ops, false)
	vf.Assert(err == nil, "remote operations are accepted")
}

// jsonDeepEq compares two JSON views (map / slice / scalar).
func jsonDeepEq(a, b interface{}) bool {
	switch x := a.(type) {
	case map[string]interface{}:
		y, ok := b.(map[string]interface{})
		if !ok || len(x) != len(y) {
			return false
		}
		for k, v := range x {
			w, ok := y[k]
			if !ok || !jsonDeepEq(v, w) {
				return false
			}
		}
		return true
	case []interface{}:
		y, ok := b.([]interface{})
		if !ok || len(x) != len(y) {
			return false
		}
		for i := range x {
			if !jsonDeepEq(x[i], y[i]) {
				return false
			}
		}
		return true
	}
	switch b.(type) {
	case map[string]interface{}, []interface{}:
		return false
	}
	return vfLeaf(a) == vfLeaf(b)
}

// vfLeaf: a number is a number, whichever of Go's JSON number representations carries it.
func vfLeaf(v interface{}) interface{} {
	if n, ok := v.(json.Number); ok {
		// ... as long as it is the same number: a decimal text that float64 cannot hold
		// exactly (beyond 2^53) is not the float64 next to it
		if f, err := strconv.ParseFloat(string(n), 64); err == nil && strconv.FormatFloat(f, 'f', -1, 64) == string(n) {
			return f
		}
	}
	return v
}

// docInv: the invariants of A.3 that the harnesses rely on.
func docInv(d *document) bool {
	root := d.snapshot().getRoot()
	common := root.getCommon()
	for _, n := range common.NodeMap {
		switch c := n.(type) {
		case *jsonObject:
			if !mapInv(c.mapSnapshot) {
				return false
			}
		case *jsonArray:
			if !listInv(c.listSnapshot) {
				return false
			}
		}
	}
	return true
}

// the value menu: primitive, nested object, nested array
func vfDocValue(tag string) interface{} {
	kinds := 2
	if vf.Tier() == 1 {
		kinds = 3
	}
	switch vf.Choice(tag, kinds) {
	case 0:
		return "p-" + tag
	case 1:
		return map[string]interface{}{"x": tag + "-x", "y": map[string]interface{}{"z": tag + "-z"}}
	}
	return []interface{}{tag + "-0", []interface{}{tag + "-1"}}
}

// base history on replica a, delivered to b: {"o": {"x": 1, "y": {"z": 2}}, "arr": ["a","b"], "k": "v"}
func vfDocBase(a, b *docPeer) {
	_, e1 := a.doc.PutToObject("o", map[string]interface{}{"x": "ox", "y": map[string]interface{}{"z": "oz"}})
	_, e2 := a.doc.PutToObject("arr", []interface{}{"a0", "a1"})
	_, e3 := a.doc.PutToObject("k", "kv")
	vf.Assert(e1 == nil && e2 == nil && e3 == nil, "base history succeeds")
	b.receive(a.flush())
	vf.Assert(jsonDeepEq(a.doc.ToJSON(), b.doc.ToJSON()), "C01 replicas agree after the base history")
}

func child(d *document, path ...string) *document {
	cur := Document(d)
	for _, p := range path {
		c, err := cur.GetFromObject(p)
		if err != nil || c == nil {
			return nil
		}
		cur = c
	}
	return cur.(*document)
}

// docOp performs one local call on replica p chosen from a menu that targets
// the shared containers; returns false if the call was refused.
func docOp(tag string, p *docPeer) bool { return docOpFrom(tag, p, nil) }

// docOpFrom restricts the menu to the listed operation numbers (nil = all).
func docOpFrom(tag string, p *docPeer, menu []int) bool {
	var err iface.Operation
	_ = err
	op := 0
	if menu == nil {
		op = vf.Choice(tag+".op", 8)
	} else {
		op = menu[vf.Choice(tag+".op", len(menu))]
	}
	switch op {
	case 0: // put on root, same key for both replicas; the value may equal the one the key holds
		v := vfDocValue(tag + ".v")
		if vf.Choice(tag+".same-value", 2) == 1 {
			v = "kv"
		}
		_, e := p.doc.PutToObject("k", v)
		return e == nil
	case 1: // delete on root
		_, e := p.doc.DeleteInObject("k")
		return e == nil
	case 2: // replace the container "o"
		_, e := p.doc.PutToObject("o", vfDocValue(tag+".v"))
		return e == nil
	case 3: // write inside "o"
		o := child(p.doc, "o")
		if o == nil || o.GetTypeOfJSON() != TypeJSONObject {
			return false
		}
		_, e := o.PutToObject("x", tag+"-in-o")
		return e == nil
	case 4: // write inside the nested object o.y
		y := child(p.doc, "o", "y")
		if y == nil || y.GetTypeOfJSON() != TypeJSONObject {
			return false
		}
		_, e := y.PutToObject("z", tag+"-in-oy")
		return e == nil
	case 5: // insert into the array
		arr := child(p.doc, "arr")
		if arr == nil {
			return false
		}
		_, e := arr.InsertToArray(vf.Choice(tag+".pos", 3), vfDocValue(tag+".v"))
		return e == nil
	case 6: // update an array slot
		arr := child(p.doc, "arr")
		if arr == nil {
			return false
		}
		_, e := arr.UpdateManyInArray(vf.Choice(tag+".pos", 2), vfDocValue(tag+".v"))
		return e == nil
	case 7: // delete an array slot
		arr := child(p.doc, "arr")
		if arr == nil {
			return false
		}
		_, e := arr.DeleteInArray(vf.Choice(tag+".pos", 2))
		return e == nil
	}
	return false
}

// VF_Doc_Converge: two replicas perform concurrent operations on the shared
// containers and exchange them; afterwards, and after one more operation, they
// expose the same JSON view and satisfy the invariants.
func VF_Doc_Converge() {
	vf.HashAbstract(true)
	a, b := vfNewDoc("a"), vfNewDoc("b")
	vf.Assume(a.doc.GetCUID() != b.doc.GetCUID())
	vfDocBase(a, b)
	okA := docOp("a1", a)
	okB := docOp("b1", b)
	vf.Assume(okA && okB)
	opsA, opsB := a.flush(), b.flush()
	a.receive(opsB)
	b.receive(opsA)
	vf.Reach("exchanged")
	vf.Assert(jsonDeepEq(a.doc.ToJSON(), b.doc.ToJSON()), "C01 replicas expose the same JSON view after exchanging concurrent operations")
	vf.Assert(docInv(a.doc) && docInv(b.doc), "L3 invariants of every container")
	// the history continues: one more operation (into the nested object if it is still there)
	if y := child(a.doc, "o", "y"); y != nil && y.GetTypeOfJSON() == TypeJSONObject {
		_, _ = y.PutToObject("later", "w")
	} else {
		_, _ = a.doc.PutToObject("k", "later")
	}
	b.receive(a.flush())
	vf.Reach("continued")
	vf.Assert(jsonDeepEq(a.doc.ToJSON(), b.doc.ToJSON()), "C01 replicas keep agreeing as the history continues")
	vf.Assert(docInv(a.doc) && docInv(b.doc), "L3 invariants after the continuation")
}

// VF_Doc_Determinism: delivering a put/insert/update with a nested value must
// create the same identifiers on every replica, whatever order a Go map is
// iterated in; a later operation addressed to one nested container must reach
// the same container everywhere.
func VF_Doc_Determinism() {
	vf.HashAbstract(true)
	vf.PermuteMaps("(*github.com/orda-io/orda/client/pkg/orda.jsonPrimitive).createJSONObject")
	a, b := vfNewDoc("a"), vfNewDoc("b")
	vf.Assume(a.doc.GetCUID() != b.doc.GetCUID())
	nested := map[string]interface{}{"x": map[string]interface{}{"p": "px"}, "y": map[string]interface{}{"p": "py"}}
	switch vf.Choice("how", 3) {
	case 0:
		_, e := a.doc.PutToObject("o", nested)
		vf.Assert(e == nil, "put succeeds")
	case 1:
		_, e := a.doc.PutToObject("arr", []interface{}{"first"})
		vf.Assert(e == nil, "put succeeds")
		_, e = child(a.doc, "arr").InsertToArray(1, nested)
		vf.Assert(e == nil, "insert succeeds")
	case 2:
		_, e := a.doc.PutToObject("arr", []interface{}{"first"})
		vf.Assert(e == nil, "put succeeds")
		_, e = child(a.doc, "arr").UpdateManyInArray(0, nested)
		vf.Assert(e == nil, "update succeeds")
	}
	b.receive(a.flush())
	vf.Reach("delivered")
	vf.Assert(jsonDeepEq(a.doc.ToJSON(), b.doc.ToJSON()), "C01 same JSON view after delivering a nested value")
	// now address the nested container "y" (by its identifier, as remote operations do)
	var y *document
	if o := child(a.doc, "o"); o != nil {
		y = child(a.doc, "o", "y")
	} else {
		el, err := child(a.doc, "arr").GetFromArray(vf.Concretize(child(a.doc, "arr").snapshot().(*jsonArray).size) - 1)
		vf.Assert(err == nil && el != nil, "array element is readable")
		c, _ := el.GetFromObject("y")
		y = c.(*document)
	}
	_, e := y.PutToObject("q", "written-into-y")
	vf.Assert(e == nil, "write into the nested container succeeds")
	b.receive(a.flush())
	vf.Reach("addressed")
	vf.Assert(jsonDeepEq(a.doc.ToJSON(), b.doc.ToJSON()), "C01/C15 an operation addressed to a nested container reaches the same container on every replica")
}

// docStructDiff: structural comparison of two document states - every field
// the operations read: node table (identifier -> node: kind, creation and
// deletion time, parent, value / key map / array chain with order times and
// sizes) and the cemetery key set.  Returns "" when equal, else what differs.
func docStructDiff(x, y *document) string {
	cx, cy := x.snapshot().getRoot().getCommon(), y.snapshot().getRoot().getCommon()
	if len(cx.NodeMap) != len(cy.NodeMap) {
		return "node table size"
	}
	// The cemetery (a garbage-collection index that no operation reads) is not
	// part of the relation: an element that was deleted and then superseded by a
	// newer put keeps a cemetery entry in the original but has left the node
	// table, so a restored instance does not list it.
	for _, n := range cx.NodeMap {
		m, ok := cy.NodeMap[n.getCreateTime().Hash()]
		if !ok {
			return "node missing"
		}
		if n.getType() != m.getType() {
			return "node kind"
		}
		if !tsEq(n.getDeleteTime(), m.getDeleteTime()) {
			return "delete time"
		}
		if (n.getParent() == nil) != (m.getParent() == nil) {
			return "parent presence"
		}
		if n.getParent() != nil && !tsEq(n.getParent().getCreateTime(), m.getParent().getCreateTime()) {
			return "parent"
		}
		switch c := n.(type) {
		case *jsonElement:
			if c.V != m.(*jsonElement).V {
				return "element value"
			}
		case *jsonObject:
			d := m.(*jsonObject)
			if c.Size != d.Size {
				return "object size"
			}
			if len(c.Map) != len(d.Map) {
				return "object key count"
			}
			for key, ch := range c.Map {
				dh, ok := d.Map[key]
				if !ok || !tsEq(ch.(jsonType).getCreateTime(), dh.(jsonType).getCreateTime()) {
					return "object child"
				}
			}
		case *jsonArray:
			d := m.(*jsonArray)
			ca, da := chainOf(c.listSnapshot), chainOf(d.listSnapshot)
			if c.size != d.size {
				return "array size"
			}
			if len(ca) != len(da) || len(c.Map) != len(d.Map) {
				return "array chain length"
			}
			for i := range ca {
				if !tsEq(ca[i].getOrderTime(), da[i].getOrderTime()) {
					return "array order time"
				}
				if !tsEq(ca[i].getTimedType().(jsonType).getCreateTime(), da[i].getTimedType().(jsonType).getCreateTime()) {
					return "array slot content"
				}
			}
		}
	}
	return ""
}

func docStructEq(x, y *document) bool {
	d := docStructDiff(x, y)
	if d != "" {
		vf.Tag("diff", d)
	}
	return d == ""
}

// opTS returns the timestamp of the last local operation of p.
func (p *docPeer) opTS() *model.Timestamp {
	id := p.doc.GetOpID()
	return &model.Timestamp{Era: id.Era, Lamport: id.Lamport, CUID: id.CUID}
}

// VF_Doc_C02: conflicting operations on one object key and on one array slot
// resolve by operation timestamp, identically on both replicas - compared with
// a reference computed from the statement (the base value was written first,
// so either concurrent operation is newer than it).
func VF_Doc_C02() {
	vf.HashAbstract(true)
	a, b := vfNewDoc("a"), vfNewDoc("b")
	vf.Assume(a.doc.GetCUID() != b.doc.GetCUID())
	vfDocBase(a, b)
	where := vf.Choice("where", 2)
	ka, kb := vf.Choice("a.kind", 2), vf.Choice("b.kind", 2) // 0 write, 1 delete
	vf.Tag("case", string(rune('0'+where))+string(rune('0'+ka))+string(rune('0'+kb)))
	do := func(p *docPeer, kind int, val string) {
		var err error
		if where == 0 {
			if kind == 0 {
				_, e := p.doc.PutToObject("k", val)
				err = toErr(e)
			} else {
				_, e := p.doc.DeleteInObject("k")
				err = toErr(e)
			}
		} else {
			arr := child(p.doc, "arr")
			if kind == 0 {
				_, e := arr.UpdateManyInArray(0, val)
				err = toErr(e)
			} else {
				_, e := arr.DeleteInArray(0)
				err = toErr(e)
			}
		}
		vf.Assert(err == nil, "concurrent operation succeeds locally")
	}
	do(a, ka, "from-a")
	ta := a.opTS()
	do(b, kb, "from-b")
	tb := b.opTS()
	opsA, opsB := a.flush(), b.flush()
	a.receive(opsB)
	b.receive(opsA)
	vf.Reach("exchanged")
	// reference
	var want interface{}
	present := true
	if where == 0 { // object key: greatest timestamp wins, remove => absent
		winnerIsA := newer(ta, tb)
		k, v := ka, "from-a"
		if !winnerIsA {
			k, v = kb, "from-b"
		}
		if k == 1 {
			present = false
		} else {
			want = v
		}
	} else { // array slot: deleted by anyone => stays deleted; else newest update
		if ka == 1 || kb == 1 {
			present = false
		} else if newer(ta, tb) {
			want = "from-a"
		} else {
			want = "from-b"
		}
	}
	for _, p := range []*docPeer{a, b} {
		root := p.doc.ToJSON().(map[string]interface{})
		if where == 0 {
			v, ok := root["k"]
			vf.Assert(ok == present, "C02 a key is present iff its newest operation is a put")
			if present {
				vf.Assert(v == want, "C02 a key holds the value of the put with the greatest timestamp")
			}
		} else {
			arr := root["arr"].([]interface{})
			if present {
				vf.Assert(len(arr) == 2 && arr[0] == want && arr[1] == "a1", "C02 a slot holds the value of its newest update")
			} else {
				vf.Assert(len(arr) == 1 && arr[0] == "a1", "C02/C04 a deleted slot stays deleted, also against a concurrent update")
			}
		}
	}
	vf.Assert(jsonDeepEq(a.doc.ToJSON(), b.doc.ToJSON()), "C01 replicas agree")
}

// VF_Doc_C04: concurrent inserts into one array at the same place appear
// newest first, after the element they were inserted behind, exactly once, on
// both replicas; existing elements keep their order.
func VF_Doc_C04() {
	vf.HashAbstract(true)
	a, b := vfNewDoc("a"), vfNewDoc("b")
	vf.Assume(a.doc.GetCUID() != b.doc.GetCUID())
	vfDocBase(a, b)
	pa, pb := vf.Choice("a.pos", 3), vf.Choice("b.pos", 3)
	_, ea := child(a.doc, "arr").InsertToArray(pa, "ia0", "ia1")
	ta := a.opTS()
	_, eb := child(b.doc, "arr").InsertToArray(pb, "ib0")
	tb := b.opTS()
	vf.Assert(ea == nil && eb == nil, "inserts succeed")
	// a local insert is immediately readable at its index
	la := a.doc.ToJSON().(map[string]interface{})["arr"].([]interface{})
	vf.Assert(la[pa] == "ia0" && la[pa+1] == "ia1", "C04 a local insert at index i is readable at index i")
	opsA, opsB := a.flush(), b.flush()
	a.receive(opsB)
	b.receive(opsA)
	vf.Reach("exchanged")
	ja := a.doc.ToJSON().(map[string]interface{})["arr"].([]interface{})
	jb := b.doc.ToJSON().(map[string]interface{})["arr"].([]interface{})
	vf.Assert(jsonDeepEq(ja, jb), "C01/C04 both replicas show the same array")
	idx := func(v string) int {
		n, at := 0, -1
		for i, x := range ja {
			if x == v {
				n++
				at = i
			}
		}
		vf.Assert(n == 1, "C04 every element is present exactly once")
		return at
	}
	i0, i1, a0, a1, ib := idx("a0"), idx("a1"), idx("ia0"), idx("ia1"), idx("ib0")
	vf.Assert(len(ja) == 5 && i0 < i1, "C04 existing elements keep their relative order")
	vf.Assert(a0+1 == a1 || (a0 < a1 && pa == pb), "C04 a batch stays in order")
	if pa == pb { // same place: newest first
		if newer(ta, tb) {
			vf.Assert(a0 < ib && a1 < ib, "C02 concurrent inserts at the same place appear newest first")
		} else {
			vf.Assert(ib < a0, "C02 concurrent inserts at the same place appear newest first")
		}
	}
	// phase 2: elements (possibly updated before) are deleted on a; once the
	// delete has been received they appear on no copy, everything else stays
	k := vf.Choice("del.pos", 4)
	mode := vf.Choice("del.mode", 3) // 0: delete one; 1: update it, then delete it; 2: update it, then delete two
	arr := child(a.doc, "arr")
	if mode >= 1 {
		_, eu := arr.UpdateManyInArray(k, "upd")
		vf.Assert(eu == nil, "update succeeds")
	}
	n := 1
	if mode == 2 {
		n = 2
	}
	gone := append([]interface{}{}, ja[k:k+n]...)
	_, ed := arr.DeleteManyInArray(k, n)
	vf.Assert(ed == nil, "delete succeeds")
	b.receive(a.flush())
	vf.Reach("deleted")
	ja2 := a.doc.ToJSON().(map[string]interface{})["arr"].([]interface{})
	jb2 := b.doc.ToJSON().(map[string]interface{})["arr"].([]interface{})
	vf.Assert(jsonDeepEq(ja2, jb2), "C01/C04 both replicas show the same array after the delete")
	vf.Assert(len(jb2) == 5-n, "C04 exactly the deleted elements disappear")
	for _, x := range jb2 {
		vf.Assert(x != "upd", "C04 a deleted element appears on no copy after the delete has been received")
		for _, g := range gone {
			vf.Assert(x != g, "C04 a deleted element appears on no copy after the delete has been received")
		}
	}
	vf.Assert(docInv(a.doc) && docInv(b.doc), "L3 invariants after the delete")
}

// VF_Doc_EmptiedArray (C04, C01): every element of a document array is deleted
// on one replica while the other, not yet knowing, inserts behind some of those
// elements (one or two inserts, positions chosen by the solver, the second at or
// next to the first).  A container that looks empty is not a fresh one: its
// tombstones are still the anchors of concurrent inserts.  Both replicas end
// with the same array, holding exactly the inserted elements.
func VF_Doc_EmptiedArray() {
	vf.HashAbstract(true)
	a, b := vfNewDoc("a"), vfNewDoc("b")
	vf.Assume(a.doc.GetCUID() != b.doc.GetCUID())
	vfDocBase(a, b) // "arr": ["a0","a1"]
	_, ed := child(a.doc, "arr").DeleteManyInArray(0, 2)
	vf.Assert(ed == nil, "delete succeeds")
	if vf.Choice("reader", 2) == 1 {
		_ = a.doc.ToJSON()
	}
	p0 := vf.Int("b.pos0", 0, 2)
	_, e0 := child(b.doc, "arr").InsertToArray(p0, "ib0")
	two := vf.Choice("second-insert", 2) == 1
	if two {
		p1 := vf.Int("b.pos1", 0, 3)
		_, e1 := child(b.doc, "arr").InsertToArray(p1, "ib1")
		vf.Assert(e1 == nil, "insert succeeds")
	}
	vf.Assert(e0 == nil, "insert succeeds")
	want := child(b.doc, "arr").ToJSON() // b's own view without the survivors a0, a1
	opsA, opsB := a.flush(), b.flush()
	if vf.Choice("b-ops-one-by-one", 2) == 1 && two {
		a.receive(opsB[:1])
		a.receive(opsB[1:])
	} else {
		a.receive(opsB)
	}
	b.receive(opsA)
	vf.Reach("exchanged")
	ja := a.doc.ToJSON().(map[string]interface{})["arr"].([]interface{})
	jb := b.doc.ToJSON().(map[string]interface{})["arr"].([]interface{})
	vf.Assert(jsonDeepEq(ja, jb), "C01/C04 both replicas show the same array")
	n := 1
	if two {
		n = 2
	}
	vf.Assert(len(jb) == n, "C04 exactly the inserted elements are present")
	var ins []interface{}
	for _, v := range want.([]interface{}) {
		if v == "ib0" || v == "ib1" {
			ins = append(ins, v)
		}
	}
	vf.Assert(jsonDeepEq(jb, ins), "C04 the inserted elements keep the order their author saw")
	vf.Assert(docInv(a.doc) && docInv(b.doc), "L3 invariants")
}

// VF_Doc_ResolveAfterRemote (C03, C19, C04): a replica resolves a position of an
// array of objects (GetByPath, and a patch that changes a key of that element),
// then receives a remote insert or delete at a position chosen by the solver, and
// resolves the same position again.  What it finds is what the array shows at
// that position now; a patch that edits "/arr/i/k" edits the element that is at
// i now; the other replica follows.  Remote operations are operations too:
// whatever a read remembered must not survive them.
func VF_Doc_ResolveAfterRemote() {
	vf.HashAbstract(true)
	a, b := vfNewDoc("a"), vfNewDoc("b")
	vf.Assume(a.doc.GetCUID() != b.doc.GetCUID())
	_, e0 := a.doc.PutToObject("arr", []interface{}{map[string]interface{}{"k": "0"}, map[string]interface{}{"k": "1"}, map[string]interface{}{"k": "2"}})
	vf.Assert(e0 == nil, "setup")
	b.receive(a.flush())
	i := vf.Choice("position", 3)
	ptr := "/arr/" + string(rune('0'+i))
	first, e1 := a.doc.GetByPath(ptr)
	vf.Assert(e1 == nil && first != nil, "C03 the position resolves")
	if vf.Choice("patched-before", 2) == 1 {
		tgt := a.doc.ToJSON().(map[string]interface{})
		tgt["arr"].([]interface{})[i].(map[string]interface{})["k"] = "p1"
		tb, _ := json.Marshal(tgt)
		_, ep := a.doc.PatchByJSON(string(tb))
		vf.Assert(ep == nil, "C19 patch succeeds")
		b.receive(a.flush())
	}
	// the other replica changes the array in front of / at / behind that position
	arrB := child(b.doc, "arr")
	if vf.Choice("remote-op", 2) == 0 {
		_, e := arrB.InsertToArray(vf.Int("remote.pos", 0, 3), map[string]interface{}{"k": "new"})
		vf.Assert(e == nil, "remote insert succeeds")
	} else {
		_, e := arrB.DeleteInArray(vf.Int("remote.pos", 0, 2))
		vf.Assert(e == nil, "remote delete succeeds")
	}
	a.receive(b.flush())
	view := a.doc.ToJSON().(map[string]interface{})["arr"].([]interface{})
	vf.Reach("received")
	got, e2 := a.doc.GetByPath(ptr)
	if i < len(view) {
		vf.Assert(e2 == nil && got != nil && jsonDeepEq(got.GetValue(), view[i]), "C03 a position resolves to what the array shows there now")
		// a patch that edits the element at i
		tgt := a.doc.ToJSON().(map[string]interface{})
		tgt["arr"].([]interface{})[i].(map[string]interface{})["k"] = "p2"
		tb, _ := json.Marshal(tgt)
		_, ep := a.doc.PatchByJSON(string(tb))
		vf.Assert(ep == nil && jsonDeepEq(a.doc.ToJSON(), tgt), "C19 a patch edits the element that is at the position now")
		b.receive(a.flush())
		vf.Assert(jsonDeepEq(b.doc.ToJSON(), tgt), "C19 the other replica follows")
	} else {
		vf.Assert(e2 != nil, "C03 a position beyond the end addresses nothing")
	}
}
