package orda

// VF_C19_PatchInTx (C19, C09, C20): PatchByJSON / Patch are part of the
// in-transaction interface (DocumentInTx).  Used inside a Transaction body - or
// through a handle that was obtained inside one and is used after it ended -
// a patch must still yield the target, belong to exactly one unit, be undone
// with the transaction when the body fails, and never hang.
import (
	"encoding/json"
	"errors"

	"github.com/orda-io/orda/client/pkg/model"
	"github.com/orda-io/orda/client/pkg/vf"
)

var c19txTargets = []string{
	`{"a":"9"}`,                       // one operation
	`{"a":"1","b":"2","c":["x"]}`,     // several operations
	`{"cfg":{"k":"v2","n":"new"}}`,   // remove + nested changes
}

func VF_C19_PatchInTx() {
	d := vfNewDocSimple()
	_, e1 := d.PutToObject("a", "1")
	_, e2 := d.PutToObject("cfg", map[string]interface{}{"k": "v"})
	vf.Assert(e1 == nil && e2 == nil, "history")
	before := d.GetValue()
	n0, seq0 := pendingOps(d)
	target := c19txTargets[vf.Choice("target", len(c19txTargets))]
	how := vf.Choice("how", 3)
	vf.Tag("how", how)
	var perr error
	switch how {
	case 0, 1: // inside a transaction body; 1: the body then fails
		err := d.Transaction("outer", func(tx DocumentInTx) error {
			_, pe := tx.PatchByJSON(target)
			perr = toErr(pe)
			if how == 1 {
				return errors.New("body failed")
			}
			return nil
		})
		vf.Reach("transaction-ended")
		vf.Assert(perr == nil, "C19 a patch inside a transaction succeeds")
		vf.Assert((err != nil) == (how == 1), "C09 the transaction reports the body's outcome")
	case 2: // a handle obtained inside a transaction, used after it has committed
		var kept DocumentInTx
		err := d.Transaction("outer", func(tx DocumentInTx) error {
			kept = tx
			return nil
		})
		vf.Assert(err == nil, "C09 valid transaction succeeds")
		n0, seq0 = pendingOps(d)
		_, pe := kept.PatchByJSON(target)
		perr = toErr(pe)
		vf.Reach("transaction-ended")
		vf.Assert(perr == nil, "C19 a patch through a kept handle succeeds")
	}
	n1, seq1 := pendingOps(d)
	if how == 1 {
		vf.Assert(jsonDeepEq(d.GetValue(), before), "C09 a failed transaction undoes the patch made inside it")
		vf.Assert(n1 == n0 && seq1 == seq0, "C09 a failed transaction queues nothing")
	} else {
		var want interface{}
		_ = json.Unmarshal([]byte(target), &want)
		vf.Assert(jsonDeepEq(d.GetValue(), want), "C19 the patched document equals the target")
		ops := d.CreatePushPullPack().Operations
		if n1 > n0+1 {
			vf.Assert(ops[n0].OpType == model.TypeOfOperation_TRANSACTION, "C19/C09 several patch operations travel as one unit that announces its length")
		}
		rRaw, _ := newDocument(vfBase("k", model.TypeOfDatatype_DOCUMENT, "BBBBBBBBBBBBBBBB"), nil, nil)
		r := rRaw.(*document)
		_, re := r.ReceiveRemoteModelOperations(ops, false)
		vf.Assert(re == nil && jsonDeepEq(r.GetValue(), want), "C19 the emitted operations bring another replica to the target")
	}
	// the datatype is still usable (nothing is left locked)
	_, e3 := d.PutToObject("after", "x")
	vf.Assert(e3 == nil, "C20 the document is usable afterwards")
}

// VF_C19_BadTargets (C19, C03): PatchByJSON towards something that is valid JSON
// but not an object (the root of a document is an object), and Patch with an
// operation that addresses the whole document: an error, never a panic, nothing
// readable changes, nothing is queued.
func VF_C19_BadTargets() {
	d := vfNewDocSimple()
	_, e0 := d.PutToObject("a", "1")
	vf.Assert(e0 == nil, "setup")
	before := d.ToJSON()
	n0, s0 := pendingOps(d)
	target := []string{`[1,2]`, `"abc"`, `null`, `7`, `true`, `[]`}[vf.Choice("target", 6)]
	vf.Tag("target", target)
	var err error
	panicked, msg := vf.Try(func() {
		_, e := d.PatchByJSON(target)
		err = toErr(e)
	})
	vf.Reach("answered")
	if panicked {
		vf.Tag("_panic", msg)
	}
	vf.Assert(!panicked, "C03 no panic")
	vf.Assert(err != nil, "C19 a target that is not a JSON object is refused")
	n1, s1 := pendingOps(d)
	vf.Assert(jsonDeepEq(d.ToJSON(), before) && n1 == n0 && s1 == s0, "C03 a refused patch changes nothing readable and queues nothing")
	_, e2 := d.PutToObject("b", "2")
	n2, s2 := pendingOps(d)
	vf.Assert(e2 == nil && n2 == n0+1 && s2 == s0+1, "C03 the next operation is numbered right after the last one issued")
}
