package orda

// C20 (hard bound): two goroutines on one client datatype behave as if their
// calls were made one at a time.  Interleaving mode: context switches are
// explored at every shared-memory load/store inside the transaction code and
// at mutex operations, with a bounded number of preemptions.

import (
	"errors"

	"github.com/orda-io/orda/client/pkg/model"
	"github.com/orda-io/orda/client/pkg/operations"
	"github.com/orda-io/orda/client/pkg/vf"
)

const dtPkg = "(*github.com/orda-io/orda/client/pkg/internal/datatypes."

func VF_C20_Goroutines() {
	kindA := vf.Choice("a", 3)
	kindB := vf.Choice("b", 4)
	if kindA == 2 && kindB == 0 {
		vf.Assume(false) // the failing transaction is paired with a committing transaction, a remote delivery and the background sync (bound)
	}
	n := 2
	if vf.Tier() == 1 && kindA != 2 && kindB != 3 {
		n = 3 // the pairs with a background sync stay at two preemptions (path count)
	}
	vf.Preemptions(n)
	for _, f := range []string{"TransactionDatatype).BeginTransaction", "TransactionDatatype).EndTransaction", "TransactionDatatype).unlock",
		"TransactionDatatype).setTransactionContextAndLock", "TransactionDatatype).SentenceInTx", "TransactionDatatype).DoTransaction",
		"BaseDatatype).executeLocalBase", "WiredDatatype).*",
		"TransactionDatatype).ResetTransaction", "TransactionDatatype).Rollback"} {
		vf.PreemptIn(dtPkg + f)
	}
	c := vfNewCounter()
	c.SetState(model.StateOfDatatype_SUBSCRIBED)
	pre := 0
	if kindB == 3 {
		// an earlier local operation was pushed; its acknowledgement (checkpoint advancing to
		// Cseq 1) is what the background sync applies while the other goroutine works
		_, _ = c.IncreaseBy(1000)
		pre = 1
	}
	vf.Tag("kinds", string(rune('0'+kindA))+string(rune('0'+kindB)))
	// a foreign operation that may be applied concurrently
	src := vfNewCounter()
	_, _ = src.IncreaseBy(100)
	foreign := src.CreatePushPullPack().Operations
	foreign[0].ID.CUID = "BBBBBBBBBBBBBBBB"
	done := make(chan int, 2)
	want := int32(0)
	locals := 0
	run := func(kind int, delta int32) {
		switch kind {
		case 0:
			_, _ = c.IncreaseBy(delta)
		case 1:
			_ = c.Transaction("t", func(tx CounterInTx) error {
				_, _ = tx.IncreaseBy(delta)
				return nil
			})
		case 2:
			_, _ = c.ReceiveRemoteModelOperations(foreign, false)
		case 3: // the answer of a background sync that carries no operations (a plain acknowledgement)
			c.ApplyPushPullPack(&model.PushPullPack{Key: c.GetKey(), DUID: c.GetDUID(), Type: model.TypeOfDatatype_COUNTER,
				CheckPoint: &model.CheckPoint{Sseq: uint64(pre), Cseq: uint64(pre)}})
		case 4: // a transaction whose body fails after one call: all or nothing
			_ = c.Transaction("t", func(tx CounterInTx) error {
				_, _ = tx.IncreaseBy(delta)
				vf.Yield()
				return errors.New("body failed")
			})
		}
	}
	count := func(kind int, delta int32) {
		switch kind {
		case 0:
			want += delta
			locals++
		case 1:
			want += delta
			locals += 2 // header + operation
		case 2:
			want += 100
		}
	}
	if kindA == 2 {
		kindA = 4
	}
	count(kindA, 1)
	count(kindB, 10)
	go func() { run(kindA, 1); done <- 1 }()
	go func() { run(kindB, 10); done <- 2 }()
	<-done
	<-done
	vf.Reach("both-done")
	vf.Assert(c.Get() == want+int32(1000*pre), "C20 no update is lost")
	ops := c.CreatePushPullPack().Operations // the operations above the (acknowledged) checkpoint
	vf.Assert(len(ops) == locals, "C20 every issued operation is queued exactly once")
	for i, op := range ops {
		vf.Assert(op.ID.Seq == uint64(pre+i+1), "C20/C15 queued operations carry the next sequence numbers in order")
		if op.OpType == model.TypeOfOperation_TRANSACTION {
			tx := operations.ModelToOperation(op).(*operations.TransactionOperation)
			vf.Assert(int(tx.GetNumOfOps()) == 2 && i+1 < len(ops) && ops[i+1].OpType == model.TypeOfOperation_COUNTER_INCREASE,
				"C20 a transaction's operations are contiguous in the queue")
		}
	}
	// the datatype is still usable (the mutex was released)
	_, err := c.IncreaseBy(1000)
	vf.Assert(err == nil && c.Get() == want+int32(1000*pre)+1000, "C20 the datatype is usable afterwards")
}
