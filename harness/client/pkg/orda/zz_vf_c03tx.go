package orda

// VF_C03_InTransaction (C03, C09): calls made inside a transaction body.  A body
// that only reads and / or makes invalid calls and then returns an error (or
// succeeds) has nothing to undo - and must leave nothing behind either: readable
// state, operations awaiting push and the numbering of the next operation are as
// if the transaction had never been attempted.  All four datatypes.

import (
	"errors"

	"github.com/orda-io/orda/client/pkg/model"
	"github.com/orda-io/orda/client/pkg/vf"
)

func VF_C03_InTransaction() {
	kind := vf.Choice("datatype", 4)
	body := vf.Choice("body", 3) // 0: reads only, 1: invalid calls only, 2: both
	fails := vf.Choice("body-returns-error", 2) == 1
	vf.Tag("datatype", kind)
	give := func() error {
		if fails {
			return errors.New("give up")
		}
		return nil
	}
	check := func(n0 int, s0 uint64, n1 int, s1 uint64, n2 int, s2 uint64) {
		vf.Reach("checked")
		if fails {
			vf.Assert(n1 == n0 && s1 == s0, "C03/C09 a failed transaction that executed nothing adds nothing to the operations awaiting push")
		} else {
			// a committed transaction without operations may be pushed as an empty unit (its header)
			vf.Assert((n1 == n0 && s1 == s0) || (n1 == n0+1 && s1 == s0+1), "C09 a committed empty transaction adds at most its header")
		}
		vf.Assert(n2 == n1+1 && s2 == s1+1, "C03 the next operation is numbered right after the last one issued")
	}
	switch kind {
	case 0:
		c := vfNewCounter()
		_, _ = c.IncreaseBy(5)
		n0, s0 := pendingOps(c)
		err := c.Transaction("t", func(tx CounterInTx) error {
			if body != 1 {
				_ = tx.Get()
			}
			return give()
		})
		vf.Assert((err != nil) == fails, "C09 the transaction reports what its body returned")
		n1, s1 := pendingOps(c)
		vf.Assert(c.Get() == 5, "C03 reads change nothing")
		_, e := c.IncreaseBy(1)
		vf.Assert(e == nil, "C03 valid call succeeds")
		n2, s2 := pendingOps(c)
		check(n0, s0, n1, s1, n2, s2)
	case 1:
		m := vfNewMap()
		_, _ = m.Put("a", "1")
		n0, s0 := pendingOps(m)
		err := m.Transaction("t", func(tx MapInTx) error {
			if body != 1 {
				_ = tx.Get("a")
				_ = tx.Size()
			}
			if body != 0 {
				_, e1 := tx.Put("", "x")
				_, e2 := tx.Remove("missing")
				vf.Assert(e1 != nil && e2 != nil, "C03 invalid calls are refused inside a transaction too")
			}
			return give()
		})
		vf.Assert((err != nil) == fails, "C09 the transaction reports what its body returned")
		n1, s1 := pendingOps(m)
		vf.Assert(m.Get("a") == "1" && m.Size() == 1, "C03 reads and refused calls change nothing")
		_, e := m.Put("b", "2")
		vf.Assert(e == nil, "C03 valid call succeeds")
		n2, s2 := pendingOps(m)
		check(n0, s0, n1, s1, n2, s2)
	case 2:
		l := vfNewList()
		_, _ = l.InsertMany(0, "x", "y")
		n0, s0 := pendingOps(l)
		err := l.Transaction("t", func(tx ListInTx) error {
			if body != 1 {
				_, _ = tx.Get(0)
				_, _ = tx.GetMany(0, 2)
				_ = tx.Size()
			}
			if body != 0 {
				_, e1 := tx.Insert(5, "far")
				_, e2 := tx.Delete(-1)
				_, e3 := tx.Update(2, "u")
				vf.Assert(e1 != nil && e2 != nil && e3 != nil, "C03 invalid calls are refused inside a transaction too")
			}
			return give()
		})
		vf.Assert((err != nil) == fails, "C09 the transaction reports what its body returned")
		n1, s1 := pendingOps(l)
		vf.Assert(sliceEq(listJSON(l), []interface{}{"x", "y"}), "C03 reads and refused calls change nothing")
		_, e := l.Insert(0, "z")
		vf.Assert(e == nil, "C03 valid call succeeds")
		n2, s2 := pendingOps(l)
		check(n0, s0, n1, s1, n2, s2)
	case 3:
		d := vfNewDocSimple()
		_, _ = d.PutToObject("o", map[string]interface{}{"x": "ox"})
		_, _ = d.PutToObject("arr", []interface{}{"a0", "a1"})
		n0, s0 := pendingOps(d)
		before := d.ToJSON()
		err := d.Transaction("t", func(tx DocumentInTx) error {
			if body != 1 {
				o, e1 := tx.GetFromObject("o")
				a, e2 := tx.GetFromObject("arr")
				vf.Assert(e1 == nil && e2 == nil && o != nil && a != nil, "C03 reads succeed inside a transaction")
				_, _ = a.GetFromArray(0)
				_, _ = a.GetManyFromArray(0, 2)
				_ = tx.GetValue()
			}
			if body != 0 {
				_, e1 := tx.PutToObject("", "x")
				_, e2 := tx.DeleteInObject("missing")
				_, e3 := tx.InsertToArray(0, "not-an-array")
				vf.Assert(e1 != nil && e2 != nil && e3 != nil, "C03 invalid calls are refused inside a transaction too")
			}
			return give()
		})
		vf.Assert((err != nil) == fails, "C09 the transaction reports what its body returned")
		n1, s1 := pendingOps(d)
		vf.Assert(jsonDeepEq(d.ToJSON(), before), "C03 reads and refused calls change nothing")
		_, e := d.PutToObject("k", "v")
		vf.Assert(e == nil, "C03 valid call succeeds")
		n2, s2 := pendingOps(d)
		check(n0, s0, n1, s1, n2, s2)
	}
}


// VF_C15_FailInsideTx (C15, C09, C03): inside a transaction one call is refused
// while it executes (removing a key that is not there), the body carries on with
// valid calls and commits.  Every operation of the unit has its own identifier:
// sequence numbers consecutive, clocks strictly increasing, no identifier used
// twice; the replica that receives the unit ends equal.
func VF_C15_FailInsideTx() {
	kind := vf.Choice("datatype", 2)
	where := vf.Choice("failing-call-position", 3) // before, between, after the valid calls
	vf.Tag("datatype", kind)
	check := func(ops []*model.Operation) {
		vf.Reach("committed")
		for i := 1; i < len(ops); i++ {
			vf.Assert(ops[i].ID.Seq == ops[i-1].ID.Seq+1, "C15 sequence numbers of one client are consecutive")
			vf.Assert(ops[i].ID.Lamport > ops[i-1].ID.Lamport, "C15 no identifier is used twice: clocks of one client strictly increase")
		}
	}
	if kind == 0 {
		m := vfNewMap()
		_, _ = m.Put("a", "1")
		err := m.Transaction("t", func(tx MapInTx) error {
			if where == 0 {
				_, e := tx.Remove("missing")
				vf.Assert(e != nil, "C03 removing a missing key is refused")
			}
			_, e1 := tx.Put("b", "2")
			if where == 1 {
				_, e := tx.Remove("missing")
				vf.Assert(e != nil, "C03 removing a missing key is refused")
			}
			_, e2 := tx.Put("c", "3")
			if where == 2 {
				_, e := tx.Remove("missing")
				vf.Assert(e != nil, "C03 removing a missing key is refused")
			}
			vf.Assert(e1 == nil && e2 == nil, "C03 valid calls succeed")
			return nil
		})
		vf.Assert(err == nil, "C09 the transaction commits")
		_, e3 := m.Put("d", "4")
		vf.Assert(e3 == nil, "C03 valid call succeeds")
		ops := m.CreatePushPullPack().Operations
		check(ops)
		rRaw, _ := newMap(vfBase("k", model.TypeOfDatatype_MAP, "BBBBBBBBBBBBBBBB"), nil, nil)
		r := rRaw.(*ordaMap)
		_, re := r.ReceiveRemoteModelOperations(ops, false)
		vf.Assert(re == nil && jsonDeepEq(r.ToJSON(), m.ToJSON()), "C09/C14 the unit applies on another replica with the same effect")
		return
	}
	d := vfNewDocSimple()
	_, _ = d.PutToObject("a", []interface{}{"a1"})
	err := d.Transaction("t", func(tx DocumentInTx) error {
		if where == 0 {
			_, e := tx.DeleteInObject("missing")
			vf.Assert(e != nil, "C03 deleting a missing key is refused")
		}
		_, e1 := tx.PutToObject("b", []interface{}{"b1"})
		if where == 1 {
			_, e := tx.DeleteInObject("missing")
			vf.Assert(e != nil, "C03 deleting a missing key is refused")
		}
		_, e2 := tx.PutToObject("c", []interface{}{"c1"})
		if where == 2 {
			_, e := tx.DeleteInObject("missing")
			vf.Assert(e != nil, "C03 deleting a missing key is refused")
		}
		vf.Assert(e1 == nil && e2 == nil, "C03 valid calls succeed")
		return nil
	})
	vf.Assert(err == nil, "C09 the transaction commits")
	arrA, _ := d.GetFromObject("a")
	_, e3 := arrA.InsertToArray(0, "NEW")
	vf.Assert(e3 == nil, "C03 valid call succeeds")
	ops := d.CreatePushPullPack().Operations
	check(ops)
	want := map[string]interface{}{"a": []interface{}{"NEW", "a1"}, "b": []interface{}{"b1"}, "c": []interface{}{"c1"}}
	vf.Assert(jsonDeepEq(d.ToJSON(), want), "C15 containers created in one transaction are distinct: an insert lands in the array it addresses")
	rRaw, _ := newDocument(vfBase("k", model.TypeOfDatatype_DOCUMENT, "BBBBBBBBBBBBBBBB"), nil, nil)
	r := rRaw.(*document)
	_, re := r.ReceiveRemoteModelOperations(ops, false)
	vf.Assert(re == nil && jsonDeepEq(r.ToJSON(), want), "C09/C14 the unit applies on another replica with the same effect")
}
