package orda

// C09: transactions are all-or-nothing, locally and on every replica.

import (
	"errors"

	"github.com/orda-io/orda/client/pkg/constants"
	"github.com/orda-io/orda/client/pkg/model"
	"github.com/orda-io/orda/client/pkg/operations"
	"github.com/orda-io/orda/client/pkg/vf"
)

func listJSON(l *list) []interface{} { return l.snapshot().ToJSON().([]interface{}) }

// VF_C09_Local: a transaction whose body fails leaves readable state, pending
// operations and identifiers as they were; a committed one is queued as one
// contiguous unit that announces its own length.
func VF_C09_Local() {
	l := vfNewList()
	pre := vf.Choice("pre", 3)
	for i := 0; i < pre; i++ {
		_, _ = l.Insert(i, vfVals[i])
	}
	switch vf.Choice("earlier-tx", 3) {
	case 1: // an earlier failed transaction
		_ = l.Transaction("t0", func(tx ListInTx) error {
			_, _ = tx.Insert(0, "lost")
			return errors.New("fail")
		})
	case 2: // an earlier committed transaction (its unit is replayed by a later rollback)
		e := l.Transaction("t0", func(tx ListInTx) error {
			_, _ = tx.Insert(0, "kept0")
			_, _ = tx.Insert(tx.Size(), "kept1")
			return nil
		})
		vf.Assert(e == nil, "C09 valid transaction succeeds")
		if vf.Choice("op-after-earlier-tx", 2) == 1 {
			_, _ = l.Insert(1, "mid")
		}
	}
	// operations of another replica applied before the transaction (its clock is ahead)
	remoteLamport := uint64(0)
	if vf.Choice("remote-before", 2) == 1 {
		rRaw, _ := newList(vfBase("k", model.TypeOfDatatype_LIST, "BBBBBBBBBBBBBBBB"), nil, nil)
		r := rRaw.(*list)
		for i := 0; i < 4; i++ {
			_, _ = r.Insert(0, "r")
		}
		rops := r.CreatePushPullPack().Operations
		_, e := l.ReceiveRemoteModelOperations(rops, false)
		vf.Assert(e == nil, "C09 remote operations are applied")
		remoteLamport = rops[len(rops)-1].ID.Lamport
	}
	before := append([]interface{}{}, listJSON(l)...)
	n0, seq0 := pendingOps(l)
	id0 := l.GetOpID().Clone()
	ncalls := vf.Choice("calls", 3)
	fail := vf.Choice("fail", 2) == 1
	vf.Tag("fail", fail)
	good := 0
	panicked, msg := vf.Try(func() {
		_ = l.Transaction("t1", func(tx ListInTx) error {
			for c := 0; c < ncalls; c++ {
				switch vf.Choice("call", 4) {
				case 0:
					if _, e := tx.Insert(0, "i"); e == nil {
						good++
					}
				case 1: // invalid position
					_, _ = tx.Insert(tx.Size()+1, "bad")
				case 2:
					if tx.Size() > 0 {
						if _, e := tx.Delete(0); e == nil {
							good++
						}
					}
				case 3: // a read
					_ = tx.Size()
				}
			}
			if fail {
				return errors.New("body failed")
			}
			return nil
		})
	})
	vf.Reach("transaction")
	if panicked {
		vf.Tag("panic", msg)
	}
	vf.Assert(!panicked, "C09 no panic")
	n1, seq1 := pendingOps(l)
	id1 := l.GetOpID()
	if fail {
		vf.Assert(sliceEq(listJSON(l), before) && l.Size() == len(before), "C09 failed transaction leaves the readable state unchanged")
		vf.Assert(n1 == n0 && seq1 == seq0, "C09 failed transaction queues nothing")
		vf.Assert(id1.Seq == id0.Seq && id1.Lamport == id0.Lamport, "C09/C15 failed transaction leaves the identifiers unchanged")
		vf.Assert(listInv(l.snapshot()), "C09 state after rollback satisfies the invariant")
	} else {
		vf.Assert(n1 == n0+1+good && seq1 == seq0+uint64(1+good), "C09 committed transaction queues header + calls with contiguous sequence numbers")
		ops := l.CreatePushPullPack().Operations
		hdr := ops[n0]
		vf.Assert(hdr.OpType == model.TypeOfOperation_TRANSACTION, "C09 unit starts with a transaction header")
		txOp := operations.ModelToOperation(hdr).(*operations.TransactionOperation)
		vf.Assert(int(txOp.GetNumOfOps()) == 1+good, "C09 header announces the unit length")
		for i := n0; i < n1; i++ {
			vf.Assert(ops[i].ID.Seq == seq0+uint64(i-n0+1), "C09/C15 contiguous sequence numbers inside the unit")
		}
	}
	// the lock is released: a following call must complete (a hang is a deadlock outcome)
	_, err := l.Insert(0, "after")
	vf.Assert(err == nil, "C09 datatype usable after the transaction")
	n2, seq2 := pendingOps(l)
	vf.Assert(n2 == n1+1 && seq2 == seq1+1, "C09/C15 next operation continues the numbering")
	last := l.CreatePushPullPack().Operations[n2-1]
	vf.Assert(last.ID.Lamport > remoteLamport && last.ID.Lamport > id0.Lamport, "C15 a new local operation is ordered after every operation the replica has applied")
}

// VF_C09_Remote: a replica applies all operations of a delivered unit or, if
// the unit is truncated or mis-counted, none of them - and never panics or hangs.
func VF_C09_Remote() {
	src := vfNewList()
	_ = src.Transaction("unit", func(tx ListInTx) error {
		_, _ = tx.Insert(0, "a")
		_, _ = tx.Insert(1, "b")
		return nil
	})
	ops := src.CreatePushPullPack().Operations // header + 2 operations
	vf.Assert(len(ops) == 3, "source produced header + 2 operations")
	// mutate: header count arbitrary, unit possibly truncated
	n := vf.I32("numOfOps")
	hop := operations.NewTransactionOperation("unit")
	hop.SetNumOfOps(int(n))
	hop.SetID(ops[0].ID)
	hdr := hop.ToModelOperation()
	keep := 1 + vf.Choice("keep", 3) // 1..3 operations delivered
	unit := append([]*model.Operation{hdr}, ops[1:keep]...)
	vf.Tag("keep", keep)

	dstRaw, _ := newList(vfBase("k", model.TypeOfDatatype_LIST, "BBBBBBBBBBBBBBBB"), nil, nil)
	dst := dstRaw.(*list)
	var rerr error
	panicked, msg := vf.Try(func() {
		_, e := dst.ReceiveRemoteModelOperations(unit, false)
		rerr = toErr(e)
	})
	vf.Reach("delivered")
	if panicked {
		vf.Tag("panic", msg)
	}
	vf.Assert(!panicked, "C09 malformed unit must not panic")
	// A header announcing 1..keep operations is a well-formed stream (a unit of
	// that length followed by stand-alone operations); anything else - zero,
	// negative, or more than was delivered - is an incomplete or mis-counted unit.
	if vf.All(n >= 1, int(n) <= keep) {
		vf.Reach("well-formed")
		vf.Assert(rerr == nil, "C09 well-formed unit is accepted")
		vf.Assert(sliceEq(listJSON(dst), []interface{}{"a", "b"}[:keep-1]), "C09 complete unit is applied entirely")
	} else {
		vf.Reach("malformed")
		vf.Assert(dst.Size() == 0, "C09 incomplete or mis-counted unit applies nothing")
		vf.Assert(rerr != nil, "C09 incomplete or mis-counted unit is reported as an error")
	}
	vf.Assert(listInv(dst.snapshot()), "C09 state after delivery satisfies the invariant")
}

// VF_C09_LongHistory: size thresholds named in the code are boundary inputs.
// The client keeps its pending and rollback records in buffers created with
// constants.OperationBufferSize; a history just past that size (local calls, or
// operations received from another replica), followed by a failing transaction,
// must roll back to exactly the state before it, and the next call continues the
// numbering.  The constant is read from the code under check.
func VF_C09_LongHistory() {
	n := constants.OperationBufferSize + 5
	remote := vf.Choice("history", 2) == 1
	vf.Tag("remote", remote)
	c := vfNewCounter()
	want := int32(0)
	if remote {
		rRaw, _ := newCounter(vfBase("k", model.TypeOfDatatype_COUNTER, "BBBBBBBBBBBBBBBB"), nil, nil)
		r := rRaw.(*counter)
		for i := 0; i < n; i++ {
			_, _ = r.IncreaseBy(1)
		}
		_, e := c.ReceiveRemoteModelOperations(r.CreatePushPullPack().Operations, false)
		vf.Assert(e == nil, "C09 remote operations are applied")
		want = int32(n)
	} else {
		for i := 0; i < n; i++ {
			_, _ = c.IncreaseBy(1)
		}
		want = int32(n)
	}
	vf.Assert(c.Get() == want, "C03 the counter holds the sum")
	n0, seq0 := pendingOps(c)
	id0 := c.GetOpID().Clone()
	_ = c.Transaction("fails", func(tx CounterInTx) error {
		_, _ = tx.IncreaseBy(1000)
		return errors.New("body failed")
	})
	vf.Reach("rolled-back")
	vf.Assert(c.Get() == want, "C09 a failed transaction after a long history leaves the readable state unchanged")
	n1, seq1 := pendingOps(c)
	vf.Assert(n1 == n0 && seq1 == seq0, "C09 failed transaction queues nothing")
	vf.Assert(c.GetOpID().Seq == id0.Seq && c.GetOpID().Lamport == id0.Lamport, "C09/C15 failed transaction leaves the identifiers unchanged")
	_, err := c.IncreaseBy(7)
	vf.Assert(err == nil && c.Get() == want+7, "C09 datatype usable after the transaction")
	n2, seq2 := pendingOps(c)
	vf.Assert(n2 == n1+1 && seq2 == id0.Seq+1, "C09/C15 next operation continues the numbering")
}
