package orda

// Shared helpers of the /verif harnesses (injected by overlay).

import (
	gocontext "context"

	"github.com/orda-io/orda/client/pkg/context"
	"github.com/orda-io/orda/client/pkg/internal/datatypes"
	"github.com/orda-io/orda/client/pkg/model"
	"github.com/orda-io/orda/client/pkg/vf"
)

const (
	vfMaxLamport = uint64(1) << 62
	vfMaxDelim   = uint32(1) << 16
)

func vfBase(key string, t model.TypeOfDatatype, cuid string) *datatypes.BaseDatatype {
	cm := &model.Client{CUID: cuid}
	ctx := context.NewClientContext(gocontext.TODO(), cm)
	return datatypes.NewBaseDatatype(key, t, ctx, model.StateOfDatatype_DUE_TO_CREATE)
}

// vfOpTS is the timestamp of one operation: (era 0, symbolic lamport, symbolic client id, delimiter 0).
func vfOpTS(tag string) *model.Timestamp {
	l := vf.U64(tag + ".lamport")
	vf.Assume(vf.All(l >= 1, l < vfMaxLamport))
	return &model.Timestamp{Era: 0, Lamport: l, CUID: vf.UID(tag + ".cuid"), Delimiter: 0}
}

// vfNodeTS is the identifier of an element created by some earlier operation:
// like vfOpTS plus a symbolic delimiter (position inside its batch).
func vfNodeTS(tag string) *model.Timestamp {
	ts := vfOpTS(tag)
	d := vf.U32(tag + ".delim")
	vf.Assume(d < vfMaxDelim)
	ts.Delimiter = d
	return ts
}

func tsEq(a, b *model.Timestamp) bool {
	if a == nil || b == nil {
		return a == b
	}
	return vf.All(a.Era == b.Era, a.Lamport == b.Lamport, a.CUID == b.CUID, a.Delimiter == b.Delimiter)
}

// sameOp: two timestamps issued by the same operation (same clock and client).
func sameOp(a, b *model.Timestamp) bool {
	return vf.All(a.Era == b.Era, a.Lamport == b.Lamport, a.CUID == b.CUID)
}

// newer is the order of the property statement: logical clock, then client id.
func newer(a, b *model.Timestamp) bool {
	return vf.Any(a.Lamport > b.Lamport, vf.All(a.Lamport == b.Lamport, a.CUID > b.CUID))
}

func cloneTS(t *model.Timestamp) *model.Timestamp {
	if t == nil {
		return nil
	}
	return &model.Timestamp{Era: t.Era, Lamport: t.Lamport, CUID: t.CUID, Delimiter: t.Delimiter}
}
