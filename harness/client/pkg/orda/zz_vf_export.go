package orda

// Exported entry points for harnesses that live in other packages (the server
// module's service harnesses).  Verification overlay, add-only.

import (
	gocontext "context"

	mqtt "github.com/eclipse/paho.mqtt.golang"

	"github.com/orda-io/orda/client/pkg/context"
	"github.com/orda-io/orda/client/pkg/iface"
	"github.com/orda-io/orda/client/pkg/internal/datatypes"
	"github.com/orda-io/orda/client/pkg/internal/managers"
	"github.com/orda-io/orda/client/pkg/model"
)

// VFNewClient builds the real client (clientImpl, DatatypeManager, SyncManager)
// connected to svc, with a fixed CUID.
func VFNewClient(collection, alias, cuid string, syncType model.SyncType, svc model.OrdaServiceClient) Client {
	cm := &model.Client{CUID: cuid, Alias: alias, Collection: collection, Type: model.ClientType_PERSISTENT, SyncType: syncType}
	ctx := context.NewClientContext(gocontext.TODO(), cm)
	sm := managers.NewSyncManagerWithService(ctx, cm, svc)
	dm := managers.NewDatatypeManager(ctx, sm)
	return &clientImpl{conf: &ClientConfig{CollectionName: collection, SyncType: syncType}, ctx: ctx, state: connected, syncManager: sm, datatypeManager: dm}
}

// VFNewRealtimeClient builds the real realtime client: as VFNewClient, with the
// real NotifyManager (subscription callback, channel, notification loop)
// around the given MQTT client.
func VFNewRealtimeClient(collection, alias, cuid string, svc model.OrdaServiceClient, mq mqtt.Client) Client {
	cm := &model.Client{CUID: cuid, Alias: alias, Collection: collection, Type: model.ClientType_PERSISTENT, SyncType: model.SyncType_REALTIME}
	ctx := context.NewClientContext(gocontext.TODO(), cm)
	sm := managers.NewSyncManagerWithServiceAndNotifier(ctx, cm, svc, mq)
	dm := managers.NewDatatypeManager(ctx, sm)
	return &clientImpl{conf: &ClientConfig{CollectionName: collection, SyncType: model.SyncType_REALTIME}, ctx: ctx, state: connected, syncManager: sm, datatypeManager: dm}
}

// VFRegister sends the client registration request (what Connect does after dialling).
func VFRegister(c Client) error {
	if err := c.(*clientImpl).syncManager.ExchangeClientRequestResponse(); err != nil {
		return err
	}
	return nil
}

func vfWired(dt interface{}) *datatypes.WiredDatatype {
	switch d := dt.(type) {
	case *counter:
		return d.WiredDatatype
	case *ordaMap:
		return d.WiredDatatype
	case *list:
		return d.WiredDatatype
	case *document:
		return d.WiredDatatype
	}
	panic("vfWired: unknown datatype")
}

// VFSyncState returns checkpoint (s, c), the next sequence number counter and
// the number of operations in the local buffer.
func VFSyncState(dt interface{}) (s, c, seq uint64, buffered int) {
	w := vfWired(dt)
	pack := w.CreatePushPullPack()
	return pack.CheckPoint.Sseq, pack.CheckPoint.Cseq - uint64(len(pack.Operations)), w.GetOpID().Seq, len(pack.Operations)
}

// VFCreatePack / VFApplyPack expose one half of an exchange each, so that a
// harness can drop, duplicate or delay messages.
func VFCreatePack(dt interface{}) *model.PushPullPack { return vfWired(dt).CreatePushPullPack() }
func VFApplyPack(dt interface{}, p *model.PushPullPack) { vfWired(dt).ApplyPushPullPack(p) }

func VFDatatypeState(dt interface{}) model.StateOfDatatype { return dt.(iface.Datatype).GetState() }
func VFDUID(dt interface{}) string                         { return dt.(iface.Datatype).GetDUID() }

// VFNotify hands a notification to the client's datatype manager (what the
// MQTT subscription loop does).
func VFNotify(c Client, topic string, n model.Notification) {
	c.(*clientImpl).datatypeManager.ReceiveNotification(topic, n)
}

// VFNewSubscribedCounter builds a counter of client `cuid` that is already
// subscribed to datatype `duid`, with checkpoint (s, c) and next sequence
// number c+1, then performs the given local increases (which stay pending).
func VFNewSubscribedCounter(cuid, duid, key string, s, c uint64, pending []int32) Counter {
	cm := &model.Client{CUID: cuid, SyncType: model.SyncType_MANUALLY}
	ctx := context.NewClientContext(gocontext.TODO(), cm)
	base := datatypes.NewBaseDatatype(key, model.TypeOfDatatype_COUNTER, ctx, model.StateOfDatatype_SUBSCRIBED)
	cnt, err := newCounter(base, nil, nil)
	if err != nil {
		panic(err)
	}
	ct := cnt.(*counter)
	ct.SetDUID(duid)
	ct.SetCheckPoint(s, c)
	ct.GetOpID().Seq = c
	if err := ct.ResetTransaction(); err != nil {
		panic(err)
	}
	for _, d := range pending {
		if _, e := ct.IncreaseBy(d); e != nil {
			panic(e)
		}
	}
	return ct
}
