package orda

// Inductive-step lemmas for the RGA list (C01, C02, C04, C15-delimiters).

import (
	"github.com/orda-io/orda/client/pkg/model"
	"github.com/orda-io/orda/client/pkg/vf"
)

// listSpec is a symbolic list pre-state: a chain of k nodes with symbolic
// identifiers, optional tombstones and optional later value-times.
type nodeSpec struct {
	O    *model.Timestamp // order time (identifier)
	T    *model.Timestamp // value time; nil => same as O
	tomb bool
	val  string
}

type listSpec struct {
	nodes []nodeSpec
}

func vfListSpec(tag string, k int) *listSpec {
	sp := &listSpec{}
	for i := 0; i < k; i++ {
		n := nodeSpec{O: vfNodeTS(tag + ".n" + string(rune('0'+i)) + ".O"), val: "v" + string(rune('0'+i))}
		switch vf.Choice(tag+".n"+string(rune('0'+i))+".kind", 3) {
		case 0: // live, never updated
		case 1: // tombstone (deleted by a later operation)
			n.tomb = true
			n.T = vfNodeTS(tag + ".n" + string(rune('0'+i)) + ".T")
			vf.Assume(n.T.Lamport > n.O.Lamport)
		case 2: // live, updated by a later operation
			n.T = vfNodeTS(tag + ".n" + string(rune('0'+i)) + ".T")
			vf.Assume(n.T.Lamport > n.O.Lamport)
		}
		// identifiers are pairwise distinct (C15)
		for j := 0; j < i; j++ {
			vf.Assume(!tsEq(n.O, sp.nodes[j].O))
		}
		sp.nodes = append(sp.nodes, n)
	}
	return sp
}

// build materialises the spec as a real listSnapshot (A.2 holds by construction).
func (sp *listSpec) build() *listSnapshot {
	base := vfBase("k", model.TypeOfDatatype_LIST, "AAAAAAAAAAAAAAAA")
	ls := newListSnapshot(base)
	prev := ls.head
	for _, n := range sp.nodes {
		t := n.T
		if t == nil {
			t = n.O
		}
		var v interface{} = n.val
		if n.tomb {
			v = nil
		}
		node := &orderedNode{timedType: newTimedNode(v, cloneTS(t)), O: cloneTS(n.O)}
		if n.T == nil { // never updated: value time *is* the order time object
			node.timedType.setTime(node.O)
		}
		prev.insertNext(node)
		ls.Map[node.hash()] = node
		if !n.tomb {
			ls.size++
		}
		prev = node
	}
	return ls
}

// remote list operation in identifier form
type listOp struct {
	kind    int // 0 insert, 1 delete, 2 update
	ts      *model.Timestamp
	anchor  *model.Timestamp   // insert
	targets []*model.Timestamp // delete/update
	vals    []interface{}
}

// pick chooses an existing identifier of the spec (index 0 = head for inserts).
func (sp *listSpec) pick(tag string, withHead bool) (*model.Timestamp, int) {
	n := len(sp.nodes)
	if withHead {
		c := vf.Choice(tag, n+1)
		if c == 0 {
			return model.OldestTimestamp(), -1
		}
		return sp.nodes[c-1].O, c - 1
	}
	c := vf.Choice(tag, n)
	return sp.nodes[c].O, c
}

func vfListOp(tag string, sp *listSpec, maxBatch int) *listOp {
	op := &listOp{kind: vf.Choice(tag+".kind", 3), ts: vfOpTS(tag + ".ts")}
	// an operation has its own (clock, client): distinct from every identifier and value time in S
	for _, n := range sp.nodes {
		vf.Assume(!sameOp(op.ts, n.O))
		if n.T != nil {
			vf.Assume(!sameOp(op.ts, n.T))
		}
	}
	nb := 1 + vf.Choice(tag+".batch", maxBatch)
	switch op.kind {
	case 0:
		var idx int
		op.anchor, idx = sp.pick(tag+".anchor", true)
		if idx >= 0 {
			// the issuer had seen the anchor: Lamport clocks
			vf.Assume(op.ts.Lamport > sp.nodes[idx].O.Lamport)
		}
		for i := 0; i < nb; i++ {
			op.vals = append(op.vals, tag+".v"+string(rune('0'+i)))
		}
	default:
		if len(sp.nodes) == 0 {
			vf.Assume(false)
		}
		seen := map[int]bool{}
		for i := 0; i < nb && i < len(sp.nodes); i++ {
			t, idx := sp.pick(tag+".target"+string(rune('0'+i)), false)
			if seen[idx] {
				vf.Assume(false)
			}
			seen[idx] = true
			vf.Assume(op.ts.Lamport > sp.nodes[idx].O.Lamport)
			op.targets = append(op.targets, t)
			op.vals = append(op.vals, tag+".u"+string(rune('0'+i)))
		}
	}
	return op
}

func cloneTSList(l []*model.Timestamp) []*model.Timestamp {
	var r []*model.Timestamp
	for _, t := range l {
		r = append(r, cloneTS(t))
	}
	return r
}

func (op *listOp) apply(ls *listSnapshot) {
	switch op.kind {
	case 0:
		_ = ls.insertRemote(cloneTS(op.anchor), cloneTS(op.ts), op.vals...)
	case 1:
		_, _ = ls.deleteRemote(cloneTSList(op.targets), cloneTS(op.ts))
	case 2:
		_, _ = ls.updateRemote(cloneTSList(op.targets), op.vals, cloneTS(op.ts))
	}
}

// chain returns the nodes after head.
func chainOf(ls *listSnapshot) []orderedType {
	var r []orderedType
	for n := ls.head.getNext(); n != nil; n = n.getNext() {
		r = append(r, n)
		if len(r) > 64 {
			vf.Assert(false, "L3 chain is finite")
		}
	}
	return r
}

// sameList: full structural equality of two list states.
func sameList(a, b *listSnapshot) bool {
	ca, cb := chainOf(a), chainOf(b)
	if len(ca) != len(cb) || a.size != b.size || len(a.Map) != len(b.Map) {
		return false
	}
	for i := range ca {
		x, y := ca[i], cb[i]
		if !tsEq(x.getOrderTime(), y.getOrderTime()) || !tsEq(x.getTime(), y.getTime()) {
			return false
		}
		if x.isTomb() != y.isTomb() {
			return false
		}
		if !x.isTomb() && x.getValue() != y.getValue() {
			return false
		}
	}
	return true
}

// listInv is the representation invariant A.2.
func listInv(ls *listSnapshot) bool {
	c := chainOf(ls)
	live := 0
	var prev orderedType = ls.head
	if ls.head.getPrev() != nil || ls.head.getValue() != nil {
		return false
	}
	for _, n := range c {
		if n.getPrev() != prev {
			return false
		}
		if !n.isTomb() {
			live++
		}
		m, ok := ls.Map[n.hash()]
		if !ok || m != n {
			return false
		}
		if n.getTime() == nil {
			return false
		}
		prev = n
	}
	if hm, ok := ls.Map[ls.head.hash()]; !ok || hm != ls.head {
		return false
	}
	return live == ls.size && len(ls.Map) == len(c)+1
}

// posOf returns the chain position of identifier t (or -1).
func posOf(ls *listSnapshot, t *model.Timestamp) int {
	for i, n := range chainOf(ls) {
		if tsEq(n.getOrderTime(), t) {
			return i
		}
	}
	return -1
}

func countOf(ls *listSnapshot, t *model.Timestamp) int {
	c := 0
	for _, n := range chainOf(ls) {
		if tsEq(n.getOrderTime(), t) {
			c++
		}
	}
	return c
}

// orderStable: every two pre-state elements keep their relative order.
func orderStable(sp *listSpec, ls *listSnapshot) bool {
	last := -1
	for _, n := range sp.nodes {
		p := posOf(ls, n.O)
		if p < 0 || p <= last {
			return false
		}
		last = p
	}
	return true
}

func listBounds() (k, batch int) {
	if vf.Tier() == 1 {
		return 3, 2
	}
	return 2, 2
}

const (
	modeC01 = 1 << iota // commutation + invariant
	modeC02             // conflict outcome against the reference
	modeC04             // element integrity
)

// listL1 is the inductive step for two concurrent remote list operations on an
// arbitrary state: they commute (C01), preserve the invariant (L3), never
// duplicate/lose/reorder/resurrect elements (C04) and resolve conflicts as the
// statement says (C02).
func listL1(mode int) {
	vf.HashAbstract(true)
	K, B := listBounds()
	k := vf.Choice("k", K+1)
	sp := vfListSpec("S", k)
	a := vfListOp("a", sp, B)
	b := vfListOp("b", sp, B)
	vf.Assume(!sameOp(a.ts, b.ts))
	vf.Tag("pair", string(rune('0'+a.kind))+string(rune('0'+b.kind)))

	s1, s2 := sp.build(), sp.build()
	vf.Assert(listInv(s1), "A.2 holds on the constructed pre-state")
	a.apply(s1)
	// the first replica is read between the two operations, the second is not: reading
	// (ToJSON, Get, Size walk the live elements) must not influence what follows
	_ = s1.ToJSON()
	if mode&(modeC02|modeC04) != 0 {
		checkInsertPlacement(s1, a)
	}
	if mode&modeC01 != 0 {
		vf.Assert(listInv(s1), "L3 invariant after a")
	}
	if mode&modeC04 != 0 {
		vf.Assert(orderStable(sp, s1), "C04 order stable after a")
	}
	b.apply(s1)
	b.apply(s2)
	if mode&(modeC02|modeC04) != 0 {
		checkInsertPlacement(s2, b)
	}
	if mode&modeC01 != 0 {
		vf.Assert(listInv(s2), "L3 invariant after b")
	}
	if mode&modeC04 != 0 {
		vf.Assert(orderStable(sp, s2), "C04 order stable after b")
	}
	a.apply(s2)
	vf.Reach("applied")
	if mode&modeC01 != 0 {
		vf.Assert(listInv(s1) && listInv(s2), "L3 invariant after both")
		vf.Assert(sameList(s1, s2), "L1 a;b == b;a")
		vf.Assert(jsonEqList(s1, s2), "C01 same JSON view and size")
	}
	if mode&modeC04 != 0 {
		vf.Assert(orderStable(sp, s1) && orderStable(sp, s2), "C04 order stable after both")
		vf.Assert(sameOrder(s1, s2), "C04 any two elements appear in the same relative order on both replicas")
		vf.Assert(jsonEqList(s1, s2), "C04 every live element is readable, once, on both replicas")
	}
	checkListOutcome(sp, s1, a, b, mode)
	checkListOutcome(sp, s2, a, b, mode)
}

// sameOrder: both chains list the same identifiers in the same order.
func sameOrder(a, b *listSnapshot) bool {
	ca, cb := chainOf(a), chainOf(b)
	if len(ca) != len(cb) {
		return false
	}
	for i := range ca {
		if !tsEq(ca[i].getOrderTime(), cb[i].getOrderTime()) {
			return false
		}
	}
	return true
}

// checkInsertPlacement is the placement rule of the statement for one insert
// applied to a state: the batch sits behind its anchor, separated from it only
// by elements that were inserted (order time) later than the batch, and is
// followed by an element inserted earlier (or by nothing).  Value times
// (updates, deletes) of the neighbours must not matter.
func checkInsertPlacement(ls *listSnapshot, op *listOp) {
	if op.kind != 0 {
		return
	}
	c := chainOf(ls)
	first := &model.Timestamp{Era: 0, Lamport: op.ts.Lamport, CUID: op.ts.CUID, Delimiter: 0}
	pf := posOf(ls, first)
	vf.Assert(pf >= 0, "C04 inserted element present")
	pa := posOf(ls, op.anchor) // -1 = head
	vf.Assert(pa < pf, "C04 an element is placed behind its anchor")
	for i := pa + 1; i < pf; i++ {
		vf.Assert(newer(c[i].getOrderTime(), op.ts), "C02 only elements inserted later may stand between an element and its anchor")
	}
	last := pf + len(op.vals) - 1
	if last+1 < len(c) {
		vf.Assert(!newer(c[last+1].getOrderTime(), op.ts), "C02 an element inserted later at the same place comes first")
	}
}

func jsonEqList(a, b *listSnapshot) bool {
	ja, jb := a.ToJSON().([]interface{}), b.ToJSON().([]interface{})
	if len(ja) != len(jb) || a.Size() != b.Size() || len(ja) != a.Size() {
		return false
	}
	for i := range ja {
		if ja[i] != jb[i] {
			return false
		}
	}
	return true
}

func VF_List_L1()  { listL1(modeC01) }
func VF_List_C02() { listL1(modeC02) }
func VF_List_C04() { listL1(modeC04) }

// checkListOutcome is the reference of C02/C04 written from the statement.
func checkListOutcome(sp *listSpec, ls *listSnapshot, a, b *listOp, mode int) {
	ops := []*listOp{a, b}
	// every inserted element exactly once, in batch order, right of its anchor
	for _, op := range ops {
		if op.kind != 0 || mode&modeC04 == 0 {
			continue
		}
		last := posOf(ls, op.anchor) // -1 for head
		for i := range op.vals {
			id := &model.Timestamp{Era: op.ts.Era, Lamport: op.ts.Lamport, CUID: op.ts.CUID, Delimiter: uint32(i)}
			vf.Assert(countOf(ls, id) == 1, "C04 inserted element present exactly once")
			p := posOf(ls, id)
			vf.Assert(p > last, "C04 batch in order, right of its anchor")
			last = p
		}
	}
	// concurrent inserts at the same place: newest first
	if mode&modeC02 != 0 && a.kind == 0 && b.kind == 0 && tsEq(a.anchor, b.anchor) {
		vf.Reach("same-anchor")
		ia := &model.Timestamp{Era: 0, Lamport: a.ts.Lamport, CUID: a.ts.CUID, Delimiter: 0}
		ib := &model.Timestamp{Era: 0, Lamport: b.ts.Lamport, CUID: b.ts.CUID, Delimiter: 0}
		if newer(a.ts, b.ts) {
			vf.Assert(posOf(ls, ia) < posOf(ls, ib), "C02 concurrent inserts newest first")
		} else {
			vf.Assert(posOf(ls, ib) < posOf(ls, ia), "C02 concurrent inserts newest first")
		}
	}
	// per pre-state element: deleted stays deleted; else newest update wins
	for _, n := range sp.nodes {
		node := ls.Map[n.O.Hash()]
		deleted := n.tomb
		bestT := n.T
		if bestT == nil {
			bestT = n.O
		}
		var bestV interface{} = n.val
		for _, op := range ops {
			for i, t := range op.targets {
				if !tsEq(t, n.O) {
					continue
				}
				if op.kind == 1 {
					deleted = true
				}
				if op.kind == 2 {
					ut := &model.Timestamp{Era: 0, Lamport: op.ts.Lamport, CUID: op.ts.CUID, Delimiter: uint32(i)}
					if newer(ut, bestT) {
						bestT, bestV = ut, op.vals[i]
					}
				}
			}
		}
		if deleted {
			if mode&(modeC02|modeC04) != 0 {
				vf.Assert(node.isTomb(), "C02/C04 deleted element stays deleted")
			}
		} else if mode&modeC02 != 0 {
			vf.Assert(!node.isTomb() && node.getValue() == bestV, "C02 newest update wins")
		} else if mode&modeC04 != 0 {
			vf.Assert(!node.isTomb(), "C04 element not deleted by anyone stays live")
		}
	}
}

// VF_List_L2: a valid local call (position form) yields the same successor
// state as delivering the operation it emitted (identifier form) to a copy,
// and a local insert at index i is immediately readable at index i (C04).
func VF_List_L2() {
	vf.HashAbstract(true)
	K, B := listBounds()
	k := vf.Choice("k", K+1)
	sp := vfListSpec("S", k)
	ts := vfOpTS("op.ts")
	// L4: a new local identifier is greater than everything the replica has applied
	for _, n := range sp.nodes {
		vf.Assume(ts.Lamport > n.O.Lamport)
		if n.T != nil {
			vf.Assume(ts.Lamport > n.T.Lamport)
		}
	}
	s1, s2 := sp.build(), sp.build()
	size := s1.size
	kind := vf.Choice("op.kind", 3)
	nb := 1 + vf.Choice("op.batch", B)
	vf.Tag("kind", string(rune('0'+kind)))
	switch kind {
	case 0:
		pos := vf.Choice("op.pos", size+1)
		var vals []interface{}
		for i := 0; i < nb; i++ {
			vals = append(vals, "new"+string(rune('0'+i)))
		}
		anchor, _ := s1.insertLocal(pos, cloneTS(ts), vals...)
		_ = s2.insertRemote(cloneTS(anchor), cloneTS(ts), vals...)
		vf.Reach("insert")
		for i := range vals {
			vf.Assert(s1.findValue(pos+i) == vals[i], "C04 local insert readable at its index")
		}
		vf.Assert(s1.size == size+nb, "C04 size grows by the batch")
	case 1:
		if size == 0 {
			vf.Assume(false)
		}
		pos := vf.Choice("op.pos", size)
		if pos+nb > size {
			vf.Assume(false)
		}
		var want []interface{}
		for i := 0; i < nb; i++ {
			want = append(want, s1.findValue(pos+i))
		}
		targets, _, vals := s1.deleteLocal(pos, nb, cloneTS(ts))
		_, _ = s2.deleteRemote(cloneTSList(targets), cloneTS(ts))
		vf.Reach("delete")
		vf.Assert(len(vals) == nb && s1.size == size-nb, "C03 delete removes nb elements")
		for i := range vals {
			vf.Assert(vals[i] == want[i], "C03 delete returns the deleted values")
		}
	case 2:
		if size == 0 {
			vf.Assume(false)
		}
		pos := vf.Choice("op.pos", size)
		if pos+nb > size {
			vf.Assume(false)
		}
		var vals []interface{}
		for i := 0; i < nb; i++ {
			vals = append(vals, "upd"+string(rune('0'+i)))
		}
		targets, _, _ := s1.updateLocal(pos, cloneTS(ts), vals)
		_, _ = s2.updateRemote(cloneTSList(targets), vals, cloneTS(ts))
		vf.Reach("update")
		for i := range vals {
			vf.Assert(s1.findValue(pos+i) == vals[i], "C03 update readable")
		}
		vf.Assert(s1.size == size, "C03 update keeps the size")
	}
	vf.Assert(listInv(s1) && listInv(s2), "L3 invariant after local / remote form")
	vf.Assert(sameList(s1, s2), "L2 local == remote")
	vf.Assert(orderStable(sp, s1), "C04 order stable after local op")
}
