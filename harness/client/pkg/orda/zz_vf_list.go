package orda

// Inductive-step lemmas for the RGA list (C01, C02, C04, C15-delimiters).

import (
	"github.com/orda-io/orda/client/pkg/model"
	"github.com/orda-io/orda/client/pkg/vf"
)

// listSpec is a symbolic list pre-state: a chain of k nodes with symbolic
// identifiers, optional tombstones and optional later value-times.
type nodeSpec struct {
	O    *model.Timestamp // order time (identifier)
	T    *model.Timestamp // value time; nil => same as O
	tomb bool
	val  string
}

type listSpec struct {
	nodes []nodeSpec
}

func vfListSpec(tag string, k int) *listSpec {
	sp := &listSpec{}
	for i := 0; i < k; i++ {
		n := nodeSpec{O: vfNodeTS(tag + ".n" + string(rune('0'+i)) + ".O"), val: "v" + string(rune('0'+i))}
		switch vf.Choice(tag+".n"+string(rune('0'+i))+".kind", 3) {
		case 0: // live, never updated
		case 1: // tombstone (deleted by a later operation)
			n.tomb = true
			n.T = vfNodeTS(tag + ".n" + string(rune('0'+i)) + ".T")
			vf.Assume(n.T.Lamport > n.O.Lamport)
		case 2: // live, updated by a later operation
			n.T = vfNodeTS(tag + ".n" + string(rune('0'+i)) + ".T")
			vf.Assume(n.T.Lamport > n.O.Lamport)
		}
		// identifiers are pairwise distinct (C15)
		for j := 0; j < i; j++ {
			vf.Assume(!tsEq(n.O, sp.nodes[j].O))
		}
		sp.nodes = append(sp.nodes, n)
	}
	return sp
}

// build materialises the spec as a real listSnapshot (A.2 holds by construction).
func (sp *listSpec) build() *listSnapshot {
	base := vfBase("k", model.TypeOfDatatype_LIST, "AAAAAAAAAAAAAAAA")
	ls := newListSnapshot(base)
	prev := ls.head
	for _, n := range sp.nodes {
		t := n.T
		if t == nil {
			t = n.O
		}
		var v interface{} = n.val
		if n.tomb {
			v = nil
		}
		node := &orderedNode{timedType: newTimedNode(v, cloneTS(t)), O: cloneTS(n.O)}
		if n.T == nil { // never updated: value time *is* the order time object
			node.timedType.setTime(node.O)
		}
		prev.insertNext(node)
		ls.Map[node.hash()] = node
		if !n.tomb {
			ls.size++
		}
		prev = node
	}
	return ls
}

// remote list operation in identifier form
type listOp struct {
	kind    int // 0 insert, 1 delete, 2 update
	ts      *model.Timestamp
	anchor  *model.Timestamp   // insert
	targets []*model.Timestamp // delete/update
	vals    []interface{}
}

// pick chooses an existing identifier of the spec (index 0 = head for inserts).
func (sp *listSpec) pick(tag string, withHead bool) (*model.Timestamp, int) {
	n := len(sp.nodes)
	if withHead {
		c := vf.Choice(tag, n+1)
		if c == 0 {
			return model.OldestTimestamp(), -1
		}
		return sp.nodes[c-1].O, c - 1
	}
	c := vf.Choice(tag, n)
	return sp.nodes[c].O, c
}

func vfListOp(tag string, sp *listSpec, maxBatch int) *listOp {
	op := &listOp{kind: vf.Choice(tag+".kind", 3), ts: vfOpTS(tag + ".ts")}
	// an operation has its own (clock, client): distinct from every identifier and value time in S
	for _, n := range sp.nodes {
		vf.Assume(!sameOp(op.ts, n.O))
		if n.T != nil {
			vf.Assume(!sameOp(op.ts, n.T))
		}
	}
	nb := 1 + vf.Choice(tag+".batch", maxBatch)
	switch op.kind {
	case 0:
		var idx int
		op.anchor, idx = sp.pick(tag+".anchor", true)
		if idx >= 0 {
			// the issuer had seen the anchor: Lamport clocks
			vf.Assume(op.ts.Lamport > sp.nodes[idx].O.Lamport)
		}
		for i := 0; i < nb; i++ {
			op.vals = append(op.vals, tag+".v"+string(rune('0'+i)))
		}
	default:
		if len(sp.nodes) == 0 {
			vf.Assume(false)
		}
		seen := map[int]bool{}
		for i := 0; i < nb && i < len(sp.nodes); i++ {
			t, idx := sp.pick(tag+".target"+string(rune('0'+i)), false)
			if seen[idx] {
				vf.Assume(false)
			}
			seen[idx] = true
			vf.Assume(op.ts.Lamport > sp.nodes[idx].O.Lamport)
			op.targets = append(op.targets, t)
			op.vals = append(op.vals, tag+".u"+string(rune('0'+i)))
		}
	}
	return op
}

func cloneTSList(l []*model.Timestamp) []*model.Timestamp {
	var r []*model.Timestamp
	for _, t := range l {
		r = append(r, cloneTS(t))
	}
	return r
}

func (op *listOp) apply(ls *listSnapshot) {
	switch op.kind {
	case 0:
		_ = ls.insertRemote(cloneTS(op.anchor), cloneTS(op.ts), op.vals...)
	case 1:
		_, _ = ls.deleteRemote(cloneTSList(op.targets), cloneTS(op.ts))
	case 2:
		_, _ = ls.updateRemote(cloneTSList(op.targets), op.vals, cloneTS(op.ts))
	}
}

// chain returns the nodes after head.
func chainOf(ls *listSnapshot) []orderedType {
	var r []orderedType
	for n := ls.head.getNext(); n != nil; n = n.getNext() {
		r = append(r, n)
		if len(r) > 64 {
			vf.Assert(false, "L3 chain is finite")
		}
	}
	return r
}

// sameList: full structural equality of two list states.
func sameList(a, b *listSnapshot) bool {
	ca, cb := chainOf(a), chainOf(b)
	if len(ca) != len(cb) || a.size != b.size || len(a.Map) != len(b.Map) {
		return false
	}
	for i := range ca {
		x, y := ca[i], cb[i]
		if !tsEq(x.getOrderTime(), y.getOrderTime()) || !tsEq(x.getTime(), y.getTime()) {
			return false
		}
		if x.isTomb() != y.isTomb() {
			return false
		}
		if !x.isTomb() && x.getValue() != y.getValue() {
			return false
		}
	}
	return true
}

// listInv is the representation invariant A.2.
func listInv(ls *listSnapshot) bool {
	c := chainOf(ls)
	live := 0
	var prev orderedType = ls.head
	if ls.head.getPrev() != nil || ls.head.getValue() != nil {
		return false
	}
	for _, n := range c {
		if n.getPrev() != prev {
			return false
		}
		if !n.isTomb() {
			live++
		}
		m, ok := ls.Map[n.hash()]
		if !ok || m != n {
			return false
		}
		if n.getTime() == nil {
			return false
		}
		prev = n
	}
	if hm, ok := ls.Map[ls.head.hash()]; !ok || hm != ls.head {
		return false
	}
	return live == ls.size && len(ls.Map) == len(c)+1
}

// posOf returns the chain position of identifier t (or -1).
func posOf(ls *listSnapshot, t *model.Timestamp) int {
	for i, n := range chainOf(ls) {
		if tsEq(n.getOrderTime(), t) {
			return i
		}
	}
	return -1
}

func countOf(ls *listSnapshot, t *model.Timestamp) int {
	c := 0
	for _, n := range chainOf(ls) {
		if tsEq(n.getOrderTime(), t) {
			c++
		}
	}
	return c
}

// orderStable: every two pre-state elements keep their relative order.
func orderStable(sp *listSpec, ls *listSnapshot) bool {
	last := -1
	for _, n := range sp.nodes {
		p := posOf(ls, n.O)
		if p < 0 || p <= last {
			return false
		}
		last = p
	}
	return true
}

func listBounds() (k, batch int) {
	if vf.Tier() == 1 {
		return 3, 2
	}
	return 2, 2
}

// VF_List_L1: two concurrent remote operations commute on an arbitrary state
// (C01), preserve the invariant (L3), never duplicate/lose/reorder/resurrect
// elements (C04) and resolve conflicts as the statement says (C02).
func VF_List_L1() {
	vf.HashAbstract(true)
	K, B := listBounds()
	k := vf.Choice("k", K+1)
	sp := vfListSpec("S", k)
	a := vfListOp("a", sp, B)
	b := vfListOp("b", sp, B)
	vf.Assume(!sameOp(a.ts, b.ts))
	vf.Tag("pair", string(rune('0'+a.kind))+string(rune('0'+b.kind)))

	s1, s2 := sp.build(), sp.build()
	vf.Assert(listInv(s1), "A.2 holds on the constructed pre-state")
	a.apply(s1)
	vf.Assert(listInv(s1), "L3 invariant after a")
	vf.Assert(orderStable(sp, s1), "C04 order stable after a")
	b.apply(s1)
	b.apply(s2)
	vf.Assert(listInv(s2), "L3 invariant after b")
	vf.Assert(orderStable(sp, s2), "C04 order stable after b")
	a.apply(s2)
	vf.Reach("applied")
	vf.Assert(listInv(s1) && listInv(s2), "L3 invariant after both")
	vf.Assert(sameList(s1, s2), "L1 a;b == b;a")
	vf.Assert(orderStable(sp, s1), "C04 order stable after both")
	checkListOutcome(sp, s1, a, b)
}

// checkListOutcome is the reference of C02/C04 written from the statement.
func checkListOutcome(sp *listSpec, ls *listSnapshot, a, b *listOp) {
	ops := []*listOp{a, b}
	// every inserted element exactly once, in batch order, right of its anchor
	for _, op := range ops {
		if op.kind != 0 {
			continue
		}
		last := posOf(ls, op.anchor) // -1 for head
		for i := range op.vals {
			id := &model.Timestamp{Era: op.ts.Era, Lamport: op.ts.Lamport, CUID: op.ts.CUID, Delimiter: uint32(i)}
			vf.Assert(countOf(ls, id) == 1, "C04 inserted element present exactly once")
			p := posOf(ls, id)
			vf.Assert(p > last, "C04 batch in order, right of its anchor")
			last = p
		}
	}
	// concurrent inserts at the same place: newest first
	if a.kind == 0 && b.kind == 0 && tsEq(a.anchor, b.anchor) {
		vf.Reach("same-anchor")
		ia := &model.Timestamp{Era: 0, Lamport: a.ts.Lamport, CUID: a.ts.CUID, Delimiter: 0}
		ib := &model.Timestamp{Era: 0, Lamport: b.ts.Lamport, CUID: b.ts.CUID, Delimiter: 0}
		if newer(a.ts, b.ts) {
			vf.Assert(posOf(ls, ia) < posOf(ls, ib), "C02 concurrent inserts newest first")
		} else {
			vf.Assert(posOf(ls, ib) < posOf(ls, ia), "C02 concurrent inserts newest first")
		}
	}
	// per pre-state element: deleted stays deleted; else newest update wins
	for _, n := range sp.nodes {
		node := ls.Map[n.O.Hash()]
		deleted := n.tomb
		bestT := n.T
		if bestT == nil {
			bestT = n.O
		}
		var bestV interface{} = n.val
		for _, op := range ops {
			for i, t := range op.targets {
				if !tsEq(t, n.O) {
					continue
				}
				if op.kind == 1 {
					deleted = true
				}
				if op.kind == 2 {
					ut := &model.Timestamp{Era: 0, Lamport: op.ts.Lamport, CUID: op.ts.CUID, Delimiter: uint32(i)}
					if newer(ut, bestT) {
						bestT, bestV = ut, op.vals[i]
					}
				}
			}
		}
		if deleted {
			vf.Assert(node.isTomb(), "C02/C04 deleted element stays deleted")
		} else {
			vf.Assert(!node.isTomb() && node.getValue() == bestV, "C02 newest update wins")
		}
	}
}
