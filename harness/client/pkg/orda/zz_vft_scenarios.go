package orda

// Translator validation: deterministic scenarios (ported from the repository's
// own unit tests) whose observation string must be identical when the function
// is executed by the symbolic engine (all values concrete) and natively.

import (
	"encoding/json"
	"errors"
	"fmt"
	"sort"

	"github.com/orda-io/orda/client/pkg/model"
)

func obsJSON(v interface{}) string {
	switch x := v.(type) {
	case map[string]interface{}:
		keys := make([]string, 0, len(x))
		for k := range x {
			keys = append(keys, k)
		}
		sort.Strings(keys)
		s := "{"
		for i, k := range keys {
			if i > 0 {
				s += ","
			}
			s += k + ":" + obsJSON(x[k])
		}
		return s + "}"
	case []interface{}:
		s := "["
		for i, e := range x {
			if i > 0 {
				s += ","
			}
			s += obsJSON(e)
		}
		return s + "]"
	case nil:
		return "null"
	}
	return fmt.Sprint(v)
}

func obsErr(e interface{ Error() string }) string {
	if e == nil {
		return "ok"
	}
	return "err"
}

// VFT_List: the list scenario of list_test.go (perform, delete, update, remote inserts).
func VFT_List() string {
	out := ""
	l1raw, _ := newList(vfBase("k", model.TypeOfDatatype_LIST, "AAAAAAAAAAAAAAAA"), nil, nil)
	l2raw, _ := newList(vfBase("k", model.TypeOfDatatype_LIST, "BBBBBBBBBBBBBBBB"), nil, nil)
	l1, l2 := l1raw.(*list), l2raw.(*list)
	_, e := l1.InsertMany(0, "x", "y", 1, 2.5, true)
	out += obsErr(e) + obsJSON(l1.snapshot().ToJSON())
	_, e = l1.Insert(7, "bad")
	out += obsErr(e)
	v, e := l1.Get(3)
	out += obsErr(e) + fmt.Sprint(v)
	d, e := l1.DeleteMany(1, 2)
	out += obsErr(e) + obsJSON(d) + obsJSON(l1.snapshot().ToJSON())
	u, e := l1.Update(0, "X", "Y")
	out += obsErr(e) + obsJSON(u) + fmt.Sprint(l1.Size())
	ops := l1.CreatePushPullPack().Operations
	_, e2 := l2.ReceiveRemoteModelOperations(ops, false)
	out += obsErr(e2) + obsJSON(l2.snapshot().ToJSON())
	_, _ = l2.Insert(1, "from2")
	_, _ = l1.Insert(1, "from1")
	o1, o2 := l1.CreatePushPullPack().Operations[len(ops):], l2.CreatePushPullPack().Operations
	_, _ = l1.ReceiveRemoteModelOperations(o2, false)
	_, _ = l2.ReceiveRemoteModelOperations(o1, false)
	out += obsJSON(l1.snapshot().ToJSON()) + obsJSON(l2.snapshot().ToJSON())
	for _, op := range l1.CreatePushPullPack().Operations {
		out += fmt.Sprintf("|%d:%d:%s", op.ID.Lamport, op.ID.Seq, op.OpType.String())
	}
	return out
}

// VFT_Map: put / remove / put, snapshot export and import, transaction with rollback.
func VFT_Map() string {
	out := ""
	m1raw, _ := newMap(vfBase("k", model.TypeOfDatatype_MAP, "AAAAAAAAAAAAAAAA"), nil, nil)
	m1 := m1raw.(*ordaMap)
	o, e := m1.Put("a", 1)
	out += obsErr(e) + fmt.Sprint(o)
	o, e = m1.Put("a", "two")
	out += obsErr(e) + fmt.Sprint(o)
	o, e = m1.Remove("a")
	out += obsErr(e) + fmt.Sprint(o)
	_, e = m1.Remove("a")
	out += obsErr(e)
	_, e = m1.Put("", 1)
	out += obsErr(e)
	_, _ = m1.Put("b", map[string]interface{}{"n": []interface{}{1, "s"}})
	_, _ = m1.Put("a", 3)
	out += fmt.Sprint(m1.Size()) + obsJSON(m1.snapshot().ToJSON())
	err := m1.Transaction("t", func(tx MapInTx) error {
		_, _ = tx.Put("c", "in-tx")
		_, _ = tx.Remove("b")
		return errors.New("abort")
	})
	out += fmt.Sprint(err != nil) + fmt.Sprint(m1.Size()) + obsJSON(m1.snapshot().ToJSON())
	meta, snap, e3 := m1.GetMetaAndSnapshot()
	m2raw, _ := newMap(vfBase("other", model.TypeOfDatatype_MAP, "BBBBBBBBBBBBBBBB"), nil, nil)
	m2 := m2raw.(*ordaMap)
	out += obsErr(e3) + obsErr(m2.SetMetaAndSnapshot(meta, snap)) + m2.GetKey() + fmt.Sprint(m2.Size()) + obsJSON(m2.snapshot().ToJSON())
	var generic interface{}
	_ = json.Unmarshal(snap, &generic)
	out += obsJSON(generic)
	return out
}

// VFT_Document: nested puts, array operations, deletes, patch, snapshot round trip.
func VFT_Document() string {
	out := ""
	draw, _ := newDocument(vfBase("k", model.TypeOfDatatype_DOCUMENT, "AAAAAAAAAAAAAAAA"), nil, nil)
	d := draw.(*document)
	_, e := d.PutToObject("o", map[string]interface{}{"x": 1, "y": map[string]interface{}{"z": []interface{}{"a", 2}}})
	out += obsErr(e)
	_, e = d.PutToObject("arr", []interface{}{"a0", map[string]interface{}{"k": "v"}, []interface{}{1}})
	out += obsErr(e) + obsJSON(d.GetValue())
	arr, _ := d.GetFromObject("arr")
	_, e = arr.InsertToArray(1, "ins", 5)
	out += obsErr(e)
	_, e = arr.UpdateManyInArray(0, "upd")
	out += obsErr(e)
	_, e = arr.DeleteInArray(2)
	out += obsErr(e) + obsJSON(d.GetValue())
	_, e = arr.DeleteInArray(9)
	out += obsErr(e)
	y, _ := d.GetByPath("/o/y")
	_, e = y.PutToObject("w", true)
	out += obsErr(e)
	_, e = d.DeleteInObject("o")
	out += obsErr(e)
	_, e = y.PutToObject("late", 1)
	out += obsErr(e) + obsJSON(d.GetValue())
	ps, e := d.PatchByJSON(`{"arr":["upd","x"],"n":{"m":1}}`)
	out += obsErr(e) + fmt.Sprint(len(ps)) + obsJSON(d.GetValue())
	meta, snap, _ := d.GetMetaAndSnapshot()
	d2raw, _ := newDocument(vfBase("k2", model.TypeOfDatatype_DOCUMENT, "BBBBBBBBBBBBBBBB"), nil, nil)
	d2 := d2raw.(*document)
	out += obsErr(d2.SetMetaAndSnapshot(meta, snap)) + obsJSON(d2.GetValue())
	ops := d.CreatePushPullPack().Operations
	d3raw, _ := newDocument(vfBase("k3", model.TypeOfDatatype_DOCUMENT, "CCCCCCCCCCCCCCCC"), nil, nil)
	d3 := d3raw.(*document)
	_, e3 := d3.ReceiveRemoteModelOperations(ops, false)
	out += obsErr(e3) + obsJSON(d3.GetValue()) + fmt.Sprint(len(ops))
	for _, op := range ops {
		out += "|" + op.OpType.String()
	}
	return out
}

// VFT_Counter: increments, transactions, failing transaction, remote application.
func VFT_Counter() string {
	out := ""
	c1raw, _ := newCounter(vfBase("k", model.TypeOfDatatype_COUNTER, "AAAAAAAAAAAAAAAA"), nil, nil)
	c1 := c1raw.(*counter)
	v, _ := c1.IncreaseBy(5)
	out += fmt.Sprint(v)
	v, _ = c1.IncreaseBy(-7)
	out += fmt.Sprint(v)
	_ = c1.Transaction("ok", func(tx CounterInTx) error { _, _ = tx.IncreaseBy(100); _, _ = tx.Increase(); return nil })
	err := c1.Transaction("bad", func(tx CounterInTx) error { _, _ = tx.IncreaseBy(1000); return errors.New("x") })
	out += fmt.Sprint(c1.Get(), err != nil)
	c2raw, _ := newCounter(vfBase("k", model.TypeOfDatatype_COUNTER, "BBBBBBBBBBBBBBBB"), nil, nil)
	c2 := c2raw.(*counter)
	ops := c1.CreatePushPullPack().Operations
	_, e := c2.ReceiveRemoteModelOperations(ops, true)
	out += obsErr(e) + fmt.Sprint(c2.Get(), len(ops), c2.GetOpID().Lamport, c2.GetOpID().Seq)
	return out
}
