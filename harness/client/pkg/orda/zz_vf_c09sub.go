package orda

// VF_C09_Subscriber (C09, C10): "at any point of any history" includes the
// history of a replica that did not create the datatype but entered it through
// a subscription whose answer is one SnapshotOperation carrying the state at
// that moment (any state, not only the empty one a creator starts from).  Its
// first failed transaction rolls back to the point captured at the
// subscription and replays everything since - the snapshot operation included.
// Counter (symbolic value), Map and List, with 0..2 own operations and an
// optional remote operation between the subscription and the failing
// transaction, and a second failing transaction afterwards.

import (
	"errors"

	ordaerrors "github.com/orda-io/orda/client/pkg/errors"
	"github.com/orda-io/orda/client/pkg/iface"
	"github.com/orda-io/orda/client/pkg/model"
	"github.com/orda-io/orda/client/pkg/vf"
)

// vfSubscribeFrom lets sub join the datatype held by origin: the answer to its
// subscription carries one SnapshotOperation with origin's current state.
func vfSubscribeFrom(origin, sub iface.Datatype) {
	snapOp, err := origin.CreateSnapshotOperation()
	vf.Assert(err == nil, "snapshot operation")
	id := model.NewOperationIDWithCUID("CCCCCCCCCCCCCCCC")
	id.Lamport = 7
	snapOp.SetID(id)
	option := model.PushPullBitNormal
	option.SetSubscribeBit()
	sub.ApplyPushPullPack(&model.PushPullPack{Key: origin.GetKey(), DUID: origin.GetDUID(), Option: uint32(option),
		CheckPoint: &model.CheckPoint{Sseq: 1, Cseq: 0}, Type: origin.GetType(),
		Operations: []*model.Operation{snapOp.ToModelOperation()}})
	vf.Assert(sub.GetState() == model.StateOfDatatype_SUBSCRIBED, "C13 the subscription answer makes the replica subscribed")
}

// vfNopWire: a wire that accepts state changes and keeps nothing (manual sync).
type vfNopWire struct{}

func (vfNopWire) DeliverTransaction(wired iface.WiredDatatype) {}
func (vfNopWire) OnChangeDatatypeState(dt iface.Datatype, state model.StateOfDatatype) ordaerrors.OrdaError {
	return nil
}

func VF_C09_Subscriber() {
	kind := vf.Choice("datatype", 3)
	own := vf.Choice("own-ops", 3)
	vf.Tag("datatype", kind)
	fail := errors.New("give up")
	switch kind {
	case 0:
		o, _ := newCounter(vfBase("k", model.TypeOfDatatype_COUNTER, "AAAAAAAAAAAAAAAA"), nil, nil)
		v := vf.I32("v")
		_, _ = o.IncreaseBy(v)
		b := vfBase("k", model.TypeOfDatatype_COUNTER, "BBBBBBBBBBBBBBBB")
		b.SetState(model.StateOfDatatype_DUE_TO_SUBSCRIBE)
		sRaw, _ := newCounter(b, vfNopWire{}, nil)
		s := sRaw.(*counter)
		vfSubscribeFrom(o.(iface.Datatype), s)
		vf.Assert(s.Get() == v, "C13 a new subscriber's first state is the state the snapshot operation carries")
		for i := 0; i < own; i++ {
			_, _ = s.IncreaseBy(int32(1 + i))
		}
		before, n0, id0 := s.Get(), len(s.CreatePushPullPack().Operations), s.GetOpID().Clone()
		for round := 0; round < 2; round++ {
			err := s.Transaction("fails", func(tx CounterInTx) error {
				_, _ = tx.IncreaseBy(100)
				return fail
			})
			vf.Assert(err != nil, "C09 the failing transaction reports the error")
			vf.Assert(s.Get() == before, "C09 a failed transaction leaves the readable state as it was")
			id1 := s.GetOpID()
			vf.Assert(len(s.CreatePushPullPack().Operations) == n0 && vf.All(id1.Lamport == id0.Lamport, id1.Seq == id0.Seq),
				"C09 a failed transaction leaves pending operations and identifiers as they were")
		}
		vf.Reach("rolled-back")
	case 1:
		o, _ := newMap(vfBase("k", model.TypeOfDatatype_MAP, "AAAAAAAAAAAAAAAA"), nil, nil)
		_, _ = o.Put("a", "1")
		_, _ = o.Put("b", "2")
		_, _ = o.Remove("b")
		_, _ = o.Put("c", "3")
		b := vfBase("k", model.TypeOfDatatype_MAP, "BBBBBBBBBBBBBBBB")
		b.SetState(model.StateOfDatatype_DUE_TO_SUBSCRIBE)
		sRaw, _ := newMap(b, vfNopWire{}, nil)
		s := sRaw.(*ordaMap)
		vfSubscribeFrom(o.(iface.Datatype), s)
		vf.Assert(jsonDeepEq(s.ToJSON(), o.ToJSON()), "C13 a new subscriber's first state is the state the snapshot operation carries")
		for i := 0; i < own; i++ {
			_, _ = s.Put([]string{"a", "d"}[i], "own")
		}
		before, n0 := s.ToJSON(), len(s.CreatePushPullPack().Operations)
		for round := 0; round < 2; round++ {
			err := s.Transaction("fails", func(tx MapInTx) error {
				_, _ = tx.Put("x", "4")
				_, _ = tx.Remove("a")
				return fail
			})
			vf.Assert(err != nil, "C09 the failing transaction reports the error")
			vf.Assert(jsonDeepEq(s.ToJSON(), before), "C09 a failed transaction leaves the readable state as it was")
			vf.Assert(len(s.CreatePushPullPack().Operations) == n0, "C09 a failed transaction leaves the pending operations as they were")
		}
		vf.Reach("rolled-back")
	case 2:
		o, _ := newList(vfBase("k", model.TypeOfDatatype_LIST, "AAAAAAAAAAAAAAAA"), nil, nil)
		_, _ = o.InsertMany(0, "a", "b", "c")
		_, _ = o.Delete(1)
		b := vfBase("k", model.TypeOfDatatype_LIST, "BBBBBBBBBBBBBBBB")
		b.SetState(model.StateOfDatatype_DUE_TO_SUBSCRIBE)
		sRaw, _ := newList(b, vfNopWire{}, nil)
		s := sRaw.(*list)
		vfSubscribeFrom(o.(iface.Datatype), s)
		vf.Assert(sliceEq(listJSON(s), []interface{}{"a", "c"}), "C13 a new subscriber's first state is the state the snapshot operation carries")
		for i := 0; i < own; i++ {
			_, _ = s.Insert(vf.Int("pos", 0, s.Size()), "own")
		}
		before, n0 := listJSON(s), len(s.CreatePushPullPack().Operations)
		for round := 0; round < 2; round++ {
			err := s.Transaction("fails", func(tx ListInTx) error {
				_, _ = tx.Insert(0, "x")
				_, _ = tx.Delete(tx.Size() - 1)
				return fail
			})
			vf.Assert(err != nil, "C09 the failing transaction reports the error")
			vf.Assert(sliceEq(listJSON(s), before), "C09 a failed transaction leaves the readable state as it was")
			vf.Assert(len(s.CreatePushPullPack().Operations) == n0, "C09 a failed transaction leaves the pending operations as they were")
		}
		vf.Reach("rolled-back")
	}
}
