package orda

// C19: patching a document to a target JSON yields exactly that JSON, as one
// atomic unit, and the emitted operations bring another replica to the same
// value.  jsondiff itself is executed by the engine.

import (
	"github.com/orda-io/orda/client/pkg/model"
	"github.com/orda-io/orda/client/pkg/vf"
)

type c19Doc struct {
	text string
	tree map[string]interface{}
}

var c19Docs = []c19Doc{
	{`{}`, map[string]interface{}{}},
	{`{"a":"1","b":{"c":"x"}}`, map[string]interface{}{"a": "1", "b": map[string]interface{}{"c": "x"}}},
	{`{"a":"2","b":{"c":"y","d":"z"}}`, map[string]interface{}{"a": "2", "b": map[string]interface{}{"c": "y", "d": "z"}}},
	{`{"a":["p","q"]}`, map[string]interface{}{"a": []interface{}{"p", "q"}}},
	{`{"a":["p","r","s"]}`, map[string]interface{}{"a": []interface{}{"p", "r", "s"}}},
	{`{"a":["q"],"n":7}`, map[string]interface{}{"a": []interface{}{"q"}, "n": 7.0}},
	{`{"b":"now-a-string"}`, map[string]interface{}{"b": "now-a-string"}},
	{`{"a":{"now":"object"},"b":{"c":["deep"]}}`, map[string]interface{}{"a": map[string]interface{}{"now": "object"}, "b": map[string]interface{}{"c": []interface{}{"deep"}}}},
	{`{"a/b":"slash","m~n":"tilde"}`, map[string]interface{}{"a/b": "slash", "m~n": "tilde"}},
	{`{"a/b":"slash2","m~n":{"x/y":"deep"}}`, map[string]interface{}{"a/b": "slash2", "m~n": map[string]interface{}{"x/y": "deep"}}},
	{`{"a":["q","p"]}`, map[string]interface{}{"a": []interface{}{"q", "p"}}},
	{`{"a":["s","p","r"],"b":{"c":[{"k":"1"},{"k":"2"}]}}`, map[string]interface{}{"a": []interface{}{"s", "p", "r"}, "b": map[string]interface{}{"c": []interface{}{map[string]interface{}{"k": "1"}, map[string]interface{}{"k": "2"}}}}},
	{`{"a":["r","s","p"],"b":{"c":[{"k":"2"},{"k":"1"}]}}`, map[string]interface{}{"a": []interface{}{"r", "s", "p"}, "b": map[string]interface{}{"c": []interface{}{map[string]interface{}{"k": "2"}, map[string]interface{}{"k": "1"}}}}},
	// two changed array elements with unchanged ones between them (against documents 4, 11, 12)
	{`{"a":["x","r","y"]}`, map[string]interface{}{"a": []interface{}{"x", "r", "y"}}},
	{`{"a":["s","P","r"],"b":{"c":[{"k":"9"},{"k":"2"},{"k":"8"}]}}`, map[string]interface{}{"a": []interface{}{"s", "P", "r"}, "b": map[string]interface{}{"c": []interface{}{map[string]interface{}{"k": "9"}, map[string]interface{}{"k": "2"}, map[string]interface{}{"k": "8"}}}}},
	{`{"a~1b":"tilde-one","a/b":"slash","c~0d":{"e~01f":"deep"}}`, map[string]interface{}{"a~1b": "tilde-one", "a/b": "slash", "c~0d": map[string]interface{}{"e~01f": "deep"}}},
}

func c19Range() int {
	if vf.Tier() == 1 {
		return len(c19Docs)
	}
	return len(c19Docs)
}

// VF_C19_Patch: source x target over the document grammar, then a second patch.
func VF_C19_Patch() {
	vf.HashAbstract(true)
	a, b := vfNewDoc("a"), vfNewDoc("b")
	vf.Assume(a.doc.GetCUID() != b.doc.GetCUID())
	src := vf.Choice("source", c19Range())
	tgt := vf.Choice("target", c19Range())
	vf.Tag("_pair", string(rune('a'+src))+">"+string(rune('a'+tgt)))
	esc := src >= 8 && (src < 10 || src > 14) || tgt >= 8 && (tgt < 10 || tgt > 14)
	vf.Tag("escaped-keys", esc)
	// build the source through the same API (a patch from the empty document)
	if src != 0 {
		_, err := a.doc.PatchByJSON(c19Docs[src].text)
		vf.Assert(err == nil && jsonDeepEq(a.doc.GetValue(), c19Docs[src].tree), "C19 building the source by patching the empty document")
	}
	b.receive(a.flush())
	vf.Assert(jsonDeepEq(b.doc.GetValue(), c19Docs[src].tree), "C19 the other replica holds the source")
	n0, _ := pendingOps(a.doc)
	id0 := a.doc.GetOpID().Clone()
	var perr error
	npatch := 0
	panicked, msg := vf.Try(func() {
		patches, err := a.doc.PatchByJSON(c19Docs[tgt].text)
		perr = toErr(err)
		npatch = len(patches)
	})
	vf.Reach("patched")
	if panicked {
		vf.Tag("_panic", msg)
	}
	vf.Assert(!panicked, "C19 PatchByJSON does not panic")
	vf.Assert(perr == nil, "C19 PatchByJSON to a null-free target succeeds")
	vf.Assert(jsonDeepEq(a.doc.GetValue(), c19Docs[tgt].tree), "C19 the document's value equals the target")
	ops := a.doc.CreatePushPullPack().Operations
	nnew := len(ops) - n0
	if npatch > 1 {
		vf.Assert(ops[n0].OpType == model.TypeOfOperation_TRANSACTION, "C19 several patch steps are emitted as one transaction unit")
	}
	if npatch == 0 {
		vf.Assert(nnew == 0 && a.doc.GetOpID().Seq == id0.Seq, "C19 an empty patch emits nothing")
	}
	b.receive(a.flush())
	vf.Reach("delivered")
	vf.Assert(jsonDeepEq(b.doc.GetValue(), c19Docs[tgt].tree), "C19 the emitted operations bring the other replica to the target")
	vf.Assert(docInv(a.doc) && docInv(b.doc), "L3 invariants after the patch")
	// the chain continues: a third document (array slots and keys replaced once are replaced again)
	third := []int{1, 3, 4, 10, 12}[vf.Choice("third", 5)]
	_, err3 := a.doc.PatchByJSON(c19Docs[third].text)
	vf.Assert(err3 == nil && jsonDeepEq(a.doc.GetValue(), c19Docs[third].tree), "C19 a further patch yields its target too")
	b.receive(a.flush())
	vf.Reach("chained")
	vf.Assert(jsonDeepEq(b.doc.GetValue(), c19Docs[third].tree), "C19 the other replica follows a chain of patches")
}
