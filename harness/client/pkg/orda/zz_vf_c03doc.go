package orda

// C03 for Document: public API calls with valid and invalid arguments in
// lock-step with a plain JSON tree.

import (
	"encoding/json"

	"github.com/orda-io/orda/client/pkg/model"
	"github.com/orda-io/orda/client/pkg/vf"
)

func vfNewPlainDoc() *document {
	d, err := newDocument(vfBase("k", model.TypeOfDatatype_DOCUMENT, "AAAAAAAAAAAAAAAA"), nil, nil)
	vf.Assert(err == nil, "newDocument succeeds")
	return d.(*document)
}

// c03Value: a value, its class (0 null: the call is invalid, 1 valid, 2 a nil
// slice / nil map: the library may treat it as an empty container or refuse it
// as null, but it must do one of the two consistently) and the reference value.
func c03Value(tag string) (val interface{}, class int, ref interface{}) {
	switch vf.Choice(tag, 10) {
	case 8:
		return json.Number("42"), 1, 42.0 // a number decoded with UseNumber() is a number
	case 9:
		return json.Number("2.5"), 1, 2.5
	case 0:
		return nil, 0, nil // null value: invalid
	case 5:
		return (*string)(nil), 0, nil // a typed nil pointer is a null value too
	case 6:
		return []string(nil), 2, []interface{}{}
	case 7:
		return map[string]interface{}(nil), 2, map[string]interface{}{}
	case 1:
		return "s", 1, "s"
	case 2:
		return 3, 1, 3.0 // numbers are stored as float64
	case 3:
		return map[string]interface{}{"n": "v"}, 1, map[string]interface{}{"n": "v"}
	}
	return []interface{}{"e"}, 1, []interface{}{"e"}
}

// c03ok: is the value acceptable, given how the call answered
func c03ok(class int, err error) bool {
	if class == 2 {
		return err == nil
	}
	return class == 1
}

// VF_C03_Document: root object with "o" (object), "arr" (array ["a0","a1"]) and "p" (primitive).
func VF_C03_Document() {
	d := vfNewPlainDoc()
	_, e1 := d.PutToObject("o", map[string]interface{}{"x": "ox", "y": map[string]interface{}{"z": map[string]interface{}{"w": "deep"}}})
	_, e2 := d.PutToObject("arr", []interface{}{"a0", "dead", "a1"})
	_, e3 := d.PutToObject("p", "pv")
	vf.Assert(e1 == nil && e2 == nil && e3 == nil, "C03 valid puts succeed")
	// a deleted element between the two live ones (tombstone inside every range)
	arr0, _ := d.GetFromObject("arr")
	_, e4 := arr0.DeleteInArray(1)
	vf.Assert(e4 == nil, "C03 valid array delete succeeds")
	ref := map[string]interface{}{"o": map[string]interface{}{"x": "ox", "y": map[string]interface{}{"z": map[string]interface{}{"w": "deep"}}}, "arr": []interface{}{"a0", "a1"}, "p": "pv"}
	vf.Assert(jsonDeepEq(d.GetValue(), ref), "C03 value matches the reference after the setup")
	// a child document that gets deleted: calls on it must be refused afterwards
	var stale Document
	if sc := vf.Choice("stale-child", 4); sc > 0 {
		// a handle on the deleted container itself, on its child, or on its grandchild
		stale, _ = d.GetFromObject("o")
		for i := 1; i < sc; i++ {
			stale, _ = stale.GetFromObject([]string{"y", "z"}[i-1])
		}
		vf.Assert(stale != nil, "C03 handle obtained")
		_, e := d.DeleteInObject("o")
		vf.Assert(e == nil, "C03 valid delete succeeds")
		delete(ref, "o")
	}
	steps := 1
	if vf.Tier() == 1 {
		steps = 2
	}
	for s := 0; s < steps; s++ {
		n0, seq0 := pendingOps(d)
		id0 := d.GetOpID().Clone()
		call := vf.Choice("call", 10)
		vf.Tag("call", call)
		var err error
		valid, mutating := false, false
		panicked, msg := vf.Try(func() {
			arrDoc, _ := d.GetFromObject("arr")
			arr := ref["arr"].([]interface{})
			switch call {
			case 0: // PutToObject on the root
				key := []string{"", "p", "new"}[vf.Choice("key", 3)]
				val, vok, rv := c03Value("val")
				_, e := d.PutToObject(key, val)
				err = toErr(e)
				valid = key != "" && c03ok(vok, err)
				if valid {
					ref[key] = rv
					mutating = true
				}
			case 1: // DeleteInObject
				key := []string{"", "p", "missing"}[vf.Choice("key", 3)]
				_, e := d.DeleteInObject(key)
				err = toErr(e)
				_, present := ref[key]
				valid = present
				if valid {
					delete(ref, key)
					mutating = true
				}
			case 2: // InsertToArray
				pos := vf.Choice("pos", 5) - 1 // -1..3
				val, vok, rv := c03Value("val")
				_, e := arrDoc.InsertToArray(pos, val)
				err = toErr(e)
				valid = pos >= 0 && pos <= len(arr) && c03ok(vok, err)
				if valid {
					na := append([]interface{}{}, arr[:pos]...)
					na = append(na, rv)
					na = append(na, arr[pos:]...)
					ref["arr"] = na
					mutating = true
				}
			case 3: // UpdateManyInArray
				pos := vf.Choice("pos", 4) - 1 // -1..2
				val, vok, rv := c03Value("val")
				if vf.Choice("many", 2) == 1 { // a range of two
					_, e := arrDoc.UpdateManyInArray(pos, val, "second")
					err = toErr(e)
					valid = pos >= 0 && pos+2 <= len(arr) && c03ok(vok, err)
					if valid {
						na := append([]interface{}{}, arr...)
						na[pos], na[pos+1] = rv, "second"
						ref["arr"] = na
						mutating = true
					}
					break
				}
				_, e := arrDoc.UpdateManyInArray(pos, val)
				err = toErr(e)
				valid = pos >= 0 && pos < len(arr) && c03ok(vok, err)
				if valid {
					na := append([]interface{}{}, arr...)
					na[pos] = rv
					ref["arr"] = na
					mutating = true
				}
			case 4: // DeleteInArray
				pos := vf.Choice("pos", 4) - 1
				_, e := arrDoc.DeleteInArray(pos)
				err = toErr(e)
				valid = pos >= 0 && pos < len(arr)
				if valid {
					na := append([]interface{}{}, arr[:pos]...)
					na = append(na, arr[pos+1:]...)
					ref["arr"] = na
					mutating = true
				}
			case 5: // GetFromArray
				pos := vf.Choice("pos", 4) - 1
				el, e := arrDoc.GetFromArray(pos)
				err = toErr(e)
				valid = pos >= 0 && pos < len(arr)
				if valid {
					vf.Assert(jsonDeepEq(el.GetValue(), arr[pos]), "C03 GetFromArray returns the element")
				}
			case 6: // wrong container kind: array call on the object / object call on the array
				if vf.Choice("which", 2) == 0 {
					_, e := d.InsertToArray(0, "z")
					err = toErr(e)
				} else {
					_, e := arrDoc.PutToObject("k", "z")
					err = toErr(e)
				}
				valid = false
			case 7: // call on an already deleted child document
				if stale == nil {
					vf.Assume(false)
				}
				_, e := stale.PutToObject("late", "z")
				err = toErr(e)
				valid = false
				vf.Assert(stale.IsGarbage(), "C03 a container below a deleted container is garbage")
			case 8: // GetFromObject
				key := []string{"p", "missing"}[vf.Choice("key", 2)]
				c, e := d.GetFromObject(key)
				err = toErr(e)
				valid = true
				if _, present := ref[key]; !present {
					vf.Assert(c == nil, "C03 GetFromObject of a missing key returns nothing")
				} else {
					vf.Assert(c != nil && jsonDeepEq(c.GetValue(), ref[key]), "C03 GetFromObject returns the child")
				}
			case 9: // GetByPath
				path := []string{"/arr/1", "/o/x", "/nope", "/arr/7"}[vf.Choice("path", 4)]
				c, e := d.GetByPath(path)
				err = toErr(e)
				_, hasO := ref["o"]
				valid = path == "/arr/1" && len(arr) > 1 || path == "/o/x" && hasO
				if valid {
					vf.Assert(c != nil, "C03 GetByPath returns the node")
				}
			}
		})
		vf.Reach("called")
		if panicked {
			vf.Tag("_panic", msg)
		}
		vf.Assert(!panicked, "C03 no panic")
		vf.Assert((err == nil) == valid, "C03 error iff the call is invalid")
		vf.Assert(jsonDeepEq(d.GetValue(), ref), "C03 value matches the reference")
		n1, seq1 := pendingOps(d)
		if mutating {
			vf.Assert(n1 == n0+1 && seq1 == seq0+1, "C03/C15 exactly one operation with the next sequence number is queued")
		} else {
			vf.Assert(n1 == n0 && seq1 == seq0, "C03 nothing is queued by a read or an invalid call")
			vf.Assert(d.GetOpID().Seq == id0.Seq && d.GetOpID().Lamport == id0.Lamport, "C03/C15 identifiers unchanged by a read or an invalid call")
		}
	}
}

// VF_C03_Pointers (C03): Document.GetByPath over a fixed tree with pointers of
// every shape: with and without leading / trailing separators, with an empty
// token in the middle (the empty key of an object; never an array index),
// through arrays, to missing members.  Each pointer resolves to exactly the
// node the plain JSON tree has there, or to an error; reading changes nothing.
func VF_C03_Pointers() {
	d := vfNewPlainDoc()
	_, e1 := d.PutToObject("a", map[string]interface{}{"": map[string]interface{}{"b": "a..b"}, "b": "a.b"})
	_, e2 := d.PutToObject("arr", []interface{}{"x", map[string]interface{}{"k": "in-arr"}})
	vf.Assert(e1 == nil && e2 == nil, "setup")
	type pc struct {
		ptr  string
		want interface{} // nil: an error is expected
	}
	obj := map[string]interface{}{"": map[string]interface{}{"b": "a..b"}, "b": "a.b"}
	cases := []pc{
		{"/a/b", "a.b"}, {"a/b", "a.b"}, {"/a/b/", "a.b"},
		{"/a//b", "a..b"}, {"a//b", "a..b"},
		{"/a", obj},
		{"/a///b", nil}, {"/a/b/c", nil}, {"/missing", nil}, {"/a/missing", nil},
		{"/arr/0", "x"}, {"/arr/1/k", "in-arr"}, {"/arr//1", nil}, {"/arr/2", nil}, {"/arr/-1", nil}, {"/arr/x", nil},
	}
	c := cases[vf.Choice("pointer", len(cases))]
	vf.Tag("pointer", c.ptr)
	before := d.ToJSON()
	n0, s0 := pendingOps(d)
	var got Document
	var err error
	panicked, msg := vf.Try(func() {
		g, e := d.GetByPath(c.ptr)
		got, err = g, toErr(e)
	})
	vf.Reach("resolved")
	if panicked {
		vf.Tag("_panic", msg)
	}
	vf.Assert(!panicked, "C03 no panic")
	if c.want == nil {
		vf.Assert(err != nil, "C03 a pointer that addresses nothing is refused")
	} else {
		vf.Assert(err == nil && got != nil && jsonDeepEq(got.GetValue(), c.want), "C03 a pointer resolves to the node the plain tree has there")
	}
	n1, s1 := pendingOps(d)
	vf.Assert(jsonDeepEq(d.ToJSON(), before) && n1 == n0 && s1 == s0, "C03 reading changes nothing and queues nothing")
}
