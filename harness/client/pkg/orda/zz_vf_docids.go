package orda

// VF_Doc_Identifiers (C15-4, C01): distinct elements of a document never share
// an identifier, whatever the batch size and nesting of the values of one
// operation; an operation addressed to one element reaches that element on
// every replica.  The live tree is walked from the root: every node's
// identifier must be pairwise distinct and the node table must map it to that
// very node; then a write addressed to a chosen nested container must show up
// exactly there in the JSON view of both replicas.

import (
	"github.com/orda-io/orda/client/pkg/model"
	"github.com/orda-io/orda/client/pkg/vf"
)

// liveNodes collects the nodes reachable from j through live object entries and
// live array slots.
func liveNodes(j jsonType, out *[]jsonType) {
	*out = append(*out, j)
	switch c := j.(type) {
	case *jsonObject:
		for _, v := range c.Map {
			if v == nil || v.isTomb() {
				continue
			}
			liveNodes(v.(jsonType), out)
		}
	case *jsonArray:
		for _, n := range chainOf(c.listSnapshot) {
			if n.isTomb() {
				continue
			}
			liveNodes(n.getTimedType().(jsonType), out)
		}
	}
}

func idsDistinct(d *document) bool {
	var nodes []jsonType
	root := d.snapshot().getRoot()
	liveNodes(root, &nodes)
	common := root.getCommon()
	ok := true
	for i, n := range nodes {
		got, found := common.NodeMap[n.getCreateTime().Hash()]
		ok = vf.All(ok, found, got == n)
		for k := 0; k < i; k++ {
			ok = vf.All(ok, !tsEq(n.getCreateTime(), nodes[k].getCreateTime()))
		}
	}
	return ok
}

// vfBatchValue: a primitive, an object with a nested object, or an array with a nested array.
func vfBatchValue(tag string) interface{} {
	switch vf.Choice(tag, 3) {
	case 0:
		return "p-" + tag
	case 1:
		return map[string]interface{}{"a": map[string]interface{}{"x": tag + "-ax"}, "b": tag + "-b"}
	}
	return []interface{}{tag + "-0", []interface{}{tag + "-1"}}
}

func VF_Doc_Identifiers() {
	vf.HashAbstract(true)
	a, b := vfNewDoc("a"), vfNewDoc("b")
	vf.Assume(a.doc.GetCUID() != b.doc.GetCUID())
	_, e := a.doc.PutToObject("arr", []interface{}{"first"})
	vf.Assert(e == nil, "put succeeds")
	arr := child(a.doc, "arr")
	n := 2
	if vf.Tier() == 1 {
		n = 2 + vf.Choice("batch", 2)
	}
	var vals []interface{}
	for i := 0; i < n; i++ {
		vals = append(vals, vfBatchValue("v"+string(rune('0'+i))))
	}
	how := vf.Choice("how", 3)
	vf.Tag("how", how)
	switch how {
	case 0:
		_, e = arr.InsertToArray(vf.Choice("pos", 2), vals...)
	case 1: // update a range: first make the range exist
		_, e = arr.InsertToArray(1, "second", "third")
		vf.Assert(e == nil, "insert succeeds")
		_, e = arr.UpdateManyInArray(0, vals...)
	case 2: // nested inside an object value
		_, e = a.doc.PutToObject("o", map[string]interface{}{"l": vals, "m": vals[0]})
	}
	vf.Assert(e == nil, "the operation succeeds")
	b.receive(a.flush())
	vf.Reach("delivered")
	vf.Assert(jsonDeepEq(a.doc.ToJSON(), b.doc.ToJSON()), "C01 same JSON view after delivery")
	vf.Assert(idsDistinct(a.doc), "C15 distinct elements never share an identifier (issuing replica)")
	vf.Assert(idsDistinct(b.doc), "C15 distinct elements never share an identifier (receiving replica)")
	// address the first nested object found among the batch values and write into it
	var target *document
	var path []interface{}
	if how == 2 {
		arr = child(a.doc, "o", "l")
		path = append(path, "o", "l")
	} else {
		path = append(path, "arr")
	}
	size := vf.Concretize(arr.snapshot().(*jsonArray).size)
	for i := 0; i < size && target == nil; i++ {
		el, err := arr.GetFromArray(i)
		vf.Assert(err == nil && el != nil, "array element is readable")
		if el.GetTypeOfJSON() == TypeJSONObject {
			inner, err2 := el.GetFromObject("a")
			vf.Assert(err2 == nil && inner != nil, "nested object is readable")
			target = inner.(*document)
			path = append(path, i, "a")
		}
	}
	if target == nil {
		return
	}
	_, e = target.PutToObject("w", "written")
	vf.Assert(e == nil, "write into the nested container succeeds")
	b.receive(a.flush())
	vf.Reach("addressed")
	for _, d := range []*document{a.doc, b.doc} {
		var cur interface{} = d.ToJSON()
		for _, p := range path {
			switch k := p.(type) {
			case string:
				cur = cur.(map[string]interface{})[k]
			case int:
				cur = cur.([]interface{})[k]
			}
		}
		m, isObj := cur.(map[string]interface{})
		vf.Assert(isObj && m["w"] == "written" && m["x"] != nil, "C15 an operation addressed to one element touches that element and no other")
	}
	vf.Assert(jsonDeepEq(a.doc.ToJSON(), b.doc.ToJSON()), "C01 replicas agree after the addressed write")
	vf.Assert(idsDistinct(a.doc) && idsDistinct(b.doc), "C15 identifiers stay distinct")
	_ = model.OldestTimestamp
}
