package orda

// VF_C14_Captured (C14, C09): the values of an operation are captured when the
// call is made.  A caller that reuses or mutates the slice / map it passed
// (ordinary Go practice for a buffer) must not change what the operation later
// carries on the wire (operations are encoded when the transaction commits), nor
// what a rollback replays.  Checked for List (InsertMany / Update fed from one
// buffer, inside and outside a transaction) and Document (PutToObject with a
// map, InsertToArray with a spread slice), by delivering the pushed operations
// to a second replica and comparing the effect.

import (
	"errors"

	"github.com/orda-io/orda/client/pkg/model"
	"github.com/orda-io/orda/client/pkg/vf"
)

func VF_C14_Captured() {
	which := vf.Choice("datatype", 2)
	inTx := vf.Choice("in-tx", 2) == 1
	failLater := vf.Choice("failing-tx-afterwards", 2) == 1
	vf.Tag("datatype", which)
	vf.Tag("in-tx", inTx)
	switch which {
	case 0:
		l := vfNewList()
		buf := []interface{}{"k1", 1}
		body := func(tx ListInTx) error {
			_, e1 := tx.InsertMany(0, buf...)
			buf[0], buf[1] = "k2", 2
			_, e2 := tx.InsertMany(tx.Size(), buf...)
			buf[0], buf[1] = "k3", 3
			_, e3 := tx.Update(0, buf...)
			buf[0], buf[1] = "junk", -1
			vf.Assert(e1 == nil && e2 == nil && e3 == nil, "C03 valid calls succeed")
			return nil
		}
		if inTx {
			vf.Assert(l.Transaction("t", body) == nil, "C09 valid transaction succeeds")
		} else {
			_ = body(l)
		}
		want := []interface{}{"k3", 3.0, "k2", 2.0}
		vf.Assert(sliceEq(listJSON(l), want), "C03 the issuing replica holds the values as they were at each call")
		if failLater {
			_ = l.Transaction("t2", func(tx ListInTx) error {
				_, _ = tx.Insert(0, "lost")
				return errors.New("fail")
			})
			vf.Assert(sliceEq(listJSON(l), want), "C09 a rollback replays the values as they were at each call")
		}
		rRaw, _ := newList(vfBase("k", model.TypeOfDatatype_LIST, "BBBBBBBBBBBBBBBB"), nil, nil)
		r := rRaw.(*list)
		_, e := r.ReceiveRemoteModelOperations(l.CreatePushPullPack().Operations, false)
		vf.Reach("delivered")
		vf.Assert(e == nil, "C14 pushed operations decode and apply")
		vf.Assert(sliceEq(listJSON(r), want), "C14 an operation carries the values it was executed with")
	case 1:
		d := vfNewDocSimple()
		m := map[string]interface{}{"x": "x1", "in": map[string]interface{}{"y": "y1"}}
		arr := []interface{}{"a1", map[string]interface{}{"z": "z1"}}
		body := func(tx DocumentInTx) error {
			_, e1 := tx.PutToObject("o", m)
			m["x"] = "x2"
			m["in"].(map[string]interface{})["y"] = "y2"
			_, e2 := tx.PutToObject("arr", []interface{}{})
			vf.Assert(e1 == nil && e2 == nil, "C03 valid calls succeed")
			a, e3 := tx.GetFromObject("arr")
			vf.Assert(e3 == nil && a != nil, "C03 array readable")
			_, e4 := a.InsertToArray(0, arr...)
			arr[0] = "a2"
			arr[1].(map[string]interface{})["z"] = "z2"
			vf.Assert(e4 == nil, "C03 valid insert succeeds")
			return nil
		}
		if inTx {
			vf.Assert(d.Transaction("t", body) == nil, "C09 valid transaction succeeds")
		} else {
			_ = body(d)
		}
		want := map[string]interface{}{
			"o":   map[string]interface{}{"x": "x1", "in": map[string]interface{}{"y": "y1"}},
			"arr": []interface{}{"a1", map[string]interface{}{"z": "z1"}},
		}
		vf.Assert(jsonDeepEq(d.ToJSON(), want), "C03 the issuing replica holds the values as they were at each call")
		if failLater {
			_ = d.Transaction("t2", func(tx DocumentInTx) error {
				_, _ = tx.PutToObject("lost", "v")
				return errors.New("fail")
			})
			vf.Assert(jsonDeepEq(d.ToJSON(), want), "C09 a rollback replays the values as they were at each call")
		}
		rRaw, _ := newDocument(vfBase("k", model.TypeOfDatatype_DOCUMENT, "BBBBBBBBBBBBBBBB"), nil, nil)
		r := rRaw.(*document)
		_, e := r.ReceiveRemoteModelOperations(d.CreatePushPullPack().Operations, false)
		vf.Reach("delivered")
		vf.Assert(e == nil, "C14 pushed operations decode and apply")
		vf.Assert(jsonDeepEq(r.ToJSON(), want), "C14 an operation carries the values it was executed with")
	}
}

func vfNewDocSimple() *document {
	d, err := newDocument(vfBase("k", model.TypeOfDatatype_DOCUMENT, "AAAAAAAAAAAAAAAA"), nil, nil)
	vf.Assert(err == nil, "newDocument succeeds")
	return d.(*document)
}

// VF_C14_Effect (C14, C01): every operation a replica produces has, on a second
// replica that receives it through the encoded form, the effect it had where it
// was issued - for sequences in which a later operation addresses an element an
// earlier one has already touched (update then delete, update then update,
// delete then insert next to the tombstone ...).  List and Document array,
// positions chosen by the solver.
func VF_C14_Effect() {
	which := vf.Choice("datatype", 2)
	vf.Tag("datatype", which)
	if which == 0 {
		x := vfNewList()
		rRaw, _ := newList(vfBase("k", model.TypeOfDatatype_LIST, "BBBBBBBBBBBBBBBB"), nil, nil)
		y := rRaw.(*list)
		_, e := x.InsertMany(0, "a", "b", "c")
		vf.Assert(e == nil, "history")
		sent := 0
		for step := 0; step < 3; step++ {
			size := x.Size()
			switch vf.Choice("op", 6) {
			case 5: // an empty batch: accepted, numbered and pushed like every other operation
				_, e = x.InsertMany(vf.Int("pos", 0, size))
			case 0:
				_, e = x.Insert(vf.Int("pos", 0, size), "i"+string(rune('0'+step)))
			case 1:
				if size == 0 {
					vf.Assume(false)
				}
				_, e = x.Update(vf.Int("pos", 0, size-1), "u"+string(rune('0'+step)))
			case 2:
				if size == 0 {
					vf.Assume(false)
				}
				_, e = x.Delete(vf.Int("pos", 0, size-1))
			case 3: // a range of two (may span a tombstone left by an earlier step)
				if size < 2 {
					vf.Assume(false)
				}
				_, e = x.DeleteMany(vf.Int("pos", 0, size-2), 2)
			case 4:
				if size < 2 {
					vf.Assume(false)
				}
				_, e = x.Update(vf.Int("pos", 0, size-2), "v"+string(rune('0'+step)), "w"+string(rune('0'+step)))
			}
			vf.Assert(e == nil, "C03 valid call succeeds")
			ops := x.CreatePushPullPack().Operations
			_, re := y.ReceiveRemoteModelOperations(ops[sent:], false)
			sent = len(ops)
			vf.Assert(re == nil, "C14 the pushed operation decodes and applies")
			vf.Assert(sliceEq(listJSON(x), listJSON(y)), "C14 an operation has the same effect on the replica that receives it")
		}
		vf.Reach("delivered")
		return
	}
	x := vfNewDocSimple()
	rRaw, _ := newDocument(vfBase("k", model.TypeOfDatatype_DOCUMENT, "BBBBBBBBBBBBBBBB"), nil, nil)
	y := rRaw.(*document)
	_, e := x.PutToObject("arr", []interface{}{"a", "b", "c"})
	vf.Assert(e == nil, "history")
	sent := 0
	for step := 0; step < 3; step++ {
		arr := child(x, "arr")
		size := vf.Concretize(arr.snapshot().(*jsonArray).size)
		switch vf.Choice("op", 6) {
		case 5:
			_, e = arr.InsertToArray(vf.Int("pos", 0, size))
		case 0:
			_, e = arr.InsertToArray(vf.Int("pos", 0, size), "i"+string(rune('0'+step)))
		case 1:
			if size == 0 {
				vf.Assume(false)
			}
			_, e = arr.UpdateManyInArray(vf.Int("pos", 0, size-1), "u"+string(rune('0'+step)))
		case 2:
			if size == 0 {
				vf.Assume(false)
			}
			_, e = arr.DeleteInArray(vf.Int("pos", 0, size-1))
		case 3:
			if size < 2 {
				vf.Assume(false)
			}
			_, e = arr.DeleteManyInArray(vf.Int("pos", 0, size-2), 2)
		case 4:
			if size < 2 {
				vf.Assume(false)
			}
			_, e = arr.UpdateManyInArray(vf.Int("pos", 0, size-2), "v"+string(rune('0'+step)), "w"+string(rune('0'+step)))
		}
		vf.Assert(e == nil, "C03 valid call succeeds")
		ops := x.CreatePushPullPack().Operations
		_, re := y.ReceiveRemoteModelOperations(ops[sent:], false)
		sent = len(ops)
		vf.Assert(re == nil, "C14 the pushed operation decodes and applies")
		vf.Assert(jsonDeepEq(x.ToJSON(), y.ToJSON()), "C14 an operation has the same effect on the replica that receives it")
	}
	vf.Reach("delivered")
}
