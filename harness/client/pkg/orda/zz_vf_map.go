package orda

// Inductive-step lemmas for the LWW map and the counter (C01, C02).

import (
	"github.com/orda-io/orda/client/pkg/model"
	"github.com/orda-io/orda/client/pkg/vf"
)

type entrySpec struct {
	key  string
	T    *model.Timestamp
	tomb bool
	val  string
}

type mapSpec struct{ ents []entrySpec }

var vfKeys = []string{"a", "b", "c"}

// vfMapSpec: a symbolic map pre-state of k entries (distinct keys), each live or a tombstone.
func vfMapSpec(tag string, k int) *mapSpec {
	sp := &mapSpec{}
	for i := 0; i < k; i++ {
		e := entrySpec{key: vfKeys[i], T: vfOpTS(tag + ".e" + string(rune('0'+i))), val: "v" + string(rune('0'+i))}
		e.tomb = vf.Choice(tag+".e"+string(rune('0'+i))+".tomb", 2) == 1
		for j := 0; j < i; j++ {
			vf.Assume(!sameOp(e.T, sp.ents[j].T))
		}
		sp.ents = append(sp.ents, e)
	}
	return sp
}

func (sp *mapSpec) build() *mapSnapshot {
	base := vfBase("k", model.TypeOfDatatype_MAP, "AAAAAAAAAAAAAAAA")
	ms := newMapSnapshot(base)
	for _, e := range sp.ents {
		var v interface{} = e.val
		if e.tomb {
			v = nil
		}
		ms.Map[e.key] = newTimedNode(v, cloneTS(e.T))
		if !e.tomb {
			ms.Size++
		}
	}
	return ms
}

type mapOp struct {
	kind int // 0 put, 1 remove
	key  string
	val  string
	ts   *model.Timestamp
}

func vfMapOp(tag string, sp *mapSpec) *mapOp {
	op := &mapOp{kind: vf.Choice(tag+".kind", 2), key: vfKeys[vf.Choice(tag+".key", len(vfKeys))], val: tag + ".val", ts: vfOpTS(tag + ".ts")}
	if op.kind == 0 && vf.Choice(tag+".same-value", 2) == 1 {
		op.val = "v0" // a put may carry a value equal to the one a key (or the other operation) already holds
	}
	for _, e := range sp.ents {
		vf.Assume(!sameOp(op.ts, e.T))
	}
	return op
}

func (op *mapOp) apply(ms *mapSnapshot) {
	if op.kind == 0 {
		_, _ = ms.putCommon(op.key, op.val, cloneTS(op.ts))
	} else {
		_, _ = ms.removeRemote(op.key, cloneTS(op.ts))
	}
}

func sameMap(a, b *mapSnapshot) bool {
	if len(a.Map) != len(b.Map) || a.Size != b.Size {
		return false
	}
	for k, x := range a.Map {
		y, ok := b.Map[k]
		if !ok {
			return false
		}
		if x.isTomb() != y.isTomb() || !tsEq(x.getTime(), y.getTime()) {
			return false
		}
		if !x.isTomb() && x.getValue() != y.getValue() {
			return false
		}
	}
	return true
}

// mapInv is A.1: Size counts the live entries, every entry carries a time.
func mapInv(ms *mapSnapshot) bool {
	live := 0
	for _, e := range ms.Map {
		if e.getTime() == nil {
			return false
		}
		if !e.isTomb() {
			live++
		}
	}
	return live == ms.Size
}

func mapBounds() int {
	if vf.Tier() == 1 {
		return 3
	}
	return 2
}

// VF_Map_L1: two concurrent remote map operations commute (C01), keep the
// invariant (L3) and the winner is the operation with the greatest timestamp (C02).
func VF_Map_L1()  { mapL1(modeC01) }
func VF_Map_C02() { mapL1(modeC02) }

func mapL1(mode int) {
	k := vf.Choice("k", mapBounds()+1)
	sp := vfMapSpec("S", k)
	a, b := vfMapOp("a", sp), vfMapOp("b", sp)
	vf.Assume(!sameOp(a.ts, b.ts))
	vf.Tag("pair", string(rune('0'+a.kind))+string(rune('0'+b.kind)))
	// a remove is only issued for a key its issuer has seen: the key exists in S
	for _, op := range []*mapOp{a, b} {
		if op.kind == 1 {
			found := false
			for _, e := range sp.ents {
				if e.key == op.key {
					found = true
				}
			}
			vf.Assume(found)
		}
	}
	s1, s2 := sp.build(), sp.build()
	vf.Assert(mapInv(s1), "A.1 holds on the constructed pre-state")
	a.apply(s1)
	vf.Assert(mapInv(s1), "L3 invariant after a")
	b.apply(s1)
	b.apply(s2)
	vf.Assert(mapInv(s2), "L3 invariant after b")
	a.apply(s2)
	vf.Reach("applied")
	vf.Assert(mapInv(s1), "L3 invariant after a;b")
	vf.Assert(mapInv(s2), "L3 invariant after b;a")
	vf.Assert(sameMap(s1, s2), "L1 a;b == b;a")

	// C02 reference: per key, the put/remove with the greatest timestamp among
	// {pre-state entry, a, b} decides (remove => absent).
	for _, key := range vfKeys {
		var bestT *model.Timestamp
		var bestV interface{}
		for _, e := range sp.ents {
			if e.key == key {
				bestT = e.T
				if !e.tomb {
					bestV = e.val
				}
			}
		}
		for _, op := range []*mapOp{a, b} {
			if op.key != key {
				continue
			}
			if bestT == nil || newer(op.ts, bestT) {
				bestT = op.ts
				if op.kind == 0 {
					bestV = op.val
				} else {
					bestV = nil
				}
			}
		}
		if mode&modeC02 != 0 {
			vf.Assert(s1.get(key) == bestV, "C02 greatest timestamp wins")
			vf.Assert(s2.get(key) == bestV, "C02 greatest timestamp wins (other order)")
		} else {
			vf.Assert(s1.get(key) == s2.get(key), "C01 same read")
		}
	}
	// observable equality
	j1, j2 := s1.ToJSON().(map[string]interface{}), s2.ToJSON().(map[string]interface{})
	vf.Assert(len(j1) == len(j2) && s1.size() == s2.size(), "C01 same JSON size")
	vf.Assert(s1.size() == len(j1), "C01/C03 Size equals number of visible keys")
}

// VF_Counter_L1: increments commute and add up with 32-bit wrap-around.
func VF_Counter_L1() {
	base := vfBase("k", model.TypeOfDatatype_COUNTER, "AAAAAAAAAAAAAAAA")
	v0, d1, d2 := vf.I32("v0"), vf.I32("d1"), vf.I32("d2")
	c1, c2 := newCounterSnapshot(base), newCounterSnapshot(base)
	c1.Value, c2.Value = v0, v0
	c1.increaseCommon(d1)
	c1.increaseCommon(d2)
	c2.increaseCommon(d2)
	c2.increaseCommon(d1)
	vf.Reach("applied")
	vf.Assert(c1.Value == c2.Value, "L1 increments commute")
	vf.Assert(c1.Value == int32(int64(v0)+int64(d1)+int64(d2)), "C02 counter is the wrapping sum")
	vf.Assert(c1.ToJSON().(int32) == c1.Value, "C01 JSON view is the value")
}

// VF_Map_L2: from an arbitrary pre-state, a local call whose timestamp is newer
// than everything the replica holds (L4) either is refused and then leaves the
// state structurally as it was - tombstone times included, because they decide
// later conflicts - or yields exactly the state that delivering the operation to
// a copy yields (local form == remote form).
func VF_Map_L2() {
	k := vf.Choice("k", mapBounds()+1)
	sp := vfMapSpec("S", k)
	ts := vfOpTS("op.ts")
	for _, e := range sp.ents {
		vf.Assume(ts.Lamport > e.T.Lamport)
	}
	key := vfKeys[vf.Choice("op.key", len(vfKeys))]
	s0, s1, s2 := sp.build(), sp.build(), sp.build()
	var present, live bool
	var old interface{}
	for _, e := range sp.ents {
		if e.key == key {
			present = true
			live = !e.tomb
			if live {
				old = e.val
			}
		}
	}
	kind := vf.Choice("op.kind", 2)
	vf.Tag("kind", kind)
	if kind == 0 {
		ret, err := s1.putCommon(key, "new", cloneTS(ts))
		_, _ = s2.putCommon(key, "new", cloneTS(ts))
		vf.Reach("put")
		vf.Assert(err == nil && ret == old, "C03 put returns the previous value")
		vf.Assert(s1.get(key) == "new", "C03 put is readable")
	} else {
		ret, err := s1.removeLocal(key, cloneTS(ts))
		vf.Reach("remove")
		if live {
			vf.Assert(err == nil && ret == old, "C03 remove returns the removed value")
			_, _ = s2.removeRemote(key, cloneTS(ts))
			vf.Assert(s1.get(key) == nil, "C03 removed key is absent")
		} else {
			_ = present
			vf.Assert(err != nil, "C03 removing an absent key is refused")
			s2 = s0 // a refused call issues no operation: nothing is delivered anywhere
			vf.Assert(sameMap(s1, s0), "C03 a refused call changes nothing, not even the time of a tombstone")
		}
	}
	vf.Assert(mapInv(s1) && mapInv(s2), "L3 invariant after local / remote form")
	vf.Assert(sameMap(s1, s2), "L2 local == remote")
}
