package orda

// VF_C07_ClientStep (C05, C07): one response consumed by the real
// ApplyPushPullPack from an arbitrary client state that satisfies the protocol
// invariant A.4, with every magnitude a symbolic 64-bit value.
//
// The response of a request sent with checkpoint (s_r, c_r) carries the log
// entries s_r+1 .. s_r+L (each the client's own or foreign) and the checkpoint
// (s_r+L, c_r+#own).  Meanwhile the client may have consumed other responses: its
// checkpoint is (s_r+j, c_r+#own among the first j entries): j = 0 is the
// fault-free exchange, 0 < j <= L a response that overlaps what was already
// applied (lost answer and retry, duplicated request), j > L a stale response.
// Oracle: exactly the foreign entries behind position s_r+j are applied, once;
// the checkpoint becomes the component-wise maximum; no panic.

import (
	gocontext "context"

	"google.golang.org/grpc"

	"github.com/orda-io/orda/client/pkg/model"
	"github.com/orda-io/orda/client/pkg/vf"
)

// vfStubService answers every push-pull request with the prepared pack (the
// other RPCs are not used).
type vfStubService struct {
	model.OrdaServiceClient
	pack  *model.PushPullPack
	calls int
}

func (s *vfStubService) ProcessPushPull(ctx gocontext.Context, in *model.PushPullMessage, opts ...grpc.CallOption) (*model.PushPullMessage, error) {
	s.calls++
	return &model.PushPullMessage{Header: in.Header, Collection: in.Collection, Cuid: in.Cuid, PushPullPacks: []*model.PushPullPack{s.pack}}, nil
}

func VF_C07_ClientStep() { c07ClientStep(false) }

// VF_C07_ClientSync: the same step with the response consumed through the
// client's own Sync (real clientImpl, DatatypeManager and SyncManager around a
// service stub that returns the response), so that whatever the client does to
// a response before the datatype sees it is part of the step.
func VF_C07_ClientSync() { c07ClientStep(true) }

func c07ClientStep(throughSync bool) {
	var c *counter
	var cli Client
	stub := &vfStubService{}
	if throughSync {
		cli = VFNewClient("col", "x", "AAAAAAAAAAAAAAAA", model.SyncType_MANUALLY, stub)
		c = cli.SubscribeCounter("k", nil).(*counter) // (no snapshot operation of its own in the buffer)
	} else {
		c = vfNewCounter()
	}
	c.SetState(model.StateOfDatatype_SUBSCRIBED)
	me := c.GetCUID()
	sr, cr := vf.U64("s_r"), vf.U64("c_r")
	vf.Assume(vf.All(sr < 1<<62, cr < 1<<62))
	maxL := 3
	if vf.Tier() == 1 && !throughSync {
		maxL = 4 // (the variant through Client.Sync stays at 3: with 4 the solver ran into its cap on a loaded machine)
	}
	L := vf.Choice("window", maxL+1)
	own := make([]bool, L)
	nOwn := 0
	for i := range own {
		own[i] = vf.Choice("own", 2) == 1
		if own[i] {
			nOwn++
		}
	}
	j := vf.Choice("consumed", L+3)
	ownBefore := 0
	for i := 0; i < L && i < j; i++ {
		if own[i] {
			ownBefore++
		}
	}
	extra := 0 // own operations among the entries beyond the response that the client has consumed
	if j > L {
		extra = vf.Choice("own-beyond", j-L+1)
	}
	s, cc := sr+uint64(j), cr+uint64(ownBefore+extra)
	c.SetCheckPoint(s, cc)
	c.GetOpID().Seq = cr + uint64(nOwn+extra)
	// the log order is the server's arrival order: the Lamport clocks of the entries are
	// arbitrary (a client that has not pulled the others' work pushes with a small clock),
	// increasing only within one owner; two foreign owners
	lams := make([]uint64, L)
	for i := range lams {
		lams[i] = vf.U64("lamport")
		vf.Assume(vf.All(lams[i] >= 1, lams[i] < 1<<61))
	}
	foreign := make([]string, L)
	for i := range foreign {
		foreign[i] = []string{"OOOOOOOOOOOOOOOO", "PPPPPPPPPPPPPPPP"}[vf.Choice("foreign-owner", 2)]
	}
	for i := 0; i < L; i++ {
		for k := 0; k < i; k++ {
			if own[i] == own[k] && (own[i] || foreign[i] == foreign[k]) {
				vf.Assume(lams[k] < lams[i])
			}
		}
	}
	pack := &model.PushPullPack{Key: c.GetKey(), DUID: c.GetDUID(), Type: model.TypeOfDatatype_COUNTER,
		CheckPoint: &model.CheckPoint{Sseq: sr + uint64(L), Cseq: cr + uint64(nOwn)}}
	want := int32(0)
	seqOwn, seqOther := cr, uint64(100)
	for i := 0; i < L; i++ {
		owner := foreign[i]
		var seq uint64
		if own[i] {
			owner = me
			seqOwn++
			seq = seqOwn
		} else {
			seqOther++
			seq = seqOther
			if i >= j {
				want += vfPow10(i)
			}
		}
		pack.Operations = append(pack.Operations, &model.Operation{
			ID:     &model.OperationID{Era: 0, Lamport: lams[i], CUID: owner, Seq: seq},
			OpType: model.TypeOfOperation_COUNTER_INCREASE,
			Body:   []byte(`{"Delta":` + vfItoa(int(vfPow10(i))) + `}`),
		})
	}
	var syncErr error
	panicked, msg := vf.Try(func() {
		if throughSync {
			stub.pack = pack
			syncErr = cli.Sync()
		} else {
			c.ApplyPushPullPack(pack)
		}
	})
	vf.Quiesce()
	if throughSync {
		vf.Assert(syncErr == nil && stub.calls == 1, "C05 one Sync call makes one exchange and succeeds")
	}
	vf.Reach("applied")
	if panicked {
		vf.Tag("_panic", msg)
	}
	vf.Assert(!panicked, "C07 no panic on any response")
	vf.Assert(c.Get() == want, "C05/C07 exactly the foreign operations behind the client's position are applied, each once")
	p := c.CreatePushPullPack()
	wantS, wantC := s, cc
	if sr+uint64(L) > wantS {
		wantS = sr + uint64(L)
	}
	if cr+uint64(nOwn) > wantC {
		wantC = cr + uint64(nOwn)
	}
	vf.Assert(vf.All(p.CheckPoint.Sseq == wantS, p.CheckPoint.Cseq == wantC), "C05 the checkpoint never moves backwards and ends at the newest values seen")
}

func vfPow10(i int) int32 {
	r := int32(1)
	for ; i > 0; i-- {
		r *= 10
	}
	return r
}

func vfItoa(n int) string {
	if n == 0 {
		return "0"
	}
	s := ""
	for n > 0 {
		s = string(rune('0'+n%10)) + s
		n /= 10
	}
	return s
}
