package orda

// C10: a datatype restored from its snapshot is indistinguishable from the
// original.  Lemma: for a symbolic pre-state S, S' = import(export(S)) is
// structurally equal to S, export(S') is equivalent, and one further
// arbitrary operation leaves S·o and S'·o equal.

import (
	"encoding/json"

	"github.com/orda-io/orda/client/pkg/model"
	"github.com/orda-io/orda/client/pkg/vf"
)

func VF_C10_List() {
	vf.HashAbstract(true)
	K, B := listBounds()
	k := vf.Choice("k", K+1)
	sp := vfListSpec("S", k)
	s1 := sp.build()
	snap, err := json.Marshal(s1)
	vf.Assert(err == nil, "C10 export succeeds")
	s2 := newListSnapshot(vfBase("k", model.TypeOfDatatype_LIST, "BBBBBBBBBBBBBBBB"))
	err = json.Unmarshal(snap, s2)
	vf.Assert(err == nil, "C10 import succeeds")
	vf.Reach("restored")
	vf.Assert(listInv(s2), "C10 restored state satisfies the invariant")
	vf.Assert(sameList(s1, s2), "C10 restored state is structurally equal")
	vf.Assert(jsonEqList(s1, s2), "C10 same readable state")
	// exporting the restored instance again yields an equivalent snapshot
	snap2, err2 := json.Marshal(s2)
	vf.Assert(err2 == nil, "C10 re-export succeeds")
	s3 := newListSnapshot(vfBase("k", model.TypeOfDatatype_LIST, "CCCCCCCCCCCCCCCC"))
	vf.Assert(json.Unmarshal(snap2, s3) == nil && sameList(s1, s3), "C10 re-exported snapshot is equivalent")
	// continuation: one arbitrary remote operation on both
	if vf.Choice("continue", 2) == 1 {
		op := vfListOp("o", sp, B)
		op.apply(s1)
		op.apply(s2)
		vf.Reach("continued")
		vf.Assert(listInv(s1) && listInv(s2), "C10 invariant after the continuation")
		vf.Assert(sameList(s1, s2), "C10 original and restored respond identically")
	}
}

func VF_C10_Map() {
	k := vf.Choice("k", mapBounds()+1)
	sp := vfMapSpec("S", k)
	s1 := sp.build()
	snap, err := json.Marshal(s1)
	vf.Assert(err == nil, "C10 export succeeds")
	s2 := newMapSnapshot(vfBase("k", model.TypeOfDatatype_MAP, "BBBBBBBBBBBBBBBB"))
	vf.Assert(json.Unmarshal(snap, s2) == nil, "C10 import succeeds")
	vf.Reach("restored")
	vf.Assert(mapInv(s2), "C10 restored state satisfies the invariant")
	vf.Assert(sameMap(s1, s2), "C10 restored state is structurally equal")
	snap2, err2 := json.Marshal(s2)
	s3 := newMapSnapshot(vfBase("k", model.TypeOfDatatype_MAP, "CCCCCCCCCCCCCCCC"))
	vf.Assert(err2 == nil && json.Unmarshal(snap2, s3) == nil && sameMap(s1, s3), "C10 re-exported snapshot is equivalent")
	if vf.Choice("continue", 2) == 1 {
		op := vfMapOp("o", sp)
		op.apply(s1)
		op.apply(s2)
		vf.Reach("continued")
		vf.Assert(mapInv(s1) && mapInv(s2), "C10 invariant after the continuation")
		vf.Assert(sameMap(s1, s2), "C10 original and restored respond identically")
		for _, key := range vfKeys {
			vf.Assert(s1.get(key) == s2.get(key), "C10 same reads after the continuation")
		}
	}
}

func VF_C10_Counter() {
	c1 := newCounterSnapshot(vfBase("k", model.TypeOfDatatype_COUNTER, "AAAAAAAAAAAAAAAA"))
	c1.Value = vf.I32("v")
	snap, err := json.Marshal(c1)
	c2 := newCounterSnapshot(vfBase("k", model.TypeOfDatatype_COUNTER, "BBBBBBBBBBBBBBBB"))
	vf.Assert(err == nil && json.Unmarshal(snap, c2) == nil, "C10 export/import succeed")
	vf.Reach("restored")
	vf.Assert(c1.Value == c2.Value, "C10 restored counter has the same value")
	d := vf.I32("d")
	vf.Assert(c1.increaseCommon(d) == c2.increaseCommon(d), "C10 original and restored respond identically")
}

// VF_C10_Meta: meta + snapshot through the datatype API (GetMetaAndSnapshot /
// SetMetaAndSnapshot) restore key, type, ids and the operation id.
func VF_C10_Meta() {
	l := vfNewList()
	n := vf.Choice("n", 3)
	for i := 0; i < n; i++ {
		_, _ = l.Insert(i, vfVals[i])
	}
	if n == 2 && vf.Choice("del", 2) == 1 {
		_, _ = l.Delete(0)
	}
	meta, snap, err := l.GetMetaAndSnapshot()
	vf.Assert(err == nil, "C10 GetMetaAndSnapshot succeeds")
	l2raw, _ := newList(vfBase("other", model.TypeOfDatatype_LIST, "BBBBBBBBBBBBBBBB"), nil, nil)
	l2 := l2raw.(*list)
	vf.Assert(l2.SetMetaAndSnapshot(meta, snap) == nil, "C10 SetMetaAndSnapshot succeeds")
	vf.Reach("restored")
	vf.Assert(l2.GetKey() == l.GetKey() && l2.GetDUID() == l.GetDUID() && l2.GetType() == l.GetType(), "C10 meta restored")
	a, b := l.GetOpID(), l2.GetOpID()
	vf.Assert(a.Lamport == b.Lamport && a.Seq == b.Seq && a.CUID == b.CUID && a.Era == b.Era, "C10 operation id restored")
	vf.Assert(sameList(l.snapshot(), l2.snapshot()) && listInv(l2.snapshot()), "C10 state restored")
	// both respond identically to the same local call
	_, e1 := l.Insert(0, "z")
	_, e2 := l2.Insert(0, "z")
	vf.Assert((e1 == nil) == (e2 == nil), "C10 same answer to a following call")
	vf.Assert(sameList(l.snapshot(), l2.snapshot()), "C10 same state after a following call")
	o1, o2 := l.GetOpID(), l2.GetOpID()
	vf.Assert(o1.Lamport == o2.Lamport && o1.Seq == o2.Seq, "C10 same identifiers after a following call")
}
