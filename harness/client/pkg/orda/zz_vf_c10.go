package orda

// C10: a datatype restored from its snapshot is indistinguishable from the
// original.  Lemma: for a symbolic pre-state S, S' = import(export(S)) is
// structurally equal to S, export(S') is equivalent, and one further
// arbitrary operation leaves S·o and S'·o equal.

import (
	"encoding/json"

	"github.com/orda-io/orda/client/pkg/model"
	"github.com/orda-io/orda/client/pkg/vf"
)

func VF_C10_List() {
	vf.HashAbstract(true)
	K, B := listBounds()
	k := vf.Choice("k", K+1)
	sp := vfListSpec("S", k)
	s1 := sp.build()
	snap, err := json.Marshal(s1)
	vf.Assert(err == nil, "C10 export succeeds")
	s2 := newListSnapshot(vfBase("k", model.TypeOfDatatype_LIST, "BBBBBBBBBBBBBBBB"))
	err = json.Unmarshal(snap, s2)
	vf.Assert(err == nil, "C10 import succeeds")
	vf.Reach("restored")
	vf.Assert(listInv(s2), "C10 restored state satisfies the invariant")
	vf.Assert(sameList(s1, s2), "C10 restored state is structurally equal")
	vf.Assert(jsonEqList(s1, s2), "C10 same readable state")
	// exporting the restored instance again yields an equivalent snapshot
	snap2, err2 := json.Marshal(s2)
	vf.Assert(err2 == nil, "C10 re-export succeeds")
	s3 := newListSnapshot(vfBase("k", model.TypeOfDatatype_LIST, "CCCCCCCCCCCCCCCC"))
	vf.Assert(json.Unmarshal(snap2, s3) == nil && sameList(s1, s3), "C10 re-exported snapshot is equivalent")
	// continuation: one arbitrary remote operation on both
	if vf.Choice("continue", 2) == 1 {
		op := vfListOp("o", sp, B)
		op.apply(s1)
		op.apply(s2)
		vf.Reach("continued")
		vf.Assert(listInv(s1) && listInv(s2), "C10 invariant after the continuation")
		vf.Assert(sameList(s1, s2), "C10 original and restored respond identically")
	}
}

func VF_C10_Map() {
	k := vf.Choice("k", mapBounds()+1)
	sp := vfMapSpec("S", k)
	s1 := sp.build()
	snap, err := json.Marshal(s1)
	vf.Assert(err == nil, "C10 export succeeds")
	s2 := newMapSnapshot(vfBase("k", model.TypeOfDatatype_MAP, "BBBBBBBBBBBBBBBB"))
	vf.Assert(json.Unmarshal(snap, s2) == nil, "C10 import succeeds")
	vf.Reach("restored")
	vf.Assert(mapInv(s2), "C10 restored state satisfies the invariant")
	vf.Assert(sameMap(s1, s2), "C10 restored state is structurally equal")
	snap2, err2 := json.Marshal(s2)
	s3 := newMapSnapshot(vfBase("k", model.TypeOfDatatype_MAP, "CCCCCCCCCCCCCCCC"))
	vf.Assert(err2 == nil && json.Unmarshal(snap2, s3) == nil && sameMap(s1, s3), "C10 re-exported snapshot is equivalent")
	if vf.Choice("continue", 2) == 1 {
		op := vfMapOp("o", sp)
		op.apply(s1)
		op.apply(s2)
		vf.Reach("continued")
		vf.Assert(mapInv(s1) && mapInv(s2), "C10 invariant after the continuation")
		vf.Assert(sameMap(s1, s2), "C10 original and restored respond identically")
		for _, key := range vfKeys {
			vf.Assert(s1.get(key) == s2.get(key), "C10 same reads after the continuation")
		}
	}
}

func VF_C10_Counter() {
	c1 := newCounterSnapshot(vfBase("k", model.TypeOfDatatype_COUNTER, "AAAAAAAAAAAAAAAA"))
	c1.Value = vf.I32("v")
	snap, err := json.Marshal(c1)
	c2 := newCounterSnapshot(vfBase("k", model.TypeOfDatatype_COUNTER, "BBBBBBBBBBBBBBBB"))
	vf.Assert(err == nil && json.Unmarshal(snap, c2) == nil, "C10 export/import succeed")
	vf.Reach("restored")
	vf.Assert(c1.Value == c2.Value, "C10 restored counter has the same value")
	d := vf.I32("d")
	vf.Assert(c1.increaseCommon(d) == c2.increaseCommon(d), "C10 original and restored respond identically")
}

// VF_C10_Meta: meta + snapshot through the datatype API (GetMetaAndSnapshot /
// SetMetaAndSnapshot) restore key, type, ids and the operation id.
func VF_C10_Meta() {
	l := vfNewList()
	n := vf.Choice("n", 3)
	for i := 0; i < n; i++ {
		_, _ = l.Insert(i, vfVals[i])
	}
	if n == 2 && vf.Choice("del", 2) == 1 {
		_, _ = l.Delete(0)
	}
	// operations of another replica (whose clock is ahead) received before the export;
	// optionally an earlier export took place before they arrived
	switch vf.Choice("remote", 3) {
	case 1, 2:
		if vf.Choice("earlier-export", 2) == 1 {
			_, _, e0 := l.GetMetaAndSnapshot()
			vf.Assert(e0 == nil, "C10 GetMetaAndSnapshot succeeds")
		}
		rRaw, _ := newList(vfBase("k", model.TypeOfDatatype_LIST, "CCCCCCCCCCCCCCCC"), nil, nil)
		r := rRaw.(*list)
		for i := 0; i < 5; i++ {
			_, _ = r.Insert(0, "r")
		}
		_, re := l.ReceiveRemoteModelOperations(r.CreatePushPullPack().Operations, false)
		vf.Assert(re == nil, "C10 remote operations are applied")
	}
	meta, snap, err := l.GetMetaAndSnapshot()
	vf.Assert(err == nil, "C10 GetMetaAndSnapshot succeeds")
	l2raw, _ := newList(vfBase("other", model.TypeOfDatatype_LIST, "BBBBBBBBBBBBBBBB"), nil, nil)
	l2 := l2raw.(*list)
	// the instance that imports may have a history of its own (an import replaces all of it)
	for i, used := 0, vf.Choice("importer-used", 3); i < used; i++ {
		_, _ = l2.Insert(0, "old")
	}
	vf.Assert(l2.SetMetaAndSnapshot(meta, snap) == nil, "C10 SetMetaAndSnapshot succeeds")
	vf.Reach("restored")
	vf.Assert(l2.GetKey() == l.GetKey() && l2.GetDUID() == l.GetDUID() && l2.GetType() == l.GetType(), "C10 meta restored")
	a, b := l.GetOpID(), l2.GetOpID()
	vf.Assert(a.Lamport == b.Lamport && a.Seq == b.Seq && a.CUID == b.CUID && a.Era == b.Era, "C10 operation id restored")
	vf.Assert(sameList(l.snapshot(), l2.snapshot()) && listInv(l2.snapshot()), "C10 state restored")
	// both respond identically to the same local call
	_, e1 := l.Insert(0, "z")
	_, e2 := l2.Insert(0, "z")
	vf.Assert((e1 == nil) == (e2 == nil), "C10 same answer to a following call")
	vf.Assert(sameList(l.snapshot(), l2.snapshot()), "C10 same state after a following call")
	o1, o2 := l.GetOpID(), l2.GetOpID()
	vf.Assert(o1.Lamport == o2.Lamport && o1.Seq == o2.Seq, "C10 same identifiers after a following call")
}

// VF_C10_Document: a document whose state was built by a two-replica history
// (replaced containers in the cemetery, tombstones, updated array slots) is
// exported and imported into a fresh instance; both then receive the same
// further remote operation and perform the same local call.
func VF_C10_Document() {
	vf.HashAbstract(true)
	a, b := vfNewDoc("a"), vfNewDoc("b")
	vf.Assume(a.doc.GetCUID() != b.doc.GetCUID())
	vfDocBase(a, b)
	var menu2, menuC []int
	if vf.Tier() == 0 {
		menu2, menuC = []int{0, 2, 6, 7}, []int{1, 3}
	}
	okA := docOp("h1", a)
	okB := docOpFrom("h2", b, menu2)
	vf.Assume(okA && okB)
	opsA, opsB := a.flush(), b.flush()
	a.receive(opsB)
	b.receive(opsA)
	meta, snap, err := a.doc.GetMetaAndSnapshot()
	vf.Assert(err == nil, "C10 export succeeds")
	craw, _ := newDocument(vfBase("other", model.TypeOfDatatype_DOCUMENT, "CCCCCCCCCCCCCCCC"), nil, nil)
	c := craw.(*document)
	vf.Assert(c.SetMetaAndSnapshot(meta, snap) == nil, "C10 import succeeds")
	vf.Reach("restored")
	vf.Assert(jsonDeepEq(a.doc.ToJSON(), c.ToJSON()), "C10 restored document has the same readable state")
	vf.Assert(docStructEq(a.doc, c), "C10 restored document is structurally equal")
	vf.Assert(docInv(c), "C10 restored containers satisfy the invariants")
	oa, oc := a.doc.GetOpID(), c.GetOpID()
	vf.Assert(vf.All(oa.Lamport == oc.Lamport, oa.Seq == oc.Seq, oa.CUID == oc.CUID), "C10 operation id restored")
	// re-export
	meta2, snap2, err2 := c.GetMetaAndSnapshot()
	draw, _ := newDocument(vfBase("other2", model.TypeOfDatatype_DOCUMENT, "DDDDDDDDDDDDDDDD"), nil, nil)
	dd := draw.(*document)
	vf.Assert(err2 == nil && dd.SetMetaAndSnapshot(meta2, snap2) == nil && jsonDeepEq(a.doc.ToJSON(), dd.ToJSON()) &&
		docStructEq(a.doc, dd), "C10 re-exported snapshot is equivalent")
	// continuation: a further remote operation from b reaches both
	if docOpFrom("cont", b, menuC) {
		ops := b.flush()
		a.receive(ops)
		_, e := c.ReceiveRemoteModelOperations(ops, false)
		vf.Assert(e == nil, "C10 restored document accepts the remote operation")
		vf.Reach("continued")
		vf.Assert(jsonDeepEq(a.doc.ToJSON(), c.ToJSON()), "C10 original and restored respond identically to a remote operation")
		vf.Assert(jsonDeepEq(a.doc.ToJSON(), b.doc.ToJSON()), "C01 replicas still agree")
	}
	// and the same local call on both
	_, la := a.doc.PutToObject("k", "local-after")
	_, lc := c.PutToObject("k", "local-after")
	vf.Assert((la == nil) == (lc == nil) && jsonDeepEq(a.doc.ToJSON(), c.ToJSON()), "C10 original and restored respond identically to a local call")
	la2, lc2 := a.doc.GetOpID(), c.GetOpID()
	vf.Assert(vf.All(la2.Lamport == lc2.Lamport, la2.Seq == lc2.Seq, la2.CUID == lc2.CUID), "C10 the next local operation gets the same identifier on both")
}
