package orda

// VF_C14_Structs (C14, C03): values that are Go structs (or pointers to / slices
// of structs) are converted through their json tags when a Document call takes
// them; what the issuing replica then holds equals what every other replica
// decodes from the pushed operation, also for integer fields beyond 2^53.

import (
	"github.com/orda-io/orda/client/pkg/model"
	"github.com/orda-io/orda/client/pkg/vf"
)

type vfReading struct {
	Name  string `json:"name"`
	Count uint64 `json:"count"`
	Inner struct {
		Level int64 `json:"level"`
	} `json:"inner"`
}

func VF_C14_Structs() {
	x := vfNewDocSimple()
	rRaw, _ := newDocument(vfBase("k", model.TypeOfDatatype_DOCUMENT, "BBBBBBBBBBBBBBBB"), nil, nil)
	y := rRaw.(*document)
	counts := []uint64{7, 1 << 53, 1<<53 + 1, 1<<64 - 1}
	r := vfReading{Name: "n", Count: counts[vf.Choice("count", len(counts))]}
	r.Inner.Level = []int64{-3, -(1<<53 + 1)}[vf.Choice("level", 2)]
	var e error
	switch vf.Choice("shape", 3) {
	case 0:
		_, e = x.PutToObject("reading", r)
	case 1:
		_, e = x.PutToObject("reading", &r)
	case 2:
		_, e = x.PutToObject("readings", []vfReading{r, r})
	}
	vf.Assert(e == nil, "C03 a struct value is a valid value")
	_, re := y.ReceiveRemoteModelOperations(x.CreatePushPullPack().Operations, false)
	vf.Reach("delivered")
	vf.Assert(re == nil, "C14 the pushed operation decodes and applies")
	vf.Assert(jsonDeepEq(x.ToJSON(), y.ToJSON()), "C14 an operation has the same effect on the replica that receives it")
}

type vfTagged struct {
	Plain   string
	Renamed int32   `json:"renamed,omitempty"`
	Skipped string  `json:"-"`
	Float   float64 `json:"f"`
	Flag    bool    `json:"flag"`
	Nested  struct {
		Deep []string `json:"deep"`
	} `json:"nested"`
	hidden int
}

// VFT_Structs: translator validation of the struct conversion (mapstructure
// model): what a document holds after struct values were put, natively and
// under the engine.
func VFT_Structs() string {
	out := ""
	d := vfNewDocSimple()
	t := vfTagged{Plain: "p", Renamed: 0, Skipped: "s", Float: 2.5, Flag: true, hidden: 3}
	t.Nested.Deep = []string{"a", "b"}
	_, e := d.PutToObject("t", t)
	out += obsErr(toErr(e)) + obsJSON(d.GetValue())
	t.Renamed = 9
	_, e = d.PutToObject("pt", &t)
	out += obsErr(toErr(e)) + obsJSON(d.GetValue())
	r := vfReading{Name: "n", Count: 1<<53 + 1}
	r.Inner.Level = -(1<<53 + 1)
	_, e = d.PutToObject("rs", []vfReading{r})
	out += obsErr(toErr(e)) + obsJSON(d.GetValue())
	arr, _ := d.GetFromObject("rs")
	_, e = arr.InsertToArray(0, vfReading{Name: "m", Count: 1<<64 - 1})
	out += obsErr(toErr(e)) + obsJSON(d.GetValue())
	return out
}
