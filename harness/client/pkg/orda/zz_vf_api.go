package orda

// Integration tier of C01/C15 for List and Map: three replicas built through
// the real constructors (transactions, model-operation conversion, clock
// synchronisation on delivery all run), symbolic client ids and initial clocks,
// solver-chosen positions; two concurrent writers whose operations reach the
// third replica in ONE delivery (a pulled pack of several writers), after which
// the third replica writes too.  Asserts convergence at every quiescent point
// and the causality clause of C15 at datatype level: an operation issued by a
// replica carries a timestamp greater than every timestamp the replica has
// applied.

import (
	"github.com/orda-io/orda/client/pkg/model"
	"github.com/orda-io/orda/client/pkg/vf"
)

type listPeer struct {
	l    *list
	sent int
}

func vfNewListPeer(tag string) *listPeer {
	cuid := vf.UID(tag + ".cuid")
	d, err := newList(vfBase("k", model.TypeOfDatatype_LIST, cuid), nil, nil)
	vf.Assert(err == nil, "newList succeeds")
	l := d.(*list)
	l0 := vf.U64(tag + ".clock")
	vf.Assume(l0 < vfMaxLamport/2)
	l.GetOpID().Lamport = l0
	return &listPeer{l: l}
}

func (p *listPeer) flush() []*model.Operation {
	ops := p.l.CreatePushPullPack().Operations
	out := ops[p.sent:]
	p.sent = len(ops)
	return out
}

func (p *listPeer) receive(ops []*model.Operation) {
	if len(ops) == 0 {
		return
	}
	_, err := p.l.ReceiveRemoteModelOperations(ops, false)
	vf.Assert(err == nil, "remote operations are accepted")
}

// vfPos: a position in [lo, hi]: solver-chosen in the thorough tier, the two
// ends of the range in the quick tier.
func vfPos(tag string, lo, hi int) int {
	if vf.Tier() == 1 {
		return vf.Int(tag, lo, hi)
	}
	if hi > lo && vf.Choice(tag, 2) == 1 {
		return hi
	}
	return lo
}

// localOp performs one valid local call chosen from insert / delete / update /
// two-insert transaction.
func (p *listPeer) localOp(tag string, kinds int) {
	size := p.l.Size()
	k := vf.Choice(tag+".kind", kinds)
	switch k {
	case 0:
		pos := vfPos(tag+".pos", 0, size)
		_, err := p.l.Insert(pos, tag)
		vf.Assert(err == nil, "C03 valid insert succeeds")
	case 1:
		if size == 0 {
			vf.Assume(false)
		}
		pos := vfPos(tag+".pos", 0, size-1)
		_, err := p.l.Update(pos, tag+"u")
		vf.Assert(err == nil, "C03 valid update succeeds")
	case 2:
		if size == 0 {
			vf.Assume(false)
		}
		pos := vfPos(tag+".pos", 0, size-1)
		_, err := p.l.Delete(pos)
		vf.Assert(err == nil, "C03 valid delete succeeds")
	case 3:
		err := p.l.Transaction("t", func(l ListInTx) error {
			if _, e := l.Insert(0, tag+"a"); e != nil {
				return e
			}
			_, e := l.Insert(l.Size(), tag+"b")
			return e
		})
		vf.Assert(err == nil, "C09 valid transaction succeeds")
	}
}

// causal: the identifier the replica would issue next is greater than every
// timestamp (insertion and value time) it holds.
func (p *listPeer) causal() bool {
	id := p.l.GetOpID()
	next := &model.Timestamp{Era: id.Era, Lamport: id.Lamport + 1, CUID: id.CUID}
	ok := true
	for _, n := range chainOf(p.l.snapshot()) {
		ok = vf.All(ok, next.Compare(n.getOrderTime()) > 0, next.Compare(n.getTime()) > 0)
	}
	return ok
}

func sameListView(a, b *list) bool {
	return jsonEqList(a.snapshot(), b.snapshot())
}

func VF_List_API() {
	vf.HashAbstract(true)
	x, y, z := vfNewListPeer("x"), vfNewListPeer("y"), vfNewListPeer("z")
	vf.Assume(vf.All(x.l.GetCUID() != y.l.GetCUID(), x.l.GetCUID() != z.l.GetCUID(), y.l.GetCUID() != z.l.GetCUID()))
	// base history by x, seen by everybody
	_, e := x.l.InsertMany(0, "b0", "b1")
	vf.Assert(e == nil, "base history succeeds")
	base := x.flush()
	y.receive(base)
	z.receive(base)
	// two concurrent writers; x may be busier than y
	kinds, ykinds := 3, 1
	if vf.Tier() == 1 {
		kinds, ykinds = 4, 4
	}
	x.localOp("x1", kinds)
	if vf.Choice("x-busy", 2) == 1 {
		x.localOp("x2", 1)
	}
	y.localOp("y1", ykinds)
	ox, oy := x.flush(), y.flush()
	// the log order of the two pushes; z pulls both in one pack
	var pack []*model.Operation
	if vf.Choice("log-order", 2) == 0 {
		pack = append(append(pack, ox...), oy...)
	} else {
		pack = append(append(pack, oy...), ox...)
	}
	z.receive(pack)
	vf.Reach("pulled")
	vf.Assert(z.causal(), "C15 a new local operation is ordered after every operation its replica has applied (pack of two writers)")
	x.receive(oy)
	y.receive(ox)
	vf.Assert(x.causal() && y.causal(), "C15 a new local operation is ordered after every operation its replica has applied")
	vf.Assert(sameListView(x.l, y.l) && sameListView(x.l, z.l), "C01 replicas with the same operations expose the same list")
	vf.Assert(listInv(x.l.snapshot()) && listInv(y.l.snapshot()) && listInv(z.l.snapshot()), "L3 invariant")
	// the history continues: z writes (insert next to what it has just received), then y
	z.localOp("z1", 1)
	oz := z.flush()
	x.receive(oz)
	y.receive(oz)
	vf.Reach("continued")
	vf.Assert(sameListView(x.l, y.l) && sameListView(x.l, z.l), "C01 replicas keep agreeing as the history continues")
	vf.Assert(sameOrder(x.l.snapshot(), z.l.snapshot()) && sameOrder(y.l.snapshot(), z.l.snapshot()), "C04 same relative order of all elements on every replica")
}

// ---- Map --------------------------------------------------------------------

type mapPeer struct {
	m    *ordaMap
	sent int
}

func vfNewMapPeer(tag string) *mapPeer {
	cuid := vf.UID(tag + ".cuid")
	d, err := newMap(vfBase("k", model.TypeOfDatatype_MAP, cuid), nil, nil)
	vf.Assert(err == nil, "newMap succeeds")
	m := d.(*ordaMap)
	l0 := vf.U64(tag + ".clock")
	vf.Assume(l0 < vfMaxLamport/2)
	m.GetOpID().Lamport = l0
	return &mapPeer{m: m}
}

func (p *mapPeer) flush() []*model.Operation {
	ops := p.m.CreatePushPullPack().Operations
	out := ops[p.sent:]
	p.sent = len(ops)
	return out
}

func (p *mapPeer) receive(ops []*model.Operation) {
	if len(ops) == 0 {
		return
	}
	_, err := p.m.ReceiveRemoteModelOperations(ops, false)
	vf.Assert(err == nil, "remote operations are accepted")
}

func (p *mapPeer) localOp(tag string) {
	key := []string{"a", "b"}[vf.Choice(tag+".key", 2)]
	switch vf.Choice(tag+".kind", 2) {
	case 0:
		_, err := p.m.Put(key, tag)
		vf.Assert(err == nil, "C03 valid put succeeds")
	case 1:
		_, _ = p.m.Remove(key)
	}
}

func (p *mapPeer) causal() bool {
	id := p.m.GetOpID()
	next := &model.Timestamp{Era: id.Era, Lamport: id.Lamport + 1, CUID: id.CUID}
	ok := true
	for _, v := range p.m.snapshot().Map {
		ok = vf.All(ok, next.Compare(v.getTime()) > 0)
	}
	return ok
}

func sameMapView(a, b *ordaMap) bool {
	if a.Size() != b.Size() {
		return false
	}
	for _, k := range []string{"a", "b"} {
		if a.Get(k) != b.Get(k) {
			return false
		}
	}
	return true
}

func VF_Map_API() {
	x, y, z := vfNewMapPeer("x"), vfNewMapPeer("y"), vfNewMapPeer("z")
	vf.Assume(vf.All(x.m.GetCUID() != y.m.GetCUID(), x.m.GetCUID() != z.m.GetCUID(), y.m.GetCUID() != z.m.GetCUID()))
	_, e := x.m.Put("a", "base")
	vf.Assert(e == nil, "base history succeeds")
	base := x.flush()
	y.receive(base)
	z.receive(base)
	x.localOp("x1")
	if vf.Choice("x-busy", 2) == 1 {
		x.localOp("x2")
	}
	y.localOp("y1")
	ox, oy := x.flush(), y.flush()
	var pack []*model.Operation
	if vf.Choice("log-order", 2) == 0 {
		pack = append(append(pack, ox...), oy...)
	} else {
		pack = append(append(pack, oy...), ox...)
	}
	z.receive(pack)
	vf.Reach("pulled")
	vf.Assert(z.causal(), "C15 a new local operation is ordered after every operation its replica has applied (pack of two writers)")
	x.receive(oy)
	y.receive(ox)
	vf.Assert(sameMapView(x.m, y.m) && sameMapView(x.m, z.m), "C01 replicas with the same operations expose the same map")
	// z overwrites what it has just received: its write is the newest everywhere
	zk := []string{"a", "b"}[vf.Choice("z.key", 2)]
	_, e = z.m.Put(zk, "z-last")
	vf.Assert(e == nil, "C03 valid put succeeds")
	oz := z.flush()
	x.receive(oz)
	y.receive(oz)
	vf.Reach("continued")
	vf.Assert(sameMapView(x.m, y.m) && sameMapView(x.m, z.m), "C01 replicas keep agreeing as the history continues")
	vf.Assert(x.m.Get(zk) == "z-last" && y.m.Get(zk) == "z-last", "C02 a write issued after seeing all others is the newest on every replica")
}

// VF_List_Readable (C04, C03): "a local insert at index i is immediately
// readable at index i" through the public API, on a replica whose list was
// shaped by its own earlier calls AND by operations received from another
// replica (tombstones and remote elements around the insertion point, positions
// chosen by the solver); afterwards both replicas hold the same list.
func VF_List_Readable() {
	vf.HashAbstract(true)
	x, y := vfNewListPeer("x"), vfNewListPeer("y")
	vf.Assume(x.l.GetCUID() != y.l.GetCUID())
	_, e := x.l.InsertMany(0, "b0", "b1")
	vf.Assert(e == nil, "base history succeeds")
	y.receive(x.flush())
	// x writes (often an append), y concurrently inserts two elements and may delete one
	posX := vf.Int("x1.pos", 0, x.l.Size())
	_, e = x.l.Insert(posX, "x1")
	vf.Assert(e == nil, "C03 valid insert succeeds")
	posY := vf.Int("y1.pos", 0, y.l.Size())
	_, e = y.l.InsertMany(posY, "y1", "y2")
	vf.Assert(e == nil, "C03 valid insert succeeds")
	if vf.Choice("y-deletes", 2) == 1 {
		_, e = y.l.Delete(vf.Int("y2.pos", 0, y.l.Size()-1))
		vf.Assert(e == nil, "C03 valid delete succeeds")
	}
	ox, oy := x.flush(), y.flush()
	x.receive(oy)
	y.receive(ox)
	vf.Assert(sameListView(x.l, y.l), "C01 replicas with the same operations expose the same list")
	// now x inserts again, anywhere
	size := x.l.Size()
	before := listJSON(x.l)
	pos := vf.Int("x2.pos", 0, size)
	_, e = x.l.Insert(pos, "x2")
	vf.Reach("inserted")
	vf.Assert(e == nil, "C03 valid insert succeeds")
	got, ge := x.l.Get(pos)
	vf.Assert(ge == nil && got == "x2", "C04 a local insert at index i is immediately readable at index i")
	after := listJSON(x.l)
	vf.Assert(len(after) == size+1, "C03 the list grew by one")
	for i := 0; i < size; i++ {
		k := i
		if i >= pos {
			k = i + 1
		}
		vf.Assert(after[k] == before[i], "C03/C04 the other elements keep their order around the inserted one")
	}
	y.receive(x.flush())
	vf.Assert(sameListView(x.l, y.l), "C01 replicas keep agreeing as the history continues")
	vf.Assert(listInv(x.l.snapshot()) && listInv(y.l.snapshot()), "L3 invariant")
}

// VF_Map_Three (C01, C02, C05): three replicas each issue one operation on the
// same key at the same moment (put or remove, clocks and client ids symbolic:
// every order of the three timestamps), and each receives the other two in
// either order, through the datatype's real remote path
// (ReceiveRemoteModelOperations -> ExecuteRemote).  All three end equal, and the
// key holds the value of the greatest-timestamp operation, or nothing if that
// was a remove.  Two replicas cannot show what a second remove does to the
// tombstone a first one left.
func VF_Map_Three() {
	x, y, z := vfNewMapPeer("x"), vfNewMapPeer("y"), vfNewMapPeer("z")
	vf.Assume(vf.All(x.m.GetCUID() != y.m.GetCUID(), x.m.GetCUID() != z.m.GetCUID(), y.m.GetCUID() != z.m.GetCUID()))
	_, e := x.m.Put("a", "base")
	vf.Assert(e == nil, "base history succeeds")
	base := x.flush()
	y.receive(base)
	z.receive(base)
	peers := []*mapPeer{x, y, z}
	kinds := make([]int, 3)
	var ops [3][]*model.Operation
	for i, p := range peers {
		kinds[i] = vf.Choice("kind", 2)
		if kinds[i] == 0 {
			_, err := p.m.Put("a", "v"+string(rune('0'+i)))
			vf.Assert(err == nil, "C03 valid put succeeds")
		} else {
			_, err := p.m.Remove("a")
			vf.Assert(err == nil, "C03 valid remove succeeds")
		}
		ops[i] = p.flush()
	}
	for i, p := range peers {
		j, k := (i+1)%3, (i+2)%3
		if vf.Choice("delivery-order", 2) == 1 {
			j, k = k, j
		}
		p.receive(ops[j])
		p.receive(ops[k])
	}
	vf.Reach("delivered")
	vf.Assert(sameMapView(x.m, y.m) && sameMapView(x.m, z.m), "C01 three replicas with the same operations expose the same map")
	// the winner: the operation with the greatest timestamp
	win := 0
	for i := 1; i < 3; i++ {
		if ops[i][0].ID.Compare(ops[win][0].ID) > 0 {
			win = i
		}
	}
	var want interface{}
	if kinds[win] == 0 {
		want = "v" + string(rune('0'+win))
	}
	vf.Assert(x.m.Get("a") == want, "C02 the key holds what the greatest-timestamp operation wrote (nothing if it removed)")
}
