package orda

// C03: without concurrency each datatype behaves as its plain data structure;
// invalid calls return an error, never panic, change nothing readable and add
// nothing to the operations awaiting push.  Public API, lock-step reference.

import (
	"github.com/orda-io/orda/client/pkg/model"
	"github.com/orda-io/orda/client/pkg/vf"
)

func vfNewList() *list {
	l, err := newList(vfBase("k", model.TypeOfDatatype_LIST, "AAAAAAAAAAAAAAAA"), nil, nil)
	vf.Assert(err == nil, "newList succeeds")
	return l.(*list)
}

func vfNewMap() *ordaMap {
	m, err := newMap(vfBase("k", model.TypeOfDatatype_MAP, "AAAAAAAAAAAAAAAA"), nil, nil)
	vf.Assert(err == nil, "newMap succeeds")
	return m.(*ordaMap)
}

func vfNewCounter() *counter {
	c, err := newCounter(vfBase("k", model.TypeOfDatatype_COUNTER, "AAAAAAAAAAAAAAAA"), nil, nil)
	vf.Assert(err == nil, "newCounter succeeds")
	return c.(*counter)
}

// pending returns the number of operations awaiting push and the last Seq.
func pendingOps(w interface {
	CreatePushPullPack() *model.PushPullPack
}) (int, uint64) {
	ops := w.CreatePushPullPack().Operations
	if len(ops) == 0 {
		return 0, 0
	}
	return len(ops), ops[len(ops)-1].ID.Seq
}

func sliceEq(a, b []interface{}) bool {
	if len(a) != len(b) {
		return false
	}
	for i := range a {
		if a[i] != b[i] {
			return false
		}
	}
	return true
}

var vfVals = []interface{}{"x", "y", 7.0, true}

// VF_C03_List drives the public List API with arbitrary (valid and invalid)
// arguments in lock-step with a plain slice.
func VF_C03_List() {
	l := vfNewList()
	var ref []interface{}
	// pre-state: 0..2 elements, optionally one deleted in between (tombstone)
	pre := vf.Choice("pre", 4)
	for i := 0; i < pre && pre < 3; i++ {
		_, err := l.Insert(i, vfVals[i])
		vf.Assert(err == nil, "C03 valid insert succeeds")
		ref = append(ref, vfVals[i])
	}
	if pre == 3 {
		_, _ = l.Insert(0, "a")
		_, _ = l.Insert(1, "b")
		_, _ = l.Insert(2, "c")
		_, err := l.Delete(1)
		vf.Assert(err == nil, "C03 valid delete succeeds")
		ref = []interface{}{"a", "c"}
	}
	steps := 2
	if vf.Tier() == 1 {
		steps = 3
	}
	for s := 0; s < steps; s++ {
		n0, seq0 := pendingOps(l)
		opid0 := l.GetOpID().Clone()
		before := append([]interface{}{}, ref...)
		size := len(ref)
		pos := vf.Choice("pos", size+3) - 1 // -1 .. size+1
		call := vf.Choice("call", 8)
		vf.Tag("call", call)
		var err error
		valid := false
		panicked, msg := vf.Try(func() {
			switch call {
			case 7: // Update of a range (crosses the tombstone of the pre-state)
				old, e := l.Update(pos, "u", "w")
				err = toErr(e)
				valid = pos >= 0 && pos+2 <= size
				if valid {
					vf.Assert(sliceEq(old, ref[pos:pos+2]), "C03 Update of a range returns the old values")
					ref[pos], ref[pos+1] = "u", "w"
				}
			case 0: // Insert
				var ret interface{}
				ret, e := l.Insert(pos, "n")
				err = toErr(e)
				valid = pos >= 0 && pos <= size
				if valid {
					ref = append(ref[:pos], append([]interface{}{"n"}, ref[pos:]...)...)
					_ = ret
				}
			case 1: // InsertMany with a nil value inside
				// an untyped nil or a typed nil pointer: both are null values
				null := []interface{}{nil, (*string)(nil), (*map[string]interface{})(nil)}[vf.Choice("null", 3)]
				_, e := l.InsertMany(pos, "p", null)
				err = toErr(e)
				valid = false
			case 2: // Get
				v, e := l.Get(pos)
				err = toErr(e)
				valid = pos >= 0 && pos < size
				if valid {
					vf.Assert(v == ref[pos], "C03 Get returns the element")
				}
			case 3: // Delete
				v, e := l.Delete(pos)
				err = toErr(e)
				valid = pos >= 0 && pos < size
				if valid {
					vf.Assert(v == ref[pos], "C03 Delete returns the deleted element")
					ref = append(ref[:pos], ref[pos+1:]...)
				}
			case 4: // DeleteMany with a count
				cnt := vf.Choice("cnt", 4) - 1 // -1..2
				vs, e := l.DeleteMany(pos, cnt)
				err = toErr(e)
				valid = pos >= 0 && cnt >= 1 && pos+cnt <= size
				if valid {
					vf.Assert(sliceEq(vs, ref[pos:pos+cnt]), "C03 DeleteMany returns the deleted elements")
					ref = append(ref[:pos], ref[pos+cnt:]...)
				}
			case 5: // Update
				old, e := l.Update(pos, "u")
				err = toErr(e)
				valid = pos >= 0 && pos < size
				if valid {
					vf.Assert(len(old) == 1 && old[0] == ref[pos], "C03 Update returns the old value")
					ref[pos] = "u"
				}
			case 6: // GetMany
				cnt := vf.Choice("cnt", 4) - 1
				vs, e := l.GetMany(pos, cnt)
				err = toErr(e)
				valid = pos >= 0 && cnt >= 1 && pos+cnt <= size
				if valid {
					vf.Assert(sliceEq(vs, ref[pos:pos+cnt]), "C03 GetMany returns the elements")
				}
			}
		})
		vf.Reach("called")
		if panicked {
			vf.Tag("panic", msg)
		}
		vf.Assert(!panicked, "C03 no panic")
		vf.Assert((err == nil) == valid, "C03 error iff the call is invalid")
		if !valid {
			ref = before
		}
		// readable state
		vf.Assert(l.Size() == len(ref), "C03 Size matches the reference")
		vf.Assert(sliceEq(l.snapshot().ToJSON().([]interface{}), ref), "C03 JSON view matches the reference")
		// pending operations and identifiers
		n1, seq1 := pendingOps(l)
		mutating := valid && (call == 0 || call == 3 || call == 4 || call == 5 || call == 7)
		if mutating {
			vf.Assert(n1 == n0+1 && seq1 == seq0+1, "C03/C15 exactly one operation with the next sequence number is queued")
		} else {
			vf.Assert(n1 == n0 && seq1 == seq0, "C03 nothing is queued by a read or an invalid call")
			vf.Assert(l.GetOpID().Seq == opid0.Seq && l.GetOpID().Lamport == opid0.Lamport, "C03/C15 identifiers unchanged by a read or an invalid call")
		}
	}
}

func toErr(e interface{ Error() string }) error {
	if e == nil {
		return nil
	}
	return e
}

// VF_C03_Map drives the public Map API in lock-step with a plain map.
func VF_C03_Map() {
	m := vfNewMap()
	ref := map[string]interface{}{}
	keys := []string{"", "a", "b"}
	steps := 3
	if vf.Tier() == 1 {
		steps = 4
	}
	// pre-state: empty, or one with a removed key (a tombstone) next to a live one
	if vf.Choice("pre", 2) == 1 {
		_, e1 := m.Put("a", "gone")
		_, e2 := m.Remove("a")
		_, e3 := m.Put("b", "kept")
		vf.Assert(e1 == nil && e2 == nil && e3 == nil, "C03 valid calls succeed")
		ref["b"] = "kept"
	}
	for s := 0; s < steps; s++ {
		n0, seq0 := pendingOps(m)
		opid0 := m.GetOpID().Clone()
		key := keys[vf.Choice("key", len(keys))]
		call := vf.Choice("call", 4)
		vf.Tag("call", call)
		var err error
		valid, mutating := false, false
		panicked, msg := vf.Try(func() {
			switch call {
			case 0: // Put
				val := vfVals[vf.Choice("val", len(vfVals))]
				old, e := m.Put(key, val)
				err = toErr(e)
				valid = key != ""
				if valid {
					vf.Assert(old == ref[key], "C03 Put returns the previous value")
					ref[key] = val
					mutating = true
				}
			case 1: // Put nil
				null := []interface{}{nil, (*string)(nil), (*int)(nil)}[vf.Choice("null", 3)]
				_, e := m.Put(key, null)
				err = toErr(e)
				valid = false
			case 2: // Remove
				old, e := m.Remove(key)
				err = toErr(e)
				_, present := ref[key]
				valid = key != "" && present
				if valid {
					vf.Assert(old == ref[key], "C03 Remove returns the removed value")
					delete(ref, key)
					mutating = true
				}
			case 3: // Get
				v := m.Get(key)
				valid = true
				vf.Assert(v == ref[key], "C03 Get returns the stored value")
			}
		})
		vf.Reach("called")
		if panicked {
			vf.Tag("panic", msg)
		}
		vf.Assert(!panicked, "C03 no panic")
		vf.Assert((err == nil) == valid, "C03 error iff the call is invalid")
		vf.Assert(m.Size() == len(ref), "C03 Size matches the reference")
		js := m.snapshot().ToJSON().(map[string]interface{})
		vf.Assert(len(js) == len(ref), "C03 JSON view has the reference's keys")
		for k, v := range ref {
			vf.Assert(js[k] == v && m.Get(k) == v, "C03 JSON view matches the reference")
		}
		n1, seq1 := pendingOps(m)
		if mutating {
			vf.Assert(n1 == n0+1 && seq1 == seq0+1, "C03/C15 exactly one operation with the next sequence number is queued")
		} else {
			vf.Assert(n1 == n0 && seq1 == seq0, "C03 nothing is queued by a read or an invalid call")
			vf.Assert(m.GetOpID().Seq == opid0.Seq && m.GetOpID().Lamport == opid0.Lamport, "C03/C15 identifiers unchanged by a read or an invalid call")
		}
	}
}

// VF_C03_Counter: the counter is a 32-bit integer for every delta.
func VF_C03_Counter() {
	c := vfNewCounter()
	var ref int32
	for s := 0; s < 2; s++ {
		n0, seq0 := pendingOps(c)
		if vf.Choice("call", 2) == 0 {
			d := vf.I32("delta")
			r, err := c.IncreaseBy(d)
			ref += d
			vf.Assert(err == nil, "C03 IncreaseBy succeeds")
			vf.Assert(r == ref, "C03 IncreaseBy returns the new value")
		} else {
			r, err := c.Increase()
			ref++
			vf.Assert(err == nil && r == ref, "C03 Increase returns the new value")
		}
		vf.Reach("called")
		vf.Assert(c.Get() == ref, "C03 Get matches the 32-bit reference")
		n1, seq1 := pendingOps(c)
		vf.Assert(n1 == n0+1 && seq1 == seq0+1, "C03/C15 exactly one operation with the next sequence number is queued")
	}
}

// VF_C03_Positions: for EVERY int position (a symbolic 64-bit value, not a
// small range) and a count from a small set, a positional call on a list of
// three elements either addresses existing elements - then it succeeds - or is
// refused with an error, never panics, changes nothing readable and queues
// nothing.  The solver looks for positions where the validation arithmetic and
// the plain rule 0 <= pos (&& pos+n <= size) disagree (wrap-around included).
func VF_C03_Positions() {
	which := vf.Choice("datatype", 2)
	pos := int(vf.I64("pos"))
	n := []int{1, 2, 3}[vf.Choice("count", 3)]
	call := vf.Choice("call", 5)
	vf.Tag("call", call)
	vf.Tag("datatype", which)
	const size = 3
	var err error
	var before, after interface{}
	var n0, n1 int
	valid := false
	var panicked bool
	var msg string
	if which == 0 {
		l := vfNewList()
		_, e := l.InsertMany(0, "a", "b", "c")
		vf.Assert(e == nil, "history")
		before = append([]interface{}{}, listJSON(l)...)
		n0, _ = pendingOps(l)
		panicked, msg = vf.Try(func() {
			switch call {
			case 0:
				valid = vf.All(pos >= 0, pos < size)
				_, e := l.Get(pos)
				err = toErr(e)
			case 1:
				valid = vf.All(pos >= 0, pos < size, pos <= size-n)
				_, e := l.GetMany(pos, n)
				err = toErr(e)
			case 2:
				valid = vf.All(pos >= 0, pos < size)
				_, e := l.Update(pos, "u")
				err = toErr(e)
			case 3:
				valid = vf.All(pos >= 0, pos < size, pos <= size-n)
				_, e := l.DeleteMany(pos, n)
				err = toErr(e)
			case 4:
				valid = vf.All(pos >= 0, pos <= size)
				_, e := l.Insert(pos, "i")
				err = toErr(e)
			}
		})
		after = listJSON(l)
		n1, _ = pendingOps(l)
	} else {
		d := vfNewDocSimple()
		_, e := d.PutToObject("arr", []interface{}{"a", "b", "c"})
		vf.Assert(e == nil, "history")
		arr := child(d, "arr")
		before = d.ToJSON()
		n0, _ = pendingOps(d)
		panicked, msg = vf.Try(func() {
			switch call {
			case 0:
				valid = vf.All(pos >= 0, pos < size)
				_, e := arr.GetFromArray(pos)
				err = toErr(e)
			case 1:
				valid = vf.All(pos >= 0, pos < size, pos <= size-n)
				_, e := arr.GetManyFromArray(pos, n)
				err = toErr(e)
			case 2:
				valid = vf.All(pos >= 0, pos < size)
				_, e := arr.UpdateManyInArray(pos, "u")
				err = toErr(e)
			case 3:
				valid = vf.All(pos >= 0, pos < size, pos <= size-n)
				_, e := arr.DeleteManyInArray(pos, n)
				err = toErr(e)
			case 4:
				valid = vf.All(pos >= 0, pos <= size)
				_, e := arr.InsertToArray(pos, "i")
				err = toErr(e)
			}
		})
		after = d.ToJSON()
		n1, _ = pendingOps(d)
	}
	vf.Reach("called")
	if panicked {
		vf.Tag("panic", msg)
	}
	vf.Assert(!panicked, "C03 no panic for any position")
	vf.Assert((err == nil) == valid, "C03 a positional call succeeds exactly when it addresses existing elements")
	if !valid {
		vf.Assert(jsonDeepEq(before, after), "C03 a refused call changes nothing readable")
		vf.Assert(n1 == n0, "C03 a refused call queues nothing")
	}
}
