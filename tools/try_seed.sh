#!/bin/sh
# usage: tools/try_seed.sh <patch.diff> <property> [more properties...]
# Applies a seeded change to /repo, runs the quick checks of the given
# properties, prints their verdicts and always restores /repo.
set -u
ROOT="$(cd "$(dirname "$0")/.." && pwd)"
PATCH="$1"; shift
if ! git -C /repo diff --quiet; then echo "refusing: /repo has uncommitted changes"; exit 3; fi
if ! git -C /repo apply --check "$PATCH" 2>/dev/null; then echo "patch does not apply"; exit 3; fi
git -C /repo apply "$PATCH"
trap 'git -C /repo checkout -- . ; git -C /repo clean -fdq' EXIT
for p in "$@"; do
  out=$("$ROOT/check" "$p" 2>&1); rc=$?
  echo "== $p exit=$rc"
  echo "$out" | grep -E "^(VIOLATION|KNOWN-FINDING|INCONCLUSIVE|OK)" | cut -c1-220 | head -8
  echo "$out" | grep -E "^  harness=" | cut -c1-260 | head -4
done
