#!/bin/sh
# usage: tools/try_seed_wt.sh <seed-dir-or-patch> <property> [more properties...]
# Like try_seed.sh, but leaves /repo alone: the seeded change is applied to a
# scratch git worktree of /repo's HEAD (outside /repo and /verif), the checks
# run against it through $VERIF_REPO, write their replays/evidence under
# /dev/shm, and the worktree is removed afterwards.  Several trials can run at
# the same time; the registered checks never use these variables.
set -u
ROOT="$(cd "$(dirname "$0")/.." && pwd)"
SEED="$1"; shift
case "$SEED" in
  *.diff) PATCH="$(cd "$(dirname "$SEED")" && pwd)/$(basename "$SEED")" ;;
  *)      PATCH="$(cd "$SEED" && pwd)/patch.diff" ;;
esac
NAME="$(basename "$(dirname "$PATCH")")"
WT="/tmp/seedrun/$NAME.$$"
OUT="/dev/shm/seedout/$NAME.$$"
mkdir -p /tmp/seedrun "$OUT"
git -C /repo worktree add -q --detach "$WT" "${BASE:-HEAD}" || exit 3
trap 'git -C /repo worktree remove --force "$WT" >/dev/null 2>&1; rm -rf "$OUT"' EXIT
if ! git -C "$WT" apply "$PATCH"; then echo "patch does not apply"; exit 3; fi
TIER="${TIER:-quick}"
for p in "$@"; do
  out=$(VERIF_REPO="$WT" VERIF_OUT="$OUT" "$ROOT/check" "$p" -tier "$TIER" ${WORKERS:+-workers $WORKERS} 2>&1); rc=$?
  echo "== $NAME $p exit=$rc"
  echo "$out" | grep -E "^(VIOLATION|KNOWN-FINDING|INCONCLUSIVE|OK)" | cut -c1-220 | head -8
  echo "$out" | grep -E "^  harness=" | cut -c1-300 | head -4
done
