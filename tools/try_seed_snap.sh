#!/bin/sh
# usage: tools/try_seed_snap.sh <seed-dir-or-patch> <property> [more properties...]
# As try_seed_wt.sh, and additionally independent of later edits in /verif: the
# harness directory and the known-findings file are copied to a scratch root
# first, so harnesses can be edited while trials are running.
set -u
ROOT="$(cd "$(dirname "$0")/.." && pwd)"
SEED="$1"; shift
case "$SEED" in
  *.diff) PATCH="$(cd "$(dirname "$SEED")" && pwd)/$(basename "$SEED")" ;;
  *)      PATCH="$(cd "$SEED" && pwd)/patch.diff" ;;
esac
NAME="$(basename "$(dirname "$PATCH")")"
WT="/tmp/seedrun/$NAME.$$"
OUT="/dev/shm/seedout/$NAME.$$"
SNAP="/dev/shm/seedsnap/$NAME.$$"
mkdir -p /tmp/seedrun "$OUT" "$SNAP"
cp -r "$ROOT/harness" "$ROOT/known_findings.json" "$SNAP/"
git -C /repo worktree add -q --detach "$WT" "${BASE:-HEAD}" || exit 3
trap 'git -C /repo worktree remove --force "$WT" >/dev/null 2>&1; rm -rf "$OUT" "$SNAP"' EXIT
if ! git -C "$WT" apply "$PATCH"; then echo "patch does not apply"; exit 3; fi
TIER="${TIER:-quick}"
export GOFLAGS=-mod=mod GOPROXY=off GOSUMDB=off GOTOOLCHAIN=local
for p in "$@"; do
  out=$(VERIF_ROOT="$SNAP" VERIF_REPO="$WT" VERIF_OUT="$OUT" "$ROOT/bin/gosym" check "$p" -tier "$TIER" ${WORKERS:+-workers $WORKERS} 2>&1); rc=$?
  echo "== $NAME $p exit=$rc"
  echo "$out" | grep -E "^(VIOLATION|KNOWN-FINDING|INCONCLUSIVE|OK)" | cut -c1-220 | head -8
  echo "$out" | grep -E "^  harness=" | cut -c1-300 | head -4
done
