#!/usr/bin/env python3
# Regenerates /verif/MANIFEST.json from harness/props.json and tools/claims.json.
import json, os
root = os.path.dirname(os.path.dirname(os.path.abspath(__file__)))
props = [json.loads(l) for l in open(os.path.join(root, 'properties.jsonl'))]
reg = json.load(open(os.path.join(root, 'harness', 'props.json')))
claims = json.load(open(os.path.join(root, 'tools', 'claims.json')))
checks = []
for p in props:
    pid = p['id']
    if pid not in reg or pid not in claims['claimed']:
        continue
    c = claims['claimed'][pid]
    checks.append({
        "property_id": pid,
        "quick_cmd": f"./check {pid} -tier quick",
        "thorough_cmd": f"./check {pid} -tier thorough",
        "evidence_file": f"/verif/evidence/{pid}.json",
        "replay_cmd_template": "./bin/gosym replay {path}",
        "engine": "gosym",
        "level_claimed": {"category": "other", "text": c['text'], "design_ref": c.get('ref', 'DESIGN.md section 5 ' + pid)},
        "level_note": c['note'],
        "technique": c.get('technique', "symbolic execution of go/ssa of the real code + SMT solver (z3/cvc5), bounded"),
    })
na = []
for p in props:
    pid = p['id']
    if pid in claims['claimed'] and pid in reg:
        continue
    na.append({"property_id": pid, "reason": claims['not_applicable'].get(pid, "check not built yet in this session (planned harness: DESIGN.md section 5)")})
m = {
    "version": 1,
    "setup_cmd": "cd /verif/engine && GOFLAGS=-mod=mod GOPROXY=off GOSUMDB=off GOTOOLCHAIN=local go build -o /verif/bin/gosym .",
    "hooks": {"guard": "verif", "enable": "no hooks: harnesses are injected with go/packages overlays (and go test -overlay for native replays); nothing is compiled into /repo",
              "baseline_off_cmd": "for m in client server .; do (cd /repo/$m && GOFLAGS=-mod=mod go test -vet=off -count=1 ./...); done", "source_commits": [], "add_only": True},
    "engines": [{"name": "gosym", "path": "/verif/engine", "serves_properties": [c['property_id'] for c in checks],
                 "kind_free_text": "symbolic executor for Go SSA (fork of x/tools go/ssa/interp) with SMT-LIB2 back end (z3 5.1.0, cvc5 1.0 as fallback), stateless DFS path exploration over solver-decided branches, native replay of counterexamples with go test -overlay"}],
    "checks": checks,
    "notes": "All checks are solver-based bounded checks of the real code (DESIGN.md). Exit 0 = held within the stated bounds (KNOWN-FINDING lines possible), 1 = VIOLATION confirmed by native replay, 2 = inconclusive (never a VIOLATION line).",
    "not_applicable": na,
}
json.dump(m, open(os.path.join(root, 'MANIFEST.json'), 'w'), indent=1)
print(len(checks), "checks,", len(na), "not applicable")
