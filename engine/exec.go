package main

// exec is the state of one path execution: the decision prefix being replayed,
// the decisions taken beyond it, the path condition (mirrored in the worker's
// solver), the symbolic inputs created so far and the goroutine scheduler.

import (
	"fmt"
	"go/types"
	"math/big"
	"sort"
	"strings"

	"golang.org/x/tools/go/ssa"
)

// dec is one recorded decision.
//
//	'b' boolean branch, V=1 true / 0 false
//	'c' n-way choice, V=index
//	'v' concretisation: term == V
//	'x' concretisation: term != V (another 'v'/'x' follows)
type dec struct {
	K byte
	V uint64
}

func decsString(ds []dec) string {
	var b strings.Builder
	for _, d := range ds {
		fmt.Fprintf(&b, "%c%d.", d.K, d.V)
	}
	return b.String()
}

// abort ends a path execution.
type abort struct {
	kind string // infeasible, assume, unsupported, unwind, deadlock, panic, violation, kill, engine, done
	msg  string
}

func (a abort) String() string { return a.kind + ": " + a.msg }

type inputRec struct {
	Name string `json:"name"`
	Kind string `json:"kind"` // u64,u32,i32,int,bool,str,choice,u8,...
	term *Term
	conc value // for concrete (choice) inputs
}

type violation struct {
	Label   string            `json:"label"`
	Kind    string            `json:"kind"` // assert, panic, deadlock
	Msg     string            `json:"msg"`
	Inputs  []replayInput     `json:"inputs"`
	Decs    string            `json:"decisions"`
	Sites   []string          `json:"sites"`
	Tags    map[string]string `json:"tags,omitempty"`
	Harness string            `json:"harness"`
}

type replayInput struct {
	Name  string `json:"name"`
	Kind  string `json:"kind"`
	Value string `json:"value"`
}

type pathResult struct {
	retval     value
	outcome    abort
	forks      [][]dec
	trace      []dec
	reached    map[string]bool
	violation  *violation
	asserts    int // assertion queries discharged (unsat)
	assertsTrv int // assertions that were concretely true
	inconcl    []string
	steps      int
	funcs      map[string]bool
	samples    []replayInput
	nInputs    int
	tags       map[string]string
}

type exec struct {
	cfg    *runConfig
	solver *Solver
	prog   *program

	prefix []dec
	pos    int
	trace  []dec
	forks  [][]dec

	inputs   []*inputRec
	pathCond []*Term
	reached  map[string]bool
	tags     map[string]string
	funcs    map[string]bool
	sites    []string

	steps     int
	decisions int
	concCount map[string]int

	asserts    int
	assertsTrv int
	inconcl    []string
	violation  *violation

	hashApps []*hashApp // applications of the injective Hash abstraction

	// scheduler
	gors            []*gor
	cur             *gor
	killed          bool
	preempt         int // remaining preemptions (interleaving mode)
	mstates         map[*value]*mstate
	fresh           int
	uidBytes        map[*Term][]*Term
	symClock        bool
	randCounter     uint64
	pools           map[*value][]value
	realFormatting  bool
	bypassIntrinsic *ssa.Function
	jsonUseNumber   bool
	readers         map[*value]value
	decoders        map[*value]*jsonDecoder
	lastClock       *Term

	globals map[*ssa.Global]*value
	inited  map[*ssa.Package]bool
	inInit  int
	depth   int

	known         map[*Term]bool
	ubounds       map[*Term]uint64 // unsigned upper bounds of input variables (from assumptions)
	lbounds       map[*Term]uint64
	fromInts      map[*Term]*Term     // integer term -> its decimal text term
	blobOf        map[*Term]*jsonBlob // string(text of a JSON value) -> the value
	leaseExpiries int
	fallback      func() *Solver
	fallbackHits  int
	knownHits     int
	local         *localCtx
	unknownBranch bool
	panicSite     string
	pendingAbort  *abort
	exitAck       chan struct{}
	syncMaps      map[*value]*gmap
	mapHashes     map[*value]*[]byte
	mongoSt       *mongoState
	hashAbstract  bool
	uidCounter    int
	preemptFns    map[string]bool

	mapPermute map[string]bool
}

type hashApp struct {
	args []*Term
	res  *Term
}

func (ex *exec) abort(kind, format string, args ...interface{}) {
	panic(abort{kind, fmt.Sprintf(format, args...)})
}

func (ex *exec) unsupported(format string, args ...interface{}) {
	ex.abort("unsupported", format, args...)
}

func (ex *exec) assertTerm(t *Term) {
	if t.IsConst() && t.U == 1 {
		return
	}
	if v, ok := ex.known[t]; ok && v {
		return // already part of the path condition
	}
	ex.learn(t, true)
	ex.pathCond = append(ex.pathCond, t)
	ex.solver.Assert(t)
}

// learn records the truth value of t (and of its obvious consequences) in the
// per-path table of decided facts.
func (ex *exec) learn(t *Term, v bool) {
	if t.IsConst() {
		return
	}
	ex.known[t] = v
	if v && (t.Op == "bvult" || t.Op == "bvule") && t.Args[0].Op == "var" && t.Args[1].IsConst() {
		ub := t.Args[1].U
		if t.Op == "bvult" && ub > 0 {
			ub--
		}
		if old, ok := ex.ubounds[t.Args[0]]; !ok || ub < old {
			ex.ubounds[t.Args[0]] = ub
		}
	}
	if t.Op == "<" && t.S == sBool {
		// integer bounds of nat-encoded inputs
		x, c := t.Args[0], t.Args[1]
		if x.Op == "var" && c.IsConst() && c.Str == "" {
			if v { // x < c
				if old, ok := ex.ubounds[x]; (!ok || c.U-1 < old) && c.U > 0 {
					ex.ubounds[x] = c.U - 1
				}
			} else { // x >= c
				if old, ok := ex.lbounds[x]; !ok || c.U > old {
					ex.lbounds[x] = c.U
				}
			}
		}
	}
	switch t.Op {
	case "not":
		ex.learn(t.Args[0], !v)
	case "and":
		if v {
			ex.learn(t.Args[0], true)
			ex.learn(t.Args[1], true)
		}
	case "or":
		if !v {
			ex.learn(t.Args[0], false)
			ex.learn(t.Args[1], false)
		}
	}
}

// lookupKnown answers c from the table of decided facts, without the solver.
func (ex *exec) lookupKnown(c *Term, depth int) (val, ok bool) {
	if c.IsConst() {
		return c.U == 1, true
	}
	if v, ok := ex.known[c]; ok {
		return v, true
	}
	if depth > 6 {
		return false, false
	}
	switch c.Op {
	case "not":
		v, ok := ex.lookupKnown(c.Args[0], depth+1)
		return !v, ok
	case "and":
		a, oka := ex.lookupKnown(c.Args[0], depth+1)
		b, okb := ex.lookupKnown(c.Args[1], depth+1)
		if (oka && !a) || (okb && !b) {
			return false, true
		}
		if oka && okb {
			return true, true
		}
	case "or":
		a, oka := ex.lookupKnown(c.Args[0], depth+1)
		b, okb := ex.lookupKnown(c.Args[1], depth+1)
		if (oka && a) || (okb && b) {
			return true, true
		}
		if oka && okb {
			return false, true
		}
	case "ite":
		if cv, okc := ex.lookupKnown(c.Args[0], depth+1); okc {
			if cv {
				return ex.lookupKnown(c.Args[1], depth+1)
			}
			return ex.lookupKnown(c.Args[2], depth+1)
		}
	}
	return false, false
}

func (ex *exec) replaying() bool { return ex.pos < len(ex.prefix) }

func (ex *exec) nextDec(kind byte) dec {
	d := ex.prefix[ex.pos]
	ex.pos++
	if d.K != kind && !(kind == 'v' && d.K == 'x') {
		ex.abort("engine", "replay divergence at decision %d: want %c got %c (%s)", ex.pos-1, kind, d.K, decsString(ex.prefix))
	}
	ex.trace = append(ex.trace, d)
	return d
}

func (ex *exec) bumpDecisions() {
	ex.decisions++
	if ex.decisions > ex.cfg.MaxDecisions {
		ex.abort("unwind", "more than %d decisions on one path (loop over a symbolic bound?)", ex.cfg.MaxDecisions)
	}
}

func (ex *exec) forkAlt(d dec) {
	alt := make([]dec, len(ex.trace)+1)
	copy(alt, ex.trace)
	alt[len(ex.trace)] = d
	ex.forks = append(ex.forks, alt)
}

// decide returns the truth value of c on this path, forking if both values are
// feasible under the path condition.
func (ex *exec) decide(c *Term) bool {
	if c.IsConst() {
		return c.U == 1
	}
	if ex.local != nil {
		return ex.local.decide(c)
	}
	ex.bumpDecisions()
	if ex.replaying() {
		d := ex.nextDec('b')
		if d.V == 1 {
			ex.assertTerm(c)
			return true
		}
		ex.assertTerm(tNot(c))
		return false
	}
	if v, ok := ex.lookupKnown(c, 0); ok {
		// implied by facts already decided on this path: no query, no fork
		ex.knownHits++
		ex.trace = append(ex.trace, dec{'b', b2u(v)})
		return v
	}
	rt, _ := ex.check(c, nil)
	rf := "sat" // the path condition is satisfiable, so if c is impossible ¬c is possible
	if rt != "unsat" {
		rf, _ = ex.check(tNot(c), nil)
	}
	if rt == "unknown" || rf == "unknown" {
		ex.unknownBranch = true
		ex.inconcl = append(ex.inconcl, "solver unknown on branch feasibility: "+ex.solver.lastErr)
	}
	okT, okF := rt != "unsat", rf != "unsat"
	switch {
	case okT && okF:
		ex.forkAlt(dec{'b', 0})
		ex.trace = append(ex.trace, dec{'b', 1})
		ex.assertTerm(c)
		return true
	case okT:
		ex.trace = append(ex.trace, dec{'b', 1})
		ex.assertTerm(c)
		return true
	case okF:
		ex.trace = append(ex.trace, dec{'b', 0})
		ex.assertTerm(tNot(c))
		return false
	}
	ex.abort("infeasible", "path condition unsatisfiable")
	return false
}

// choose is an unconstrained n-way decision.
func (ex *exec) choose(n int, why string) int {
	if n <= 1 {
		return 0
	}
	if ex.local != nil {
		panic(localBail{"n-way choice inside a summarised function"})
	}
	ex.bumpDecisions()
	if ex.replaying() {
		d := ex.nextDec('c')
		return int(d.V)
	}
	for i := 1; i < n; i++ {
		ex.forkAlt(dec{'c', uint64(i)})
	}
	ex.trace = append(ex.trace, dec{'c', 0})
	return 0
}

// concretize enumerates the feasible values of a bit-vector term, one per path.
func (ex *exec) concretize(t *Term, site string) uint64 {
	if t.IsConst() {
		return t.U
	}
	if ex.local != nil {
		panic(localBail{"concretisation inside a summarised function"})
	}
	for {
		ex.bumpDecisions()
		if ex.replaying() {
			d := ex.nextDec('v')
			if d.K == 'v' {
				ex.assertTerm(tEq(t, tBV(t.S.W, d.V)))
				return d.V
			}
			ex.assertTerm(tNot(tEq(t, tBV(t.S.W, d.V))))
			continue
		}
		ex.concCount[site]++
		if ex.concCount[site] > ex.cfg.MaxConcretize {
			ex.abort("unwind", "more than %d concrete values for a symbolic index/length at %s", ex.cfg.MaxConcretize, site)
		}
		res, model := ex.check(nil, []*Term{t})
		if res == "unsat" {
			ex.abort("infeasible", "no further value")
		}
		if res != "sat" {
			ex.abort("unsupported", "solver %s while concretising at %s: %s", res, site, ex.solver.lastErr)
		}
		v, ok := parseBVValue(model[termKey(t)], t.S.W)
		if !ok {
			ex.abort("unsupported", "cannot parse model value %q", model[termKey(t)])
		}
		ex.forkAlt(dec{'x', v})
		ex.trace = append(ex.trace, dec{'v', v})
		ex.assertTerm(tEq(t, tBV(t.S.W, v)))
		return v
	}
}

// truth converts a (possibly symbolic) boolean value into a Go bool.
func (ex *exec) truth(v value) bool {
	switch v := v.(type) {
	case bool:
		return v
	case symv:
		return ex.decide(v.T)
	}
	panic(fmt.Sprintf("truth: %T", v))
}

// ---------------------------------------------------------------------
// inputs

func (ex *exec) newInput(name, kind string, s Sort) *Term {
	idx := len(ex.inputs)
	t := tVar(fmt.Sprintf("in%d_%s", idx, sanitize(name)), s)
	ex.inputs = append(ex.inputs, &inputRec{Name: name, Kind: kind, term: t})
	return t
}

func sanitize(s string) string {
	var b strings.Builder
	for _, r := range s {
		if r >= 'a' && r <= 'z' || r >= 'A' && r <= 'Z' || r >= '0' && r <= '9' || r == '_' {
			b.WriteRune(r)
		} else {
			b.WriteByte('_')
		}
	}
	return b.String()
}

func (ex *exec) freshVar(prefix string, s Sort) *Term {
	ex.fresh++
	return tVar(fmt.Sprintf("fr%d_%s", ex.fresh, sanitize(prefix)), s)
}

// modelInputs asks the solver for values of all inputs under path ∧ extra.
func (ex *exec) modelInputs(extra *Term) (string, []replayInput) {
	var terms []*Term
	for _, in := range ex.inputs {
		if in.term != nil {
			terms = append(terms, in.term)
		}
	}
	res, model := ex.check(extra, terms)
	if res != "sat" {
		return res, nil
	}
	var out []replayInput
	for _, in := range ex.inputs {
		ri := replayInput{Name: in.Name, Kind: in.Kind}
		if in.term == nil {
			ri.Value = fmt.Sprint(in.conc)
		} else {
			raw := model[termKey(in.term)]
			switch in.term.S.K {
			case 'V':

				v, _ := parseBVValue(raw, in.term.S.W)
				switch in.Kind {
				case "i32":
					ri.Value = fmt.Sprint(int32(v))
				case "i64", "int":
					ri.Value = fmt.Sprint(int64(v))
				default:
					ri.Value = fmt.Sprint(v)
				}
			case 'B':
				ri.Value = raw
			case 'I':
				bi, ok := new(big.Int).SetString(strings.TrimSpace(raw), 10)
				if !ok {
					bi = new(big.Int)
				}
				if in.Kind == "uid" {
					// identifier: integer -> 32 hex digits
					ri.Value = fmt.Sprintf("%032x", bi)
				} else {
					ri.Value = bi.String()
				}
			case 'S':
				ri.Value = unquoteSMT(raw)
			default:
				ri.Value = raw
			}
		}
		out = append(out, ri)
	}
	return res, out
}

func unquoteSMT(s string) string {
	s = strings.TrimSpace(s)
	if len(s) >= 2 && s[0] == '"' && s[len(s)-1] == '"' {
		s = s[1 : len(s)-1]
		s = strings.ReplaceAll(s, `""`, `"`)
		// \u{XX} escapes
		var b strings.Builder
		for i := 0; i < len(s); i++ {
			if strings.HasPrefix(s[i:], `\u{`) {
				j := strings.IndexByte(s[i:], '}')
				if j > 0 {
					var v int
					fmt.Sscanf(s[i+3:i+j], "%x", &v)
					b.WriteByte(byte(v))
					i += j
					continue
				}
			}
			if strings.HasPrefix(s[i:], `\x`) && i+3 < len(s) {
				var v int
				fmt.Sscanf(s[i+2:i+4], "%x", &v)
				b.WriteByte(byte(v))
				i += 3
				continue
			}
			b.WriteByte(s[i])
		}
		return b.String()
	}
	return s
}

func (ex *exec) siteList() []string {
	m := map[string]bool{}
	for _, s := range ex.sites {
		m[s] = true
	}
	var out []string
	for s := range m {
		out = append(out, s)
	}
	sort.Strings(out)
	return out
}

func (ex *exec) recordViolation(kind, label, msg string, extra *Term) {
	res, ins := ex.modelInputs(extra)
	if res != "sat" {
		// no model: the path may be infeasible (an earlier query was unknown); never a finding
		ex.abort("unsupported", "candidate violation %q (%s) without a model (solver: %s)", label, firstLine(msg), res)
	}
	tags := map[string]string{}
	for k, v := range ex.tags {
		tags[k] = v
	}
	ex.violation = &violation{Label: label, Kind: kind, Msg: msg, Inputs: ins, Decs: decsString(ex.trace), Tags: tags, Harness: ex.cfg.Harness}
	panic(abort{"violation", label + ": " + msg})
}

// ---------------------------------------------------------------------
// equality producing a concrete bool or a symbolic Bool

func boolTerm(v value) *Term {
	switch v := v.(type) {
	case bool:
		return tBool(v)
	case symv:
		return v.T
	}
	panic(fmt.Sprintf("boolTerm: %T", v))
}

func fromBoolTerm(t *Term) value {
	if t.IsConst() {
		return t.U == 1
	}
	return symv{t}
}

func (ex *exec) eqv(t types.Type, x, y value) value {
	_, sx := x.(symv)
	_, sy := y.(symv)
	if sx || sy {
		s := sortOfType(t)
		if s.K == 'S' {
			if a, b, isUID, ok := ex.uidPair(x, y); isUID {
				if !ok {
					return false
				}
				return fromBoolTerm(tEq(a, b))
			}
		}
		return fromBoolTerm(tEq(lift(x, s), lift(y, s)))
	}
	switch x := x.(type) {
	case structure:
		y := y.(structure)
		tStruct := t.Underlying().(*types.Struct)
		acc := tTrue
		for i, n := 0, tStruct.NumFields(); i < n; i++ {
			if f := tStruct.Field(i); !f.Anonymous() || true {
				acc = tAnd(acc, boolTerm(ex.eqv(f.Type(), x[i], y[i])))
				if acc.IsConst() && acc.U == 0 {
					return false
				}
			}
		}
		return fromBoolTerm(acc)
	case array:
		y := y.(array)
		tElt := t.Underlying().(*types.Array).Elem()
		acc := tTrue
		for i := range x {
			acc = tAnd(acc, boolTerm(ex.eqv(tElt, x[i], y[i])))
		}
		return fromBoolTerm(acc)
	case iface:
		y := y.(iface)
		if !sameType(x.t, y.t) {
			return false
		}
		if x.t == nil {
			return true
		}
		if !types.Comparable(x.t) {
			panic(targetPanic{ex.prog.runtimeError("comparing uncomparable type " + x.t.String())})
		}
		return ex.eqv(x.t, x.v, y.v)
	}
	return equals(t, x, y)
}

// hashModel is Timestamp.Hash under the injectivity abstraction: an
// uninterpreted, injective function of (era, lamport, delimiter, cuid).
func (ex *exec) hashModel(args []value) value {
	p := args[0].(*value)
	if p == nil {
		ex.rtPanic("invalid memory address or nil pointer dereference")
	}
	st := (*p).(structure)
	// model.Timestamp fields: state, sizeCache, unknownFields, Era, Lamport, CUID, Delimiter
	n := len(st)
	era, lam, cuid, del := st[n-4], st[n-3], st[n-2], st[n-1]
	var ct *Term
	switch c := cuid.(type) {
	case string:
		if len(c) != 16 {
			ex.unsupported("Hash abstraction: client id %q is not 16 bytes", c)
		}
		ct = tUIDConst(c)
	case symv:
		if c.T.S != sUID {
			ex.unsupported("Hash abstraction: client id must be a vf.UID")
		}
		ct = c.T
	}
	return symv{tApp("vfhash", sString, lift(era, sBV(32)), lift(lam, sBV(64)), lift(del, sBV(32)), ct)}
}

func b2u(b bool) uint64 {
	if b {
		return 1
	}
	return 0
}

// ubound returns an unsigned upper bound of a bit-vector term that follows
// from the assumptions made so far (ok=false: nothing better than the width).
func (ex *exec) ubound(t *Term, depth int) (uint64, bool) {
	if t.IsConst() {
		return t.U, true
	}
	if depth > 8 {
		return 0, false
	}
	switch t.Op {
	case "var":
		u, ok := ex.ubounds[t]
		return u, ok
	case "bvadd":
		a, oka := ex.ubound(t.Args[0], depth+1)
		b, okb := ex.ubound(t.Args[1], depth+1)
		if oka && okb && a+b >= a && (t.S.W == 64 || a+b <= mask(t.S.W)) {
			return a + b, true
		}
	case "ite":
		a, oka := ex.ubound(t.Args[1], depth+1)
		b, okb := ex.ubound(t.Args[2], depth+1)
		if oka && okb {
			if a > b {
				return a, true
			}
			return b, true
		}
	}
	return 0, false
}

// wrapCompare rewrites sign tests of a wrap-around difference,
// int(a-b) > 0 / < 0 / ..., into a plain unsigned comparison when both
// operands are known to be below 2^(w-2), where no wrap can occur.  The
// rewrite is exact under the path condition the bounds come from.
func (ex *exec) wrapCompare(op string, a, b *Term) *Term {
	if !(b.IsConst() && b.U == 0 && a.Op == "bvsub") {
		return nil
	}
	x, y := a.Args[0], a.Args[1]
	lim := uint64(1) << uint(a.S.W-2)
	ux, okx := ex.ubound(x, 0)
	uy, oky := ex.ubound(y, 0)
	if !okx || !oky || ux >= lim || uy >= lim {
		return nil
	}
	switch op {
	case "bvsgt":
		return tBVCmp("bvugt", x, y)
	case "bvsge":
		return tBVCmp("bvuge", x, y)
	case "bvslt":
		return tBVCmp("bvult", x, y)
	case "bvsle":
		return tBVCmp("bvule", x, y)
	}
	return nil
}

// check decides path ∧ extra with the worker's primary solver and, if that
// answers unknown, with the fallback solver (a different implementation: the
// string/integer queries z3 gives up on are usually easy for cvc5 and vice
// versa).  The fallback gets the whole path condition in a fresh context.
func (ex *exec) check(extra *Term, want []*Term) (string, map[string]string) {
	res, model := ex.solver.Check(extra, want)
	if res != "unknown" || ex.fallback == nil {
		return res, model
	}
	fb := ex.fallback()
	if fb == nil {
		return res, model
	}
	fb.Reset()
	for _, t := range ex.pathCond {
		fb.Assert(t)
	}
	r2, m2 := fb.Check(extra, want)
	if r2 != "unknown" {
		ex.fallbackHits++
		return r2, m2
	}
	return res, model
}
