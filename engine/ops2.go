package main

// Symbolic counterparts of the interpreter's scalar operations, explicit
// run-time panics (bounds, nil, type assertion, division) and the builtins.

import (
	"bytes"
	"fmt"
	"go/token"
	"go/types"
	"math"
	"os"

	"golang.org/x/tools/go/ssa"
)

func mustDeref(t types.Type) types.Type {
	if p, ok := t.Underlying().(*types.Pointer); ok {
		return p.Elem()
	}
	panic("mustDeref: " + t.String())
}

// intInfo returns width and signedness of an integer basic type.
func intInfo(t types.Type) (w int, signed bool, ok bool) {
	b, isB := t.Underlying().(*types.Basic)
	if !isB {
		return 0, false, false
	}
	switch b.Kind() {
	case types.Int, types.Int64, types.UntypedInt:
		return 64, true, true
	case types.Int8:
		return 8, true, true
	case types.Int16:
		return 16, true, true
	case types.Int32, types.UntypedRune:
		return 32, true, true
	case types.Uint, types.Uint64, types.Uintptr:
		return 64, false, true
	case types.Uint8:
		return 8, false, true
	case types.Uint16:
		return 16, false, true
	case types.Uint32:
		return 32, false, true
	}
	return 0, false, false
}

func sortOfType(t types.Type) Sort {
	if w, _, ok := intInfo(t); ok {
		return sBV(w)
	}
	if b, ok := t.Underlying().(*types.Basic); ok {
		switch b.Kind() {
		case types.Bool, types.UntypedBool:
			return sBool
		case types.String, types.UntypedString:
			return sString
		case types.Float64, types.UntypedFloat, types.Float32:
			return sF64
		}
	}
	panic("sortOfType: " + t.String())
}

// lift turns a concrete scalar (or symv) into a term of sort s.
func lift(v value, s Sort) *Term {
	switch x := v.(type) {
	case symv:
		return x.T
	case bool:
		return tBool(x)
	case string:
		return tStr(x)
	case float64:
		return tF64(x)
	case float32:
		return tF64(float64(x))
	case int:
		return tBV(s.W, uint64(x))
	case int8:
		return tBV(s.W, uint64(x))
	case int16:
		return tBV(s.W, uint64(x))
	case int32:
		return tBV(s.W, uint64(x))
	case int64:
		return tBV(s.W, uint64(x))
	case uint:
		return tBV(s.W, uint64(x))
	case uint8:
		return tBV(s.W, uint64(x))
	case uint16:
		return tBV(s.W, uint64(x))
	case uint32:
		return tBV(s.W, uint64(x))
	case uint64:
		return tBV(s.W, uint64(x))
	case uintptr:
		return tBV(s.W, uint64(x))
	}
	panic(fmt.Sprintf("lift: %T", v))
}

// fromTerm converts a term back to a value of static type t, concrete if the
// term is a constant.
func fromTerm(t types.Type, tm *Term) value {
	if !tm.IsConst() {
		return symv{tm}
	}
	b := t.Underlying().(*types.Basic)
	switch b.Kind() {
	case types.Bool, types.UntypedBool:
		return tm.U == 1
	case types.String, types.UntypedString:
		return tm.Str
	case types.Float64, types.UntypedFloat:
		return tm.F
	case types.Float32:
		return float32(tm.F)
	case types.Int, types.UntypedInt:
		return int(tm.sval())
	case types.Int8:
		return int8(tm.sval())
	case types.Int16:
		return int16(tm.sval())
	case types.Int32, types.UntypedRune:
		return int32(tm.sval())
	case types.Int64:
		return int64(tm.sval())
	case types.Uint:
		return uint(tm.U)
	case types.Uint8:
		return uint8(tm.U)
	case types.Uint16:
		return uint16(tm.U)
	case types.Uint32:
		return uint32(tm.U)
	case types.Uint64:
		return uint64(tm.U)
	case types.Uintptr:
		return uintptr(tm.U)
	}
	panic("fromTerm: " + t.String())
}

func isSym(v value) bool { _, ok := v.(symv); return ok }

func isUIDSym(v value) bool {
	s, ok := v.(symv)
	return ok && s.T.S == sUID
}

// uidPair lifts two string operands when at least one is a symbolic 16-byte
// identifier.  ok is false when the other side cannot be a 16-byte string.
func (ex *exec) uidPair(x, y value) (a, b *Term, isUID bool, ok bool) {
	if !isUIDSym(x) && !isUIDSym(y) {
		return nil, nil, false, false
	}
	conv := func(v value) (*Term, bool) {
		switch s := v.(type) {
		case symv:
			if s.T.S == sUID {
				return s.T, true
			}
			ex.unsupported("comparing a symbolic identifier with a general symbolic string")
		case string:
			if len(s) == 16 {
				return tUIDConst(s), true
			}
			return nil, false
		}
		panic("uidPair")
	}
	a, ok1 := conv(x)
	b, ok2 := conv(y)
	return a, b, true, ok1 && ok2
}

func (ex *exec) rtPanic(msg string) {
	panic(targetPanic{ex.prog.runtimeError(msg)})
}

func (ex *exec) binop(op token.Token, t types.Type, x, y value) value {
	if !isSym(x) && !isSym(y) {
		if op == token.QUO || op == token.REM {
			if _, _, isInt := intInfo(t); isInt && asInt64(y) == 0 {
				ex.rtPanic("integer divide by zero")
			}
		}
		if op == token.EQL {
			return ex.eqnilv(t, x, y)
		}
		if op == token.NEQ {
			return ex.notv(ex.eqnilv(t, x, y))
		}
		return binopConcrete(op, t, x, y)
	}
	if op == token.SHL || op == token.SHR {
		w, signed, _ := intInfo(t)
		xs := lift(x, sBV(w))
		var ys *Term
		if sy, ok := y.(symv); ok {
			ys = tResize(sy.T, w, false)
		} else {
			u, _ := asUnsigned(y)
			ys = tBV(w, asUint64(u))
		}
		if op == token.SHL {
			return fromTerm(t, tBVBin("bvshl", xs, ys))
		}
		if signed {
			return fromTerm(t, tBVBin("bvashr", xs, ys))
		}
		return fromTerm(t, tBVBin("bvlshr", xs, ys))
	}
	s := sortOfType(t)
	if s.K == 'S' {
		if a, b, isUID, ok := ex.uidPair(x, y); isUID {
			if !ok {
				// a 16-byte identifier never equals a string of another length
				switch op {
				case token.EQL:
					return false
				case token.NEQ:
					return true
				}
				if op == token.ADD {
					return symv{ex.freshVar("uidconcat", sString)}
				}
				ex.unsupported("ordering a symbolic identifier against a string that is not 16 bytes long")
			}
			switch op {
			case token.EQL:
				return fromBoolTerm(tEq(a, b))
			case token.NEQ:
				return fromBoolTerm(tNot(tEq(a, b)))
			case token.LSS:
				return fromBoolTerm(tIntLt(a, b))
			case token.GTR:
				return fromBoolTerm(tIntLt(b, a))
			case token.LEQ:
				return fromBoolTerm(tNot(tIntLt(b, a)))
			case token.GEQ:
				return fromBoolTerm(tNot(tIntLt(a, b)))
			case token.ADD:
				return symv{ex.freshVar("uidconcat", sString)}
			}
		}
	}
	a, b := lift(x, s), lift(y, s)
	switch s.K {
	case 'B':
		switch op {
		case token.EQL:
			return fromBoolTerm(tEq(a, b))
		case token.NEQ:
			return fromBoolTerm(tNot(tEq(a, b)))
		}
	case 'S':
		switch op {
		case token.ADD:
			return fromTerm(t, tStrConcat(a, b))
		case token.EQL:
			return fromBoolTerm(tEq(a, b))
		case token.NEQ:
			return fromBoolTerm(tNot(tEq(a, b)))
		case token.LSS:
			return fromBoolTerm(tStrLt(a, b))
		case token.GTR:
			return fromBoolTerm(tStrLt(b, a))
		case token.LEQ:
			return fromBoolTerm(tNot(tStrLt(b, a)))
		case token.GEQ:
			return fromBoolTerm(tNot(tStrLt(a, b)))
		}
	case 'F':
		switch op {
		case token.ADD:
			return symv{mk("fp.add", sF64, a, b)}
		case token.SUB:
			return symv{mk("fp.sub", sF64, a, b)}
		case token.MUL:
			return symv{mk("fp.mul", sF64, a, b)}
		case token.QUO:
			return symv{mk("fp.div", sF64, a, b)}
		case token.EQL:
			return fromBoolTerm(tEq(a, b))
		case token.NEQ:
			return fromBoolTerm(tNot(tEq(a, b)))
		case token.LSS:
			return fromBoolTerm(mk("fp.lt", sBool, a, b))
		case token.LEQ:
			return fromBoolTerm(mk("fp.leq", sBool, a, b))
		case token.GTR:
			return fromBoolTerm(mk("fp.gt", sBool, a, b))
		case token.GEQ:
			return fromBoolTerm(mk("fp.geq", sBool, a, b))
		}
	case 'V':
		_, signed, _ := intInfo(t)
		switch op {
		case token.ADD:
			return fromTerm(t, tBVBin("bvadd", a, b))
		case token.SUB:
			return fromTerm(t, tBVBin("bvsub", a, b))
		case token.MUL:
			return fromTerm(t, tBVBin("bvmul", a, b))
		case token.QUO, token.REM:
			if ex.decide(tEq(b, tBV(s.W, 0))) {
				ex.rtPanic("integer divide by zero")
			}
			o := "bvudiv"
			if op == token.REM {
				o = "bvurem"
			}
			if signed {
				o = "bvsdiv"
				if op == token.REM {
					o = "bvsrem"
				}
			}
			return fromTerm(t, tBVBin(o, a, b))
		case token.AND:
			return fromTerm(t, tBVBin("bvand", a, b))
		case token.OR:
			return fromTerm(t, tBVBin("bvor", a, b))
		case token.XOR:
			return fromTerm(t, tBVBin("bvxor", a, b))
		case token.AND_NOT:
			return fromTerm(t, tBVBin("bvand", a, tBVNot(b)))
		case token.EQL:
			return fromBoolTerm(tEq(a, b))
		case token.NEQ:
			return fromBoolTerm(tNot(tEq(a, b)))
		case token.LSS, token.LEQ, token.GTR, token.GEQ:
			o := map[token.Token]string{token.LSS: "lt", token.LEQ: "le", token.GTR: "gt", token.GEQ: "ge"}[op]
			if signed {
				o = "bvs" + o
				if r := ex.wrapCompare(o, a, b); r != nil {
					return fromBoolTerm(r)
				}
			} else {
				o = "bvu" + o
			}
			return fromBoolTerm(tBVCmp(o, a, b))
		}
	}
	panic(fmt.Sprintf("symbolic binop %s on %s unsupported", op, t))
}

func (ex *exec) notv(v value) value {
	switch v := v.(type) {
	case bool:
		return !v
	case symv:
		return fromBoolTerm(tNot(v.T))
	}
	panic("notv")
}

// eqnilv is eqnil returning a possibly symbolic bool.
func (ex *exec) eqnilv(t types.Type, x, y value) value {
	switch t.Underlying().(type) {
	case *types.Map, *types.Signature, *types.Slice:
		return eqnil(t, x, y)
	}
	return ex.eqv(t, x, y)
}

func (ex *exec) unop(fr *frame, instr *ssa.UnOp, x value) value {
	switch instr.Op {
	case token.ARROW:
		ch := x.(*gchan)
		v, ok := ex.chanRecv(ch)
		if !ok {
			v = zero(instr.X.Type().Underlying().(*types.Chan).Elem())
		}
		if instr.CommaOk {
			return tuple{v, ok}
		}
		return v
	case token.MUL:
		p := x.(*value)
		if p == nil {
			ex.rtPanic("invalid memory address or nil pointer dereference")
		}
		return load(mustDeref(instr.X.Type()), p)
	}
	if sx, ok := x.(symv); ok {
		switch instr.Op {
		case token.NOT:
			return fromBoolTerm(tNot(sx.T))
		case token.SUB:
			if sx.T.S.K == 'F' {
				return symv{mk("fp.neg", sF64, sx.T)}
			}
			return fromTerm(instr.Type(), tBVNeg(sx.T))
		case token.XOR:
			return fromTerm(instr.Type(), tBVNot(sx.T))
		}
		panic("symbolic unop " + instr.Op.String())
	}
	return unopConcrete(instr, x)
}

func (ex *exec) conv(t_dst, t_src types.Type, x value) value {
	sx, ok := x.(symv)
	if !ok {
		// []byte(blob) -> string and back
		if sl, isSl := x.([]value); isSl && isTextBlob(sl) {
			if b, okb := t_dst.Underlying().(*types.Basic); okb && b.Kind() == types.String {
				return fromTerm(t_dst, sl[0].(*jsonBlob).rawStr)
			}
		}
		if sl, isSl := x.([]value); isSl && len(sl) == 1 {
			if jb, isJB := sl[0].(*jsonBlob); isJB {
				if b, okb := t_dst.Underlying().(*types.Basic); okb && b.Kind() == types.String {
					if txt, okc := jb.concreteText(); okc {
						return txt
					}
					// opaque text that remembers which JSON value it is the text of
					t := ex.freshVar("jsontext", sString)
					ex.blobOf[t] = jb
					return symv{t}
				}
			}
		}
		return convConcrete(t_dst, t_src, x)
	}
	ut_dst := t_dst.Underlying()
	ws, ssigned, srcInt := intInfo(t_src)
	wd, dsigned, dstInt := intInfo(t_dst)
	_ = ws
	_ = dsigned
	switch {
	case srcInt && dstInt:
		return fromTerm(t_dst, tResize(sx.T, wd, ssigned))
	case srcInt:
		if b, okb := ut_dst.(*types.Basic); okb && (b.Kind() == types.Float64 || b.Kind() == types.Float32) {
			if ssigned {
				return symv{mk("to_fp_s", sF64, sx.T)}
			}
			return symv{mk("to_fp_u", sF64, sx.T)}
		}
	case dstInt:
		if sx.T.S.K == 'F' {
			if dsigned {
				return symv{mk("fp_to_sbv", sBV(wd), sx.T)}
			}
			return symv{mk("fp_to_ubv", sBV(wd), sx.T)}
		}
	}
	if b, okb := ut_dst.(*types.Basic); okb {
		if b.Kind() == types.String && sx.T.S.K == 'S' {
			return x
		}
		if (b.Kind() == types.Float64 || b.Kind() == types.Float32) && sx.T.S.K == 'F' {
			return x
		}
	}
	if sl, okb := ut_dst.(*types.Slice); okb && sx.T.S.K == 'S' {
		if bb, ok2 := sl.Elem().Underlying().(*types.Basic); ok2 && bb.Kind() == types.Byte {
			if jb, known := ex.blobOf[sx.T]; known {
				return []value{jb}
			}
			// []byte(symbolic string): opaque byte blob carrying the string
			return []value{&jsonBlob{rawStr: sx.T}}
		}
	}
	ex.unsupported("symbolic conversion %s -> %s", t_src, t_dst)
	return nil
}

// asIntC returns x as a concrete int64, concretising (forking) if symbolic.
func (ex *exec) asIntC(x value, site string) int64 {
	if sx, ok := x.(symv); ok {
		v := ex.concretize(sx.T, site)
		// sign interpretation: callers use this for int-typed values (64 bit)
		if sx.T.S.W < 64 {
			return tBV(sx.T.S.W, v).sval()
		}
		return int64(v)
	}
	return asInt64(x)
}

// indexCheck decides 0 <= idx < n and returns the concrete index.
func (ex *exec) indexCheck(idx value, n int, site string) int {
	if sx, ok := idx.(symv); ok {
		w := sx.T.S.W
		inb := tBVCmp("bvult", sx.T, tBV(w, uint64(n)))
		if !ex.decide(inb) {
			ex.rtPanic(fmt.Sprintf("index out of range [sym] with length %d", n))
		}
		return int(ex.concretize(sx.T, site))
	}
	i := asInt64(idx)
	if i < 0 || i >= int64(n) {
		ex.rtPanic(fmt.Sprintf("index out of range [%d] with length %d", i, n))
	}
	return int(i)
}

func (ex *exec) slice(fr *frame, instr *ssa.Slice, x, lo, hi, max value) value {
	var Len, Cap int
	switch x := x.(type) {
	case string:
		Len = len(x)
		Cap = Len
	case []value:
		Len = len(x)
		Cap = cap(x)
	case *value: // *array
		if x == nil {
			ex.rtPanic("invalid memory address or nil pointer dereference")
		}
		a := (*x).(array)
		Len = len(a)
		Cap = cap(a)
	case symv:
		ex.unsupported("slicing a symbolic string")
	}
	site := ex.prog.pos(instr.Pos())
	// bounds decisions for symbolic bounds: 0 <= lo <= hi <= max <= cap
	bound := func(v value, def int64) (int64, *Term) {
		if v == nil {
			return def, nil
		}
		if sv, ok := v.(symv); ok {
			return 0, sv.T
		}
		return asInt64(v), nil
	}
	l, lt := bound(lo, 0)
	h, ht := bound(hi, int64(Len))
	m, mt := bound(max, int64(Cap))
	if lt != nil || ht != nil || mt != nil {
		tm := func(c int64, t *Term) *Term {
			if t != nil {
				return tResize(t, 64, true)
			}
			return tBV(64, uint64(c))
		}
		L, H, M := tm(l, lt), tm(h, ht), tm(m, mt)
		okc := tAnd(tAnd(tBVCmp("bvsle", tBV(64, 0), L), tBVCmp("bvsle", L, H)),
			tAnd(tBVCmp("bvsle", H, M), tBVCmp("bvsle", M, tBV(64, uint64(Cap)))))
		if !ex.decide(okc) {
			ex.rtPanic("slice bounds out of range [symbolic]")
		}
		if lt != nil {
			l = int64(ex.concretize(L, site+"/lo"))
		}
		if ht != nil {
			h = int64(ex.concretize(H, site+"/hi"))
		}
		if mt != nil {
			m = int64(ex.concretize(M, site+"/max"))
		}
	}
	if _, isStr := x.(string); isStr {
		if l < 0 || h < l || h > int64(Len) {
			ex.rtPanic(fmt.Sprintf("slice bounds out of range [%d:%d] with length %d", l, h, Len))
		}
	} else if l < 0 || h < l || m < h || m > int64(Cap) {
		ex.rtPanic(fmt.Sprintf("slice bounds out of range [%d:%d:%d] with capacity %d", l, h, m, Cap))
	}
	switch x := x.(type) {
	case string:
		return x[l:h]
	case []value:
		if x == nil && l == 0 && h == 0 {
			return []value(nil)
		}
		return x[l:h:m]
	case *value: // *array
		a := (*x).(array)
		return []value(a)[l:h:m]
	}
	panic(fmt.Sprintf("slice: unexpected X type: %T", x))
}

func (ex *exec) lookup(instr *ssa.Lookup, x, idx value) value {
	switch x := x.(type) {
	case *gmap:
		var v value
		e := x.find(ex, idx)
		ok := e != nil
		if ok {
			v = e.v
		} else {
			v = zero(instr.X.Type().Underlying().(*types.Map).Elem())
		}
		if instr.CommaOk {
			return tuple{v, ok}
		}
		return v
	case string:
		i := ex.indexCheck(idx, len(x), ex.prog.pos(instr.Pos()))
		return x[i]
	}
	panic(fmt.Sprintf("unexpected x type in Lookup: %T", x))
}

func (ex *exec) typeAssert(instr *ssa.TypeAssert, itf iface) value {
	var v value
	err := ""
	if itf.t == nil {
		err = fmt.Sprintf("interface conversion: interface is nil, not %s", instr.AssertedType)
	} else if idst, ok := instr.AssertedType.Underlying().(*types.Interface); ok {
		v = itf
		err = checkInterface(idst, itf)
	} else if types.Identical(itf.t, instr.AssertedType) {
		v = itf.v // extract value
	} else {
		err = fmt.Sprintf("interface conversion: interface is %s, not %s", itf.t, instr.AssertedType)
	}
	if err != "" {
		if !instr.CommaOk {
			ex.rtPanic(err)
		}
		return tuple{zero(instr.AssertedType), false}
	}
	if instr.CommaOk {
		return tuple{v, true}
	}
	return v
}

func (ex *exec) callBuiltin(caller *frame, callpos token.Pos, fn *ssa.Builtin, args []value) value {
	switch fn.Name() {
	case "append":
		if len(args) == 1 {
			return args[0]
		}
		if s, ok := args[1].(string); ok {
			arg0 := args[0].([]value)
			if isTextBlob(arg0) {
				return textBlob(ex.strConcat(bytesAsText(ex, arg0), s))
			}
			for i := 0; i < len(s); i++ {
				arg0 = append(arg0, s[i])
			}
			return arg0
		}
		if sv, ok := args[1].(symv); ok {
			return textBlob(ex.strConcat(bytesAsText(ex, args[0].([]value)), sv))
		}
		a0 := args[0].([]value)
		a1 := args[1].([]value)
		if len(a1) == 0 {
			return a0
		}
		if isTextBlob(a0) || isTextBlob(a1) {
			// []byte text under construction with symbolic parts: concatenate as strings
			return textBlob(ex.strConcat(bytesAsText(ex, a0), bytesAsText(ex, a1)))
		}
		return append(a0, a1...)

	case "copy":
		src := args[1]
		if _, ok := src.(string); ok {
			params := fn.Type().(*types.Signature).Params()
			src = convConcrete(params.At(0).Type(), params.At(1).Type(), src)
		}
		return copy(args[0].([]value), src.([]value))

	case "close":
		ex.chanClose(args[0].(*gchan))
		return nil

	case "delete":
		args[0].(*gmap).delete(ex, args[1])
		return nil

	case "print", "println":
		ln := fn.Name() == "println"
		var buf bytes.Buffer
		for i, arg := range args {
			if i > 0 && ln {
				buf.WriteRune(' ')
			}
			buf.WriteString(toString(arg))
		}
		if ln {
			buf.WriteRune('\n')
		}
		if ex.cfg.Verbose {
			os.Stderr.Write(buf.Bytes())
		}
		return nil

	case "len":
		switch x := args[0].(type) {
		case string:
			return len(x)
		case array:
			return len(x)
		case *value:
			return len((*x).(array))
		case []value:
			if len(x) == 1 {
				if jb, ok := x[0].(*jsonBlob); ok {
					if txt, okc := jb.concreteText(); okc {
						return len(txt)
					}
					return symv{tNat(tStrLen(ex.freshVar("bloblen", sString)), 64)}
				}
			}
			return len(x)
		case *gmap:
			return x.len()
		case *gchan:
			if x == nil {
				return 0
			}
			return len(x.buf)
		case symv:
			if x.T.S == sUID {
				return 16
			}
			return symv{tNat(tStrLen(x.T), 64)}
		default:
			panic(fmt.Sprintf("len: illegal operand: %T", x))
		}

	case "cap":
		switch x := args[0].(type) {
		case array:
			return cap(x)
		case *value:
			return cap((*x).(array))
		case []value:
			return cap(x)
		case *gchan:
			if x == nil {
				return 0
			}
			return x.cap
		default:
			panic(fmt.Sprintf("cap: illegal operand: %T", x))
		}

	case "min":
		return foldLeft(min, args)
	case "max":
		return foldLeft(max, args)

	case "panic":
		panic(targetPanic{args[0]})

	case "recover":
		return doRecover(caller)

	case "ssa:wrapnilchk":
		recv := args[0]
		if recv.(*value) == nil {
			recvType := args[1]
			methodName := args[2]
			ex.rtPanic(fmt.Sprintf("value method (%s).%s called using nil *%s pointer",
				recvType, methodName, recvType))
		}
		return recv

	case "ssa:deferstack":
		return &caller.defers
	}
	panic("unknown built-in: " + fn.Name())
}

func (ex *exec) rangeIter(fr *frame, x value, t types.Type) iter {
	switch x := x.(type) {
	case *gmap:
		it := &mapIter{ex: ex, rest: x.liveEntries()}
		if ex.mapPermute != nil && len(it.rest) <= ex.cfg.MaxPermute {
			if ex.mapPermute[fr.fn.String()] || ex.mapPermute["*"] {
				it.permute = true
			}
		}
		return it
	case string:
		return newStringIter(x)
	}
	panic(fmt.Sprintf("cannot range over %T", x))
}

var _ = math.MaxInt64

// A "text blob" is a []byte whose content is a (possibly symbolic) string term:
// the result of []byte(symbolic string) or of appending formatted numbers.
func isTextBlob(b []value) bool {
	if len(b) == 1 {
		if jb, ok := b[0].(*jsonBlob); ok && jb.tree == nil && jb.rawStr != nil {
			return true
		}
	}
	return false
}

func textBlob(s value) []value { return []value{&jsonBlob{rawStr: lift(s, sString)}} }

// bytesAsText returns the content of a byte slice as a string value.
func bytesAsText(ex *exec, b []value) value {
	if isTextBlob(b) {
		return fromTerm(types.Typ[types.String], b[0].(*jsonBlob).rawStr)
	}
	bs := make([]byte, len(b))
	for i, v := range b {
		c, ok := v.(byte)
		if !ok {
			ex.unsupported("byte slice with a non-byte element used as text")
		}
		bs[i] = c
	}
	return string(bs)
}
