package main

import (
	"flag"
	"fmt"
	"os"
	"path/filepath"
	"runtime"
	"sort"
	"strings"
	"time"

	"golang.org/x/tools/go/ssa"
)

// repoRoot is the tree under check: /repo, or $VERIF_REPO for trials of seeded
// changes in a scratch worktree (never used by the registered commands).
var repoRoot = func() string {
	if v := os.Getenv("VERIF_REPO"); v != "" {
		return v
	}
	return "/repo"
}()

// outRoot is where replays and evidence are written: the verif root, or
// $VERIF_OUT for scratch trials.
func outRoot(root string) string {
	if v := os.Getenv("VERIF_OUT"); v != "" {
		return v
	}
	return root
}

var smtLogPath string
var startPrefix []dec

func parseDecs(s string) []dec {
	var out []dec
	for _, p := range strings.Split(s, ".") {
		if len(p) < 2 {
			continue
		}
		var v uint64
		fmt.Sscanf(p[1:], "%d", &v)
		out = append(out, dec{p[0], v})
	}
	return out
}

func verifRoot() string {
	if v := os.Getenv("VERIF_ROOT"); v != "" {
		return v
	}
	exe, err := os.Executable()
	if err == nil {
		d := filepath.Dir(filepath.Dir(exe)) // <root>/bin/gosym
		if _, err := os.Stat(filepath.Join(d, "harness")); err == nil {
			return d
		}
	}
	return "/verif"
}

func defaultConfig() *runConfig {
	return &runConfig{
		Workers:       runtime.NumCPU(),
		MaxDecisions:  600,
		MaxConcretize: 24,
		MaxSteps:      3000000,
		MaxPermute:    3,
		MaxPaths:      400000,
		SolverKind:    "z3-new",
		FallbackKind:  "cvc5",
		SolverTimeout: 10000,
	}
}

func main() {
	if len(os.Args) < 2 {
		fmt.Fprintln(os.Stderr, "usage: gosym run|check|selftest ...")
		os.Exit(2)
	}
	switch os.Args[1] {
	case "run":
		os.Exit(cmdRun(os.Args[2:]))
	case "check":
		os.Exit(cmdCheck(os.Args[2:]))
	case "replay":
		os.Exit(cmdReplay(os.Args[2:]))
	case "validate":
		os.Exit(cmdValidate(os.Args[2:]))
	default:
		fmt.Fprintln(os.Stderr, "unknown command", os.Args[1])
		os.Exit(2)
	}
}

// cmdRun explores one harness and prints a summary (development aid).
func cmdRun(args []string) int {
	fs := flag.NewFlagSet("run", flag.ExitOnError)
	cfg := defaultConfig()
	module := fs.String("module", "client", "module directory under /repo")
	pkg := fs.String("pkg", "github.com/orda-io/orda/client/pkg/orda", "package path")
	harness := fs.String("harness", "", "harness function name")
	fs.IntVar(&cfg.Workers, "workers", cfg.Workers, "")
	fs.IntVar(&cfg.Tier, "tier", 0, "0 quick 1 thorough")
	fs.BoolVar(&cfg.Verbose, "v", false, "")
	fs.BoolVar(&cfg.Trace, "trace", false, "")
	fs.BoolVar(&cfg.Interleave, "interleave", false, "")
	fs.IntVar(&cfg.MaxPaths, "maxpaths", cfg.MaxPaths, "")
	fs.IntVar(&cfg.MaxDecisions, "maxdec", cfg.MaxDecisions, "")
	fs.StringVar(&cfg.SolverKind, "solver", cfg.SolverKind, "")
	fs.StringVar(&cfg.FallbackKind, "fallback", cfg.FallbackKind, "")
	fs.IntVar(&cfg.SolverTimeout, "timeout", cfg.SolverTimeout, "")
	smtlog := fs.String("smtlog", "", "")
	prefix := fs.String("prefix", "", "initial decision prefix, e.g. c3.b1.")
	fs.Parse(args)
	smtLogPath = *smtlog
	startPrefix = parseDecs(*prefix)
	t0 := time.Now()
	p, err := loadForModule(*module, []string{*pkg})
	if err != nil {
		fmt.Println("INCONCLUSIVE load:", err)
		return 2
	}
	fmt.Fprintf(os.Stderr, "loaded in %.1fs\n", time.Since(t0).Seconds())
	entry := p.findFunc(*pkg, *harness)
	if entry == nil {
		fmt.Println("INCONCLUSIVE: no function", *harness, "in", *pkg)
		return 2
	}
	cfg.Harness = *harness
	hr := explore(p, cfg, entry)
	printResult(hr)
	if len(hr.Violations) > 0 {
		return 1
	}
	if len(hr.Inconclusive) > 0 {
		return 2
	}
	return 0
}

func printResult(hr *harnessResult) {
	fmt.Printf("harness %s: %d paths in %.1fs, outcomes %v, complete=%v\n", hr.Harness, hr.Paths, hr.Wall.Seconds(), hr.Outcomes, hr.Complete)
	fmt.Printf("  assertions: %d discharged by solver, %d concretely true; queries %d (sat %d unsat %d unknown %d errors %d) solver time %.1fs; max decisions/path %d; steps %d\n",
		hr.AssertsUnsat, hr.AssertsTriv, hr.Queries, hr.SolverSat, hr.SolverUnsat, hr.SolverUnk, hr.SolverErrs, hr.SolverTime.Seconds(), hr.MaxTrace, hr.Steps)
	var rs []string
	for k, v := range hr.Reached {
		rs = append(rs, fmt.Sprintf("%s:%d", k, v))
	}
	sort.Strings(rs)
	fmt.Printf("  reached: %s\n", strings.Join(rs, " "))
	for _, m := range hr.Inconclusive {
		fmt.Println("  INCONCLUSIVE:", m)
	}
	for _, v := range hr.Violations {
		fmt.Printf("  VIOLATION label=%s kind=%s msg=%s tags=%v\n", v.Label, v.Kind, firstLine(v.Msg), v.Tags)
		for _, in := range v.Inputs {
			fmt.Printf("      %s(%s) = %s\n", in.Name, in.Kind, in.Value)
		}
	}
}

func firstLine(s string) string {
	if i := strings.IndexByte(s, '\n'); i >= 0 {
		return s[:i]
	}
	if len(s) > 300 {
		return s[:300]
	}
	return s
}

// loadForModule loads the given packages of /repo/<module> with the overlay
// files found under <verif>/harness/<module>/.
func loadForModule(module string, pkgs []string) (*program, error) {
	root := verifRoot()
	ov, err := buildOverlay(root, module)
	if err != nil {
		return nil, err
	}
	spec := loadSpec{Dir: filepath.Join(repoRoot, moduleDir(module)), Patterns: pkgs, Overlay: ov}
	p, err := loadProgram(spec, repoRoot)
	if err != nil {
		return nil, err
	}
	p.interpSet = []string{
		"github.com/orda-io/orda",
		"github.com/ztrue/tracerr",
		"github.com/wI2L/jsondiff",
		"context",
		"errors",
		// small pure-Go standard packages that code under test may start to use
		"hash/fnv",
		"container/list",
		"container/heap",
		"container/ring",
		// the distributed lock the server uses when redis is configured (over a fake connection pool of the harness)
		"github.com/go-redsync/redsync/v4",
		"github.com/hashicorp/go-multierror",
		"github.com/hashicorp/errwrap",
	}
	if module == "serverreal" {
		// the real server/mongodb code on the driver model (engine/mongo.go): option builders and BSON constructors are executed
		p.interpSet = append(p.interpSet, "go.mongodb.org/mongo-driver/mongo/options")
	}
	p.pure = map[string]bool{
		"(*github.com/orda-io/orda/client/pkg/model.Timestamp).Compare":   true,
		"(*github.com/orda-io/orda/client/pkg/model.OperationID).Compare": true,
	}
	// harness predicates named vfp* are pure scalar functions: summarised too
	for _, pkg := range p.prog.AllPackages() {
		if !p.interpreted(pkg.Pkg.Path()) {
			continue
		}
		for name, mem := range pkg.Members {
			if fn, ok := mem.(*ssa.Function); ok && strings.HasPrefix(name, "vfp") {
				p.pure[fn.String()] = true
			}
		}
	}
	return p, nil
}

// buildOverlay maps <verif>/harness/<module>/<rel> onto /repo/<module>/<rel>.
// Files named *.go.txt are mapped to *.go.  A file "_replace" in a harness
// directory means: every .go file of the corresponding /repo directory that
// the overlay does not provide is replaced by a bare package clause, so that
// the directory consists of the overlay files only.
// moduleDir: the /repo directory a harness module is laid over.  "serverreal" is
// the server module with the real server/mongodb package (no storage stand-in).
func moduleDir(module string) string {
	if module == "serverreal" {
		return "server"
	}
	return module
}

func buildOverlay(root, module string) (map[string]string, error) {
	base := filepath.Join(root, "harness", module)
	ov := map[string]string{}
	// client harness files are visible to the server module too (server depends on client through a replace)
	bases := []struct{ src, dst string }{{base, filepath.Join(repoRoot, moduleDir(module))}}
	if module != "client" {
		bases = append(bases, struct{ src, dst string }{filepath.Join(root, "harness", "client"), filepath.Join(repoRoot, "client")})
	}
	tmp := filepath.Join(os.TempDir(), fmt.Sprintf("gosym-ov-%d", os.Getpid()))
	for _, b := range bases {
		err := filepath.Walk(b.src, func(path string, info os.FileInfo, err error) error {
			if err != nil {
				if os.IsNotExist(err) {
					return nil
				}
				return err
			}
			if info.IsDir() {
				return nil
			}
			rel, _ := filepath.Rel(b.src, path)
			if filepath.Base(path) == "_replace" {
				dir := filepath.Join(b.dst, filepath.Dir(rel))
				pkgName := strings.TrimSpace(readFileString(path))
				ents, _ := os.ReadDir(dir)
				for _, e := range ents {
					if strings.HasSuffix(e.Name(), ".go") {
						virt := filepath.Join(dir, e.Name())
						if _, ok := ov[virt]; !ok {
							os.MkdirAll(tmp, 0o755)
							stub := filepath.Join(tmp, strings.ReplaceAll(virt, "/", "_"))
							pn := pkgName
							if strings.HasSuffix(e.Name(), "_test.go") {
								pn = pkgName
							}
							os.WriteFile(stub, []byte("package "+pn+"\n"), 0o644)
							ov[virt+"#stub"] = stub
						}
					}
				}
				return nil
			}
			if strings.HasSuffix(rel, ".go.txt") {
				rel = strings.TrimSuffix(rel, ".txt")
			} else if !strings.HasSuffix(rel, ".go") {
				return nil
			}
			ov[filepath.Join(b.dst, rel)] = path
			return nil
		})
		if err != nil {
			return nil, err
		}
	}
	// resolve stubs: real overlay files win
	out := map[string]string{}
	for k, v := range ov {
		if strings.HasSuffix(k, "#stub") {
			continue
		}
		out[k] = v
	}
	for k, v := range ov {
		if strings.HasSuffix(k, "#stub") {
			virt := strings.TrimSuffix(k, "#stub")
			if _, ok := out[virt]; !ok {
				out[virt] = v
			}
		}
	}
	if module == "serverreal" {
		// the storage stand-in of the service-level harnesses under its own import path,
		// so that it can be compared with the real repository in one program
		src := readFileString(filepath.Join(root, "harness", "server", "mongodb", "fake.go"))
		src = strings.Replace(src, "package mongodb", "package vffake", 1)
		os.MkdirAll(tmp, 0o755)
		f := filepath.Join(tmp, "vffake_fake.go")
		if err := os.WriteFile(f, []byte(src), 0o644); err != nil {
			return nil, err
		}
		out[filepath.Join(repoRoot, "server", "vffake", "fake.go")] = f
	}
	return out, nil
}

func readFileString(p string) string {
	b, _ := os.ReadFile(p)
	return string(b)
}
