package main

// Deterministic goroutine scheduling.  Interpreted goroutines are host
// goroutines, but only the one holding the baton runs.  Blocking operations
// hand the baton over; when nobody can run the path outcome is "deadlock".
// In interleaving mode a preemption point lets the solver-independent
// scheduler decision (ex.choose) pick who continues.

import (
	"fmt"
)

type gor struct {
	id      int
	wake    chan struct{}
	done    bool
	blocked func() bool // nil when runnable; else predicate "can proceed"
	what    string
	main    bool
	// a goroutine waiting with a context timeout: if nothing else can run the
	// timeout is what ends the wait
	canTimeout bool
	timedOut   bool
	// preempted with a delay: resumes only when no other goroutine can run
	delayed   bool
	restLevel int // inside quiesce(): 1 = a timed rest (sleep, timer, slow command), 2 = the harness waiting for everybody to finish
}

type killSignal struct{}

func (ex *exec) runnable(g *gor) bool {
	if g.done {
		return false
	}
	if g.blocked == nil {
		return true
	}
	return g.blocked()
}

// spawn creates a new interpreted goroutine running f.
func (ex *exec) spawn(f func()) {
	g := &gor{id: len(ex.gors), wake: make(chan struct{})}
	ex.gors = append(ex.gors, g)
	go func() {
		<-g.wake
		defer func() {
			r := recover()
			g.done = true
			if _, isKill := r.(killSignal); isKill || ex.killed {
				ex.exitAck <- struct{}{}
				return
			}
			if r != nil {
				// unrecovered panic in a goroutine crashes the process
				if ex.pendingAbort == nil {
					switch p := r.(type) {
					case abort:
						ex.pendingAbort = &p
					case targetPanic:
						ex.pendingAbort = &abort{"panic", "unrecovered panic in goroutine: " + toString(p.v)}
					default:
						ex.pendingAbort = &abort{"engine", fmt.Sprintf("engine error in goroutine: %v", r)}
					}
				}
			}
			// hand the baton to the main goroutine (or anyone runnable)
			ex.handoffFromDead(g)
		}()
		f()
	}()
}

// handoffFromDead passes the baton on after g has finished.
func (ex *exec) handoffFromDead(g *gor) {
	if ex.pendingAbort != nil {
		// wake main so that it can abort the path
		m := ex.gors[0]
		ex.cur = m
		m.wake <- struct{}{}
		return
	}
	next := ex.pickNext(g)
	if next == nil {
		next = ex.fireTimeout(g)
	}
	if next == nil {
		// everybody else is blocked: deadlock; main handles it
		ex.pendingAbort = &abort{"deadlock", ex.describeBlocked()}
		m := ex.gors[0]
		ex.cur = m
		m.wake <- struct{}{}
		return
	}
	ex.cur = next
	next.wake <- struct{}{}
}

func (ex *exec) describeBlocked() string {
	s := "all goroutines are blocked:"
	for _, g := range ex.gors {
		if !g.done {
			s += fmt.Sprintf(" g%d[%s]", g.id, g.what)
		}
	}
	return s
}

// pickNext selects the next goroutine to run (not self unless it is the only one).
func (ex *exec) pickNext(self *gor) *gor {
	var cands, late []*gor
	for _, g := range ex.gors {
		if g != self && ex.runnable(g) {
			if self.restLevel > 0 && g.restLevel >= self.restLevel {
				// a resting goroutine is not woken by another one resting at the same or a
				// lower urgency: timed rests (sleep, timer, slow command) end when everybody
				// who is active has come to rest; the harness's Quiesce waits for those too
				continue
			}
			if g.delayed {
				late = append(late, g)
			} else {
				cands = append(cands, g)
			}
		}
	}
	if len(cands) == 0 {
		if len(late) == 0 {
			return nil
		}
		late[0].delayed = false
		return late[0]
	}
	// When the running goroutine blocks or ends, the next one is taken in
	// creation order; schedule exploration happens at the (budgeted)
	// preemption points only.
	return cands[0]
}

// yieldTo parks the current goroutine g and resumes next.
func (ex *exec) yieldTo(g, next *gor) {
	ex.cur = next
	next.wake <- struct{}{}
	<-g.wake
	if ex.killed {
		panic(killSignal{})
	}
	if ex.pendingAbort != nil && g.main {
		a := *ex.pendingAbort
		panic(a)
	}
}

// block suspends the current goroutine until cond holds.
func (ex *exec) block(what string, cond func() bool) {
	g := ex.cur
	for !cond() {
		g.blocked = cond
		g.what = what
		next := ex.pickNext(g)
		if next == nil {
			next = ex.fireTimeout(g)
		}
		if next == nil {
			g.blocked = nil
			ex.abortFrom(g, abort{"deadlock", ex.describeBlocked()})
		}
		ex.yieldTo(g, next)
	}
	g.blocked = nil
	g.what = ""
}

// fireTimeout picks a goroutine that waits with a timeout and lets the timeout expire.
func (ex *exec) fireTimeout(self *gor) *gor {
	for _, o := range ex.gors {
		if o != self && !o.done && o.canTimeout && o.blocked != nil {
			o.timedOut = true
			o.blocked = nil
			return o
		}
	}
	return nil
}

// abortFrom ends the path from goroutine g.
func (ex *exec) abortFrom(g *gor, a abort) {
	if g.main {
		panic(a)
	}
	if ex.pendingAbort == nil {
		ex.pendingAbort = &a
	}
	m := ex.gors[0]
	ex.cur = m
	g.done = true
	m.wake <- struct{}{}
	// park forever until killed
	<-g.wake
	panic(killSignal{})
}

// gosched lets other runnable goroutines run until they block or finish
// (used by vf.Quiesce and at preemption points).
func (ex *exec) quiesce() { ex.rest(1) }

func (ex *exec) rest(level int) {
	g := ex.cur
	prev := g.restLevel
	g.restLevel = level
	defer func() { g.restLevel = prev }()
	for {
		next := ex.pickNext(g)
		if next == nil {
			return
		}
		g.blocked = nil
		ex.yieldTo(g, next)
	}
}

// preemptPoint is called at designated instructions in interleaving mode.
func (ex *exec) preemptPoint() {
	if !ex.cfg.Interleave || ex.preempt <= 0 {
		return
	}
	g := ex.cur
	var cands []*gor
	for _, o := range ex.gors {
		if o != g && ex.runnable(o) {
			cands = append(cands, o)
		}
	}
	if len(cands) == 0 {
		return
	}
	// 0: continue; 1..n: switch to candidate i (the preempted goroutine stays
	// runnable); n+1: switch to the first candidate and resume only when nobody
	// else can run (an arbitrarily long delay of this goroutine)
	c := ex.choose(len(cands)+2, "preempt")
	if c == 0 {
		return
	}
	ex.preempt--
	if c == len(cands)+1 {
		g.delayed = true
		next := cands[0]
		for _, o := range cands {
			if !o.delayed {
				next = o
				break
			}
		}
		ex.yieldTo(g, next)
		g.delayed = false
		return
	}
	ex.yieldTo(g, cands[c-1])
}

// killAll terminates every parked goroutine at the end of a path.
func (ex *exec) killAll() {
	ex.killed = true
	for _, g := range ex.gors {
		if g.main || g.done {
			continue
		}
		g.done = true
		g.wake <- struct{}{}
		<-ex.exitAck
	}
}

// ---------------------------------------------------------------------
// channels

type gchan struct {
	cap      int
	buf      []value
	closed   bool
	slot     *value // pending unbuffered send
	taken    bool
	recvWait int
}

func (ex *exec) chanSend(ch *gchan, v value) {
	if ch == nil {
		ex.block("send on nil chan", func() bool { return false })
	}
	if ch.closed {
		ex.rtPanic("send on closed channel")
	}
	if ch.cap > 0 {
		ex.block("chan send", func() bool { return len(ch.buf) < ch.cap || ch.closed })
		if ch.closed {
			ex.rtPanic("send on closed channel")
		}
		ch.buf = append(ch.buf, v)
		return
	}
	ex.block("chan send", func() bool { return ch.slot == nil })
	vv := v
	ch.slot = &vv
	ch.taken = false
	mine := ch.slot
	ex.block("chan send (rendezvous)", func() bool { return ch.slot != mine || ch.taken })
}

func (ch *gchan) canRecv() bool {
	return len(ch.buf) > 0 || (ch.slot != nil && !ch.taken) || ch.closed
}

func (ch *gchan) doRecv() (value, bool) {
	if len(ch.buf) > 0 {
		v := ch.buf[0]
		ch.buf = ch.buf[1:]
		return v, true
	}
	if ch.slot != nil && !ch.taken {
		v := *ch.slot
		ch.taken = true
		ch.slot = nil
		return v, true
	}
	return nil, false // closed
}

func (ex *exec) chanRecv(ch *gchan) (value, bool) {
	if ch == nil {
		ex.block("recv on nil chan", func() bool { return false })
	}
	ch.recvWait++
	ex.block("chan recv", ch.canRecv)
	ch.recvWait--
	return ch.doRecv()
}

func (ex *exec) chanClose(ch *gchan) {
	if ch == nil {
		ex.rtPanic("close of nil channel")
	}
	if ch.closed {
		ex.rtPanic("close of closed channel")
	}
	ch.closed = true
}

type selCase struct {
	ch   *gchan
	send bool
	val  value
}

// selectOp returns (chosen index, received value, recvOk).  chosen = -1 for default.
func (ex *exec) selectOp(cases []selCase, hasDefault bool) (int, value, bool) {
	ready := func() int {
		for i, c := range cases {
			if c.ch == nil {
				continue
			}
			if c.send {
				if c.ch.closed || (c.ch.cap > 0 && len(c.ch.buf) < c.ch.cap) || (c.ch.cap == 0 && c.ch.recvWait > 0 && c.ch.slot == nil) {
					return i
				}
			} else if c.ch.canRecv() {
				return i
			}
		}
		return -1
	}
	i := ready()
	if i < 0 {
		if hasDefault {
			return -1, nil, false
		}
		for _, c := range cases {
			if c.ch != nil && !c.send {
				c.ch.recvWait++
			}
		}
		ex.block("select", func() bool { return ready() >= 0 })
		for _, c := range cases {
			if c.ch != nil && !c.send {
				c.ch.recvWait--
			}
		}
		i = ready()
	}
	c := cases[i]
	if c.send {
		ex.chanSend(c.ch, c.val)
		return i, nil, false
	}
	v, ok := c.ch.doRecv()
	return i, v, ok
}

// ---------------------------------------------------------------------
// mutexes / waitgroups / semaphores: state machines keyed by the address of
// the object.

type mstate struct {
	locked  bool
	readers int
	wwait   int // goroutines waiting in Lock: a pending writer holds back new readers (sync.RWMutex contract)
	count   int64
}

func (ex *exec) mstateOf(p *value) *mstate {
	if p == nil {
		ex.rtPanic("invalid memory address or nil pointer dereference")
	}
	m := ex.mstates[p]
	if m == nil {
		m = &mstate{}
		ex.mstates[p] = m
	}
	return m
}

func (ex *exec) mutexLock(p *value) {
	m := ex.mstateOf(p)
	ex.preemptPoint()
	if m.locked || m.readers > 0 {
		m.wwait++
		ex.block("mutex lock", func() bool { return !m.locked && m.readers == 0 })
		m.wwait--
	}
	m.locked = true
}

func (ex *exec) mutexTryLock(p *value) bool {
	m := ex.mstateOf(p)
	if m.locked || m.readers > 0 {
		return false
	}
	m.locked = true
	return true
}

func (ex *exec) mutexUnlock(p *value) {
	m := ex.mstateOf(p)
	if !m.locked {
		ex.abortFrom(ex.cur, abort{"panic", "fatal error: sync: unlock of unlocked mutex"})
	}
	m.locked = false
	ex.preemptPoint()
}

func (ex *exec) mutexRLock(p *value) {
	m := ex.mstateOf(p)
	ex.preemptPoint()
	ex.block("mutex rlock", func() bool { return !m.locked && m.wwait == 0 })
	m.readers++
}

func (ex *exec) mutexRUnlock(p *value) {
	m := ex.mstateOf(p)
	if m.readers <= 0 {
		ex.abortFrom(ex.cur, abort{"panic", "fatal error: sync: RUnlock of unlocked RWMutex"})
	}
	m.readers--
	ex.preemptPoint()
}
