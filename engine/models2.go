package main

// Models for the concurrency-related libraries of the server: contexts,
// go-lock's CASMutex (by contract), reflect.Select.

import (
	"go/types"
)

func (ex *exec) vfFunc(name string) value {
	f := ex.prog.findFunc(vfPkg, name)
	if f == nil {
		ex.unsupported("vf.%s not found", name)
	}
	return f
}

// ctxDone evaluates ctx.Err() != nil through the interpreted method.
func (ex *exec) ctxDone(fr *frame, ctx value) bool {
	it, ok := ctx.(iface)
	if !ok || it.t == nil {
		return false
	}
	m := ex.findMethod(it.t, "Err")
	if m == nil {
		return false
	}
	r := call(ex, fr, 0, m, []value{it.v})
	if e, ok := r.(iface); ok {
		return e.t != nil
	}
	return false
}

type casMutex struct{ held bool }

func init() {
	withCancel := func(fr *frame, a []value) value {
		return call(fr.ex, fr, 0, fr.ex.vfFunc("ModelWithCancel"), []value{a[0]})
	}
	reg("context.WithCancel", withCancel)
	reg("context.WithTimeout", withCancel)
	reg("context.WithDeadline", withCancel)
	reg(vfPkg+".WithCancel", withCancel)

	const gl = "github.com/viney-shih/go-lock"
	reg(gl+".NewCASMutex", func(fr *frame, a []value) value {
		cell := value(structure{false})
		return &cell
	})
	held := func(p value) *value { return &(*p.(*value)).(structure)[0] }
	reg("(*"+gl+".CASMutex).TryLockWithContext", func(fr *frame, a []value) value {
		ex := fr.ex
		h := held(a[0])
		ex.preemptPoint()
		for {
			if !(*h).(bool) {
				*h = true
				return true
			}
			if ex.ctxDone(fr, a[1]) {
				return false
			}
			// interleaving mode: the holder may be slower than the lease time
			// (once per path): the wait ends with a timeout
			if ex.cfg.Interleave && ex.leaseExpiries < 1 {
				if ex.choose(2, "lease-expiry") == 1 {
					ex.leaseExpiries++
					return false
				}
			}
			// held by somebody else: wait for a release; if nobody can ever
			// release it the context's timeout is what ends the wait
			if !ex.blockOrTimeout("CASMutex.TryLockWithContext", func() bool { return !(*h).(bool) }) {
				return false
			}
		}
	})
	reg("(*"+gl+".CASMutex).TryLock", func(fr *frame, a []value) value {
		h := held(a[0])
		if !(*h).(bool) {
			*h = true
			return true
		}
		return false
	})
	reg("(*"+gl+".CASMutex).Lock", func(fr *frame, a []value) value {
		h := held(a[0])
		fr.ex.block("CASMutex.Lock", func() bool { return !(*h).(bool) })
		*h = true
		return nil
	})
	reg("(*"+gl+".CASMutex).Unlock", func(fr *frame, a []value) value {
		h := held(a[0])
		if !(*h).(bool) {
			panic(targetPanic{iface{types.Typ[types.String], "Unlock failed"}})
		}
		*h = false
		fr.ex.preemptPoint()
		return nil
	})

	reg("reflect.Select", func(fr *frame, a []value) value {
		ex := fr.ex
		var cases []selCase
		hasDefault := false
		idx := []int{}
		for i, c := range a[0].([]value) {
			st := c.(structure)
			dir := asInt64(st[0])
			switch dir {
			case 1: // SelectSend
				cases = append(cases, selCase{ch: rV2V(st[1]).(*gchan), send: true, val: rV2V(st[2])})
				idx = append(idx, i)
			case 2: // SelectRecv
				ch, _ := rV2V(st[1]).(*gchan)
				cases = append(cases, selCase{ch: ch})
				idx = append(idx, i)
			case 3:
				hasDefault = true
			}
		}
		chosen, recv, ok := ex.selectOp(cases, hasDefault)
		if chosen < 0 {
			for i, c := range a[0].([]value) {
				if asInt64(c.(structure)[0]) == 3 {
					return tuple{i, makeReflectValue(nil, nil), false}
				}
			}
		}
		orig := idx[chosen]
		st := a[0].([]value)[orig].(structure)
		var rv value = makeReflectValue(nil, nil)
		if !cases[chosen].send {
			et := rV2T(st[1]).t.Underlying().(*types.Chan).Elem()
			if ok {
				rv = makeReflectValue(et, recv)
			} else {
				rv = makeReflectValue(et, zero(et))
			}
		}
		return tuple{orig, rv, ok}
	})
}

// blockOrTimeout waits for cond like block, but when no other goroutine can
// run (nobody will ever make cond true) it returns false instead of declaring
// a deadlock: this is how a context timeout is modelled.
func (ex *exec) blockOrTimeout(what string, cond func() bool) bool {
	g := ex.cur
	g.canTimeout = true
	defer func() { g.canTimeout = false; g.timedOut = false }()
	for !cond() {
		g.blocked = cond
		g.what = what
		next := ex.pickNext(g)
		if next == nil {
			g.blocked = nil
			return false
		}
		ex.yieldTo(g, next)
		if g.timedOut {
			g.blocked = nil
			return false
		}
	}
	g.blocked = nil
	g.what = ""
	return true
}

// ---------------------------------------------------------------------
// reflect.DeepEqual on the engine's own values (dynamic types are concrete;
// scalar leaves may be symbolic: the result is then a term).

func (ex *exec) deepEq(t types.Type, x, y value, depth int) *Term {
	if depth > 64 {
		ex.unsupported("reflect.DeepEqual: structure too deep")
	}
	if xi, ok := x.(iface); ok {
		yi, ok2 := y.(iface)
		if !ok2 {
			return tFalse
		}
		if xi.t == nil || yi.t == nil {
			if xi.t == nil && yi.t == nil {
				return tTrue
			}
			return tFalse
		}
		if !sameType(xi.t, yi.t) {
			return tFalse
		}
		return ex.deepEq(xi.t, xi.v, yi.v, depth+1)
	}
	switch u := t.Underlying().(type) {
	case *types.Pointer:
		px, _ := x.(*value)
		py, _ := y.(*value)
		if px == nil || py == nil {
			if px == nil && py == nil {
				return tTrue
			}
			return tFalse
		}
		if px == py {
			return tTrue
		}
		return ex.deepEq(u.Elem(), *px, *py, depth+1)
	case *types.Struct:
		sx, sy := x.(structure), y.(structure)
		acc := tTrue
		for i := 0; i < u.NumFields(); i++ {
			acc = tAnd(acc, ex.deepEq(u.Field(i).Type(), sx[i], sy[i], depth+1))
		}
		return acc
	case *types.Array:
		ax, ay := x.(array), y.(array)
		acc := tTrue
		for i := range ax {
			acc = tAnd(acc, ex.deepEq(u.Elem(), ax[i], ay[i], depth+1))
		}
		return acc
	case *types.Slice:
		sx, _ := x.([]value)
		sy, _ := y.([]value)
		if (sx == nil) != (sy == nil) || len(sx) != len(sy) {
			return tFalse
		}
		acc := tTrue
		for i := range sx {
			acc = tAnd(acc, ex.deepEq(u.Elem(), sx[i], sy[i], depth+1))
		}
		return acc
	case *types.Map:
		mx, _ := x.(*gmap)
		my, _ := y.(*gmap)
		if (mx == nil) != (my == nil) || mx.len() != my.len() {
			return tFalse
		}
		acc := tTrue
		for _, e := range mx.liveEntries() {
			f := my.find(ex, e.k)
			if f == nil {
				return tFalse
			}
			acc = tAnd(acc, ex.deepEq(u.Elem(), e.v, f.v, depth+1))
		}
		return acc
	case *types.Signature:
		if x == nil && y == nil {
			return tTrue
		}
		return tFalse
	}
	return boolTerm(ex.eqv(t, x, y))
}
