package main

// Models needed to execute the redsync distributed-lock code (interpreted as
// code) over a fake redis connection pool supplied by the harness:
//  * time.After(d): the caller rests for d (everybody else runs until they rest),
//    then a ready channel is returned - the same notion of elapsing time as
//    time.Sleep in this engine; in interleaving mode the timer may also fire
//    early, while the others are still where they are (one preemption);
//  * crypto/rand.Read: fresh bytes that differ from every earlier call (a counter);
//    uniqueness is the contract the callers rely on, unpredictability is not modelled;
//  * math/rand: the smallest value of the range (retry delays);
//  * encoding/base64, encoding/hex: concrete;
//  * redsync's redis.NewScript: the script without its SHA-1 (the fake connection
//    recognises scripts by their source).

import (
	"encoding/base64"
	"encoding/hex"
	"go/token"
	"go/types"
	"strconv"
	"strings"

	"golang.org/x/tools/go/ssa"
)

func init() {
	reg("time.After", func(fr *frame, a []value) value {
		// interleaving mode: the delay may also be shorter than what the others are busy
		// with (the timer fires while they are where they are); costs one preemption
		ex := fr.ex
		early := false
		if ex.cfg.Interleave && ex.preempt > 0 && ex.choose(2, "timer-fires-early") == 1 {
			ex.preempt--
			early = true
		}
		if !early {
			ex.quiesce()
		}
		z := zero(fr.ex.prog.namedType("time", "Time"))
		return &gchan{cap: 1, buf: []value{fr.ex.clockNow(z)}}
	})
	reg("crypto/rand.Read", func(fr *frame, a []value) value {
		ex := fr.ex
		ex.randCounter++
		b := a[0].([]value)
		n := ex.randCounter
		for i := range b {
			b[i] = byte(n >> (8 * uint(i%8)))
			if i >= 8 {
				b[i] = byte(0xA5)
			}
		}
		return tuple{len(b), iface{}}
	})
	reg("math/rand.Intn", func(fr *frame, a []value) value { return 0 })
	reg("math/rand.Int63n", func(fr *frame, a []value) value { return int64(0) })
	reg("math/rand.Int", func(fr *frame, a []value) value { return 0 })
	reg("math/rand.Float64", func(fr *frame, a []value) value { return float64(0) })
	reg("math/rand.Seed", func(fr *frame, a []value) value { return nil })
	encodeToString := func(enc *base64.Encoding) externalFn {
		return func(fr *frame, a []value) value {
			var b []byte
			for _, v := range a[1].([]value) {
				b = append(b, byte(asInt64(v)))
			}
			return enc.EncodeToString(b)
		}
	}
	// the four predefined encodings are package variables: which one is the receiver
	// cannot be told from the opaque value, StdEncoding is what the code under test uses
	reg("(*encoding/base64.Encoding).EncodeToString", encodeToString(base64.StdEncoding))
	reg("encoding/hex.EncodeToString", func(fr *frame, a []value) value {
		var b []byte
		for _, v := range a[0].([]value) {
			b = append(b, byte(asInt64(v)))
		}
		return hex.EncodeToString(b)
	})
	reg("github.com/go-redsync/redsync/v4/redis.NewScript", func(fr *frame, a []value) value {
		return fr.ex.mkStruct("github.com/go-redsync/redsync/v4/redis", "Script", map[string]value{"KeyCount": a[0], "Src": a[1], "Hash": "-"})
	})
	_ = types.Typ
}

// io.Reader over bytes and json.Decoder: the reader is its content, the decoder
// is (content, UseNumber); one Decode consumes the whole content (one value).
type jsonDecoder struct {
	src       value
	useNumber bool
}

func init() {
	newReader := func(path, name string) externalFn {
		return func(fr *frame, a []value) value {
			ex := fr.ex
			h := ex.newOpaque(path, name)
			if ex.readers == nil {
				ex.readers = map[*value]value{}
			}
			ex.readers[h] = a[0]
			return h
		}
	}
	reg("bytes.NewReader", newReader("bytes", "Reader"))
	reg("bytes.NewBuffer", newReader("bytes", "Buffer"))
	reg("bytes.NewBufferString", newReader("bytes", "Buffer"))
	reg("strings.NewReader", newReader("strings", "Reader"))
	reg("encoding/json.NewDecoder", func(fr *frame, a []value) value {
		ex := fr.ex
		src, ok := a[0].(iface)
		var data value
		if ok {
			if p, isPtr := src.v.(*value); isPtr {
				data = ex.readers[p]
			}
		}
		if data == nil {
			ex.unsupported("json.NewDecoder over a reader that is not a modelled in-memory reader")
		}
		h := ex.newOpaque("encoding/json", "Decoder")
		if ex.decoders == nil {
			ex.decoders = map[*value]*jsonDecoder{}
		}
		ex.decoders[h] = &jsonDecoder{src: data}
		return h
	})
	reg("(*encoding/json.Decoder).UseNumber", func(fr *frame, a []value) value {
		fr.ex.decoders[a[0].(*value)].useNumber = true
		return nil
	})
	reg("(*encoding/json.Decoder).DisallowUnknownFields", func(fr *frame, a []value) value { return nil })
	reg("(*encoding/json.Decoder).Decode", func(fr *frame, a []value) value {
		ex := fr.ex
		d := ex.decoders[a[0].(*value)]
		if d == nil {
			ex.unsupported("json.Decoder not created by json.NewDecoder")
		}
		ex.jsonUseNumber = d.useNumber
		defer func() { ex.jsonUseNumber = false }()
		data := d.src
		if s, isStr := data.(string); isStr {
			bs := make([]value, len(s))
			for i := range bs {
				bs[i] = s[i]
			}
			data = bs
		}
		return ex.jsonUnmarshal(fr, data, a[1].(iface))
	})
}

func init() {
	reg("(encoding/json.Number).String", func(fr *frame, a []value) value { return a[0] })
	reg("(encoding/json.Number).Float64", func(fr *frame, a []value) value {
		f, e := strconv.ParseFloat(strArg(fr, a[0]), 64)
		if e != nil {
			return tuple{f, fr.ex.mkError(e.Error())}
		}
		return tuple{f, iface{}}
	})
	reg("(encoding/json.Number).Int64", func(fr *frame, a []value) value {
		i, e := strconv.ParseInt(strArg(fr, a[0]), 10, 64)
		if e != nil {
			return tuple{i, fr.ex.mkError(e.Error())}
		}
		return tuple{i, iface{}}
	})
}

// sync.Pool: a last-in first-out store per pool object (the real pool may drop
// items at any time; keeping them is the behaviour that lets state leak from one
// use to the next, which is what matters for the code that uses it); Get on an
// empty pool calls New.
func init() {
	reg("(*sync.Pool).Put", func(fr *frame, a []value) value {
		ex := fr.ex
		if ex.pools == nil {
			ex.pools = map[*value][]value{}
		}
		p := a[0].(*value)
		ex.pools[p] = append(ex.pools[p], a[1])
		return nil
	})
	reg("(*sync.Pool).Get", func(fr *frame, a []value) value {
		ex := fr.ex
		p := a[0].(*value)
		if items := ex.pools[p]; len(items) > 0 {
			v := items[len(items)-1]
			ex.pools[p] = items[:len(items)-1]
			return v
		}
		pt := ex.prog.namedType("sync", "Pool")
		newFn := ex.structField((*p).(structure), pt, "New")
		if newFn == nil {
			return iface{}
		}
		if c, ok := newFn.(*closure); ok && c == nil {
			return iface{}
		}
		if f, ok := newFn.(*ssa.Function); ok && f == nil {
			return iface{}
		}
		return call(ex, fr, token.NoPos, newFn, nil)
	})
}

// json.NewEncoder(w).Encode(v): the encoder is its writer; Encode appends the
// JSON text of v and a newline to a modelled in-memory writer (*bytes.Buffer,
// *strings.Builder).
func init() {
	reg("encoding/json.NewEncoder", func(fr *frame, a []value) value {
		ex := fr.ex
		h := ex.newOpaque("encoding/json", "Encoder")
		if ex.readers == nil {
			ex.readers = map[*value]value{}
		}
		ex.readers[h] = a[0]
		return h
	})
	reg("(*encoding/json.Encoder).SetEscapeHTML", func(fr *frame, a []value) value { return nil })
	reg("(*encoding/json.Encoder).SetIndent", func(fr *frame, a []value) value { return nil })
	reg("(*encoding/json.Encoder).Encode", func(fr *frame, a []value) value {
		ex := fr.ex
		w, ok := ex.readers[a[0].(*value)].(iface)
		if !ok || w.t == nil {
			ex.unsupported("json.Encoder over a nil writer")
		}
		res, errv := ex.jsonMarshal(fr, a[1].(iface))
		if e, isErr := errv.(iface); isErr && e.t != nil {
			return errv
		}
		txt := bytesToString(fr, res.([]value))
		p, isPtr := w.v.(*value)
		if !isPtr || p == nil {
			ex.unsupported("json.Encoder over a writer that is not a modelled in-memory buffer")
		}
		st, isStruct := (*p).(structure)
		if !isStruct || len(st) < 2 {
			ex.unsupported("json.Encoder over a writer that is not a modelled in-memory buffer")
		}
		var cur value = ""
		switch c := st[1].(type) {
		case string:
			cur = c
		case symv:
			cur = c
		}
		st[1] = ex.strConcat(ex.strConcat(cur, txt), "\n")
		return iface{}
	})
}

func init() {
	b2s := func(fr *frame, v value) string { return strArg(fr, bytesToString(fr, v.([]value))) }
	reg("bytes.TrimSpace", func(fr *frame, a []value) value { return stringToBytes(strings.TrimSpace(b2s(fr, a[0]))) })
	reg("bytes.TrimRight", func(fr *frame, a []value) value {
		return stringToBytes(strings.TrimRight(b2s(fr, a[0]), strArg(fr, a[1])))
	})
	reg("bytes.TrimSuffix", func(fr *frame, a []value) value {
		return stringToBytes(strings.TrimSuffix(b2s(fr, a[0]), b2s(fr, a[1])))
	})
	reg("bytes.HasPrefix", func(fr *frame, a []value) value { return strings.HasPrefix(b2s(fr, a[0]), b2s(fr, a[1])) })
	reg("bytes.HasSuffix", func(fr *frame, a []value) value { return strings.HasSuffix(b2s(fr, a[0]), b2s(fr, a[1])) })
	reg("bytes.Contains", func(fr *frame, a []value) value { return strings.Contains(b2s(fr, a[0]), b2s(fr, a[1])) })
}

func init() {
	// functions of package strings that take a predicate: the predicate is code under test
	pred := func(fr *frame, f value, r rune) bool {
		return fr.ex.truth(call(fr.ex, fr, token.NoPos, f, []value{r}))
	}
	reg("strings.FieldsFunc", func(fr *frame, a []value) value {
		s := strArg(fr, a[0])
		return strSliceToValue(strings.FieldsFunc(s, func(r rune) bool { return pred(fr, a[1], r) }))
	})
	reg("strings.TrimFunc", func(fr *frame, a []value) value {
		return strings.TrimFunc(strArg(fr, a[0]), func(r rune) bool { return pred(fr, a[1], r) })
	})
	reg("strings.IndexFunc", func(fr *frame, a []value) value {
		return strings.IndexFunc(strArg(fr, a[0]), func(r rune) bool { return pred(fr, a[1], r) })
	})
	reg("strings.Map", func(fr *frame, a []value) value {
		return strings.Map(func(r rune) rune {
			return rune(asInt64(call(fr.ex, fr, token.NoPos, a[0], []value{r})))
		}, strArg(fr, a[1]))
	})
}
