package main

// Native replay of schedule-dependent counterexamples: the Go scheduler is not
// under our control, so the replay build gets a yield (runtime.Gosched plus an
// occasional microsecond sleep) inserted before every statement of the
// packages the interleaving exploration preempts in.  The yields do not change
// the meaning of the code, they only widen the windows the engine found.

import (
	"bytes"
	"go/ast"
	"go/parser"
	goprinter "go/printer"
	"go/token"
	"os"
	"path/filepath"
	"strings"

	"golang.org/x/tools/go/ast/astutil"
)

const yieldImportPath = "github.com/orda-io/orda/client/pkg/vf"

func yieldStmt() ast.Stmt {
	return &ast.ExprStmt{X: &ast.CallExpr{Fun: &ast.SelectorExpr{X: ast.NewIdent("vfyield"), Sel: ast.NewIdent("NativeYield")}}}
}

func injectList(list []ast.Stmt) []ast.Stmt {
	out := make([]ast.Stmt, 0, 2*len(list))
	for _, s := range list {
		out = append(out, yieldStmt(), s)
	}
	return out
}

// instrumentYields returns the source with a yield before every statement of
// every function body, or nil when the file has no function bodies.
func instrumentYields(path string) []byte {
	fset := token.NewFileSet()
	f, err := parser.ParseFile(fset, path, nil, parser.ParseComments)
	if err != nil {
		return nil
	}
	n := 0
	clauses := map[*ast.BlockStmt]bool{} // bodies of switch/select: lists of clauses, not statements
	ast.Inspect(f, func(nd ast.Node) bool {
		switch x := nd.(type) {
		case *ast.SwitchStmt:
			clauses[x.Body] = true
		case *ast.TypeSwitchStmt:
			clauses[x.Body] = true
		case *ast.SelectStmt:
			clauses[x.Body] = true
		case *ast.BlockStmt:
			if len(x.List) > 0 && !clauses[x] {
				x.List = injectList(x.List)
				n++
			}
		case *ast.CaseClause:
			x.Body = injectList(x.Body)
		case *ast.CommClause:
			x.Body = injectList(x.Body)
		}
		return true
	})
	if n == 0 {
		return nil
	}
	astutil.AddNamedImport(fset, f, "vfyield", yieldImportPath)
	// comments are dropped: their positions no longer fit the new statements
	// (build constraints are kept by re-emitting the header lines)
	header := ""
	for _, line := range strings.Split(readFileString(path), "\n") {
		if strings.HasPrefix(line, "package ") {
			break
		}
		if strings.HasPrefix(line, "//go:build") || strings.HasPrefix(line, "// +build") {
			header += line + "\n"
		}
	}
	f.Comments = nil
	var buf bytes.Buffer
	if header != "" {
		buf.WriteString(header + "\n")
	}
	if err := goprinter.Fprint(&buf, fset, f); err != nil {
		return nil
	}
	return buf.Bytes()
}

// instrumentClock returns the source with every time.Now() replaced by the
// replay clock, or nil when the file does not read the clock.
func instrumentClock(path string, src []byte) []byte {
	fset := token.NewFileSet()
	var f *ast.File
	var err error
	if src != nil {
		f, err = parser.ParseFile(fset, path, src, parser.ParseComments)
	} else {
		f, err = parser.ParseFile(fset, path, nil, parser.ParseComments)
	}
	if err != nil {
		return nil
	}
	timeName := ""
	for _, im := range f.Imports {
		if im.Path.Value == `"time"` {
			timeName = "time"
			if im.Name != nil {
				timeName = im.Name.Name
			}
		}
	}
	if timeName == "" {
		return nil
	}
	n := 0
	ast.Inspect(f, func(nd ast.Node) bool {
		if c, ok := nd.(*ast.CallExpr); ok {
			if sel, ok := c.Fun.(*ast.SelectorExpr); ok && sel.Sel.Name == "Now" {
				if id, ok := sel.X.(*ast.Ident); ok && id.Name == timeName && id.Obj == nil {
					c.Fun = &ast.SelectorExpr{X: ast.NewIdent("vfclock"), Sel: ast.NewIdent("ReplayNow")}
					n++
				}
			}
		}
		return true
	})
	if n == 0 {
		return nil
	}
	astutil.AddNamedImport(fset, f, "vfclock", yieldImportPath)
	if !astutil.UsesImport(f, "time") {
		astutil.DeleteNamedImport(fset, f, "", "time")
		astutil.DeleteNamedImport(fset, f, timeName, "time")
	}
	header := ""
	text := string(src)
	if src == nil {
		text = readFileString(path)
	}
	for _, line := range strings.Split(text, "\n") {
		if strings.HasPrefix(line, "package ") {
			break
		}
		if strings.HasPrefix(line, "//go:build") || strings.HasPrefix(line, "// +build") {
			header += line + "\n"
		}
	}
	f.Comments = nil
	var buf bytes.Buffer
	if header != "" {
		buf.WriteString(header + "\n")
	}
	if err := goprinter.Fprint(&buf, fset, f); err != nil {
		return nil
	}
	return buf.Bytes()
}

// addClockOverlay replaces time.Now() in the given directories (files already
// replaced by the overlay - yield-instrumented ones - are rewritten on top).
func addClockOverlay(ov map[string]string, scratch string, dirs []string) int {
	count := 0
	for _, d := range dirs {
		dir := filepath.Join(repoRoot, d)
		ents, _ := os.ReadDir(dir)
		for _, e := range ents {
			name := e.Name()
			if !strings.HasSuffix(name, ".go") || strings.HasSuffix(name, "_test.go") {
				continue
			}
			virt := filepath.Join(dir, name)
			var src []byte
			if real, replaced := ov[virt]; replaced {
				if strings.HasPrefix(name, "zz_vf") {
					continue
				}
				src, _ = os.ReadFile(real)
			}
			out := instrumentClock(virt, src)
			if out == nil {
				continue
			}
			dst := filepath.Join(scratch, "clock_"+strings.ReplaceAll(filepath.Join(d, name), "/", "_"))
			if os.WriteFile(dst, out, 0o644) == nil {
				ov[virt] = dst
				count++
			}
		}
	}
	return count
}

// addYieldOverlay instruments the non-test Go files of the given
// repository-relative directories that the overlay does not already replace.
func addYieldOverlay(ov map[string]string, scratch string, dirs []string) int {
	count := 0
	for _, d := range dirs {
		only := "" // an entry may name a single file
		if strings.HasSuffix(d, ".go") {
			d, only = filepath.Dir(d), filepath.Base(d)
		}
		dir := filepath.Join(repoRoot, d)
		ents, _ := os.ReadDir(dir)
		for _, e := range ents {
			name := e.Name()
			if only != "" && name != only {
				continue
			}
			if !strings.HasSuffix(name, ".go") || strings.HasSuffix(name, "_test.go") || strings.HasPrefix(name, "zz_vf") {
				continue
			}
			virt := filepath.Join(dir, name)
			if _, replaced := ov[virt]; replaced {
				continue
			}
			src := instrumentYields(virt)
			if src == nil {
				continue
			}
			out := filepath.Join(scratch, "yield_"+strings.ReplaceAll(filepath.Join(d, name), "/", "_"))
			if os.WriteFile(out, src, 0o644) == nil {
				ov[virt] = out
				count++
			}
		}
	}
	return count
}
