package main

func cmdCheck(args []string) int    { return 2 }
func cmdReplay(args []string) int   { return 2 }
func cmdValidate(args []string) int { return 2 }
