package main

// The per-property driver: runs the harnesses registered for a property,
// compares violations with the committed known-findings file, replays new
// ones natively against the real build and writes the evidence file.

import (
	"encoding/json"
	"flag"
	"fmt"
	"os"
	osexec "os/exec"
	"path/filepath"
	"sort"
	"strconv"
	"strings"
	"time"
)

type harnessSpec struct {
	Module     string   `json:"module"`
	Pkg        string   `json:"pkg"`
	Func       string   `json:"func"`
	Reach      []string `json:"reach"`      // labels that must be reached (vacuity guard)
	Interleave bool     `json:"interleave"` // scheduler decisions at preemption points
	Thorough   bool     `json:"thorough_only"`
	MaxPaths   int      `json:"max_paths"`
	MaxSteps   int      `json:"max_steps"` // unwinding bound: instructions per path (default 3,000,000)
	Solver     string   `json:"solver"`
	Fallback   string   `json:"fallback"`
	Note       string   `json:"note"`
}

type propSpec struct {
	Title       string        `json:"title"`
	Harnesses   []harnessSpec `json:"harnesses"`
	Validate    []harnessSpec `json:"validate"` // translator-validation scenarios (engine vs native)
	Bounds      string        `json:"bounds"`
	BoundsThor  string        `json:"bounds_thorough"`
	Outside     string        `json:"outside"`
	Assumptions []string      `json:"assumptions"`
}

type knownFinding struct {
	Property string            `json:"property"`
	Harness  string            `json:"harness"`
	Label    string            `json:"label"`
	Tags     map[string]string `json:"tags,omitempty"` // input class: every listed tag must match
	What     string            `json:"what"`
	Status   string            `json:"status"` // open | fixed
	Commit   string            `json:"commit,omitempty"`
}

func loadKnown(root string) []knownFinding {
	var kf struct {
		Findings []knownFinding `json:"findings"`
	}
	_ = readJSON(filepath.Join(root, "known_findings.json"), &kf)
	return kf.Findings
}

func matchKnown(kfs []knownFinding, prop string, v *violation) *knownFinding {
	for i := range kfs {
		k := &kfs[i]
		if k.Status != "open" || k.Property != prop || k.Harness != v.Harness || (k.Label != v.Label && k.Label != "*") {
			continue
		}
		ok := true
		for tk, tv := range k.Tags {
			if v.Tags[tk] != tv {
				ok = false
			}
		}
		if ok {
			return k
		}
	}
	return nil
}

func cmdCheck(args []string) int {
	fs := flag.NewFlagSet("check", flag.ExitOnError)
	tier := fs.String("tier", "", "quick|thorough")
	workers := fs.Int("workers", 0, "")
	verbose := fs.Bool("v", false, "")
	only := fs.String("only", "", "run only this harness")
	noReplay := fs.Bool("noreplay", false, "")
	if len(args) < 1 {
		fmt.Fprintln(os.Stderr, "usage: gosym check <property> [-tier quick|thorough]")
		return 2
	}
	prop := args[0]
	fs.Parse(args[1:])
	if *tier == "" {
		*tier = os.Getenv("VERIF_TIER")
	}
	if *tier == "" {
		*tier = "quick"
	}
	if *tier == "thorough" {
		currentTier = 1
	}
	seed, _ := strconv.ParseInt(os.Getenv("VERIF_SEED"), 10, 64)
	root := verifRoot()
	t0 := time.Now()

	var props map[string]propSpec
	if err := readJSON(filepath.Join(root, "harness", "props.json"), &props); err != nil {
		fmt.Println("INCONCLUSIVE: cannot read props.json:", err)
		return 2
	}
	ps, ok := props[prop]
	if !ok {
		fmt.Println("INCONCLUSIVE: property", prop, "has no registered harness")
		return 2
	}
	kfs := loadKnown(root)

	// group harnesses by module
	byModule := map[string][]harnessSpec{}
	var modules []string
	for _, h := range ps.Harnesses {
		if h.Thorough && *tier != "thorough" {
			continue
		}
		if *only != "" && h.Func != *only {
			continue
		}
		if _, ok := byModule[h.Module]; !ok {
			modules = append(modules, h.Module)
		}
		byModule[h.Module] = append(byModule[h.Module], h)
	}

	var results []*harnessResult
	var inconclusive []string
	var newViolations []*violation
	var knownPrinted []string
	funcs := map[string]bool{}
	stubs := map[string]bool{}
	exit := 0

	for _, mod := range modules {
		hs := byModule[mod]
		pkgSet := map[string]bool{}
		var pkgs []string
		for _, h := range hs {
			if !pkgSet[h.Pkg] {
				pkgSet[h.Pkg] = true
				pkgs = append(pkgs, h.Pkg)
			}
		}
		tl := time.Now()
		p, err := loadForModule(mod, pkgs)
		if err != nil {
			msg := "harness does not build against the current tree (module " + mod + "): " + err.Error()
			inconclusive = append(inconclusive, msg)
			continue
		}
		if *verbose {
			fmt.Fprintf(os.Stderr, "loaded %s in %.1fs\n", mod, time.Since(tl).Seconds())
		}
		for _, h := range hs {
			entry := p.findFunc(h.Pkg, h.Func)
			if entry == nil {
				inconclusive = append(inconclusive, "no harness function "+h.Func)
				continue
			}
			cfg := defaultConfig()
			cfg.Harness = h.Func
			cfg.Verbose = *verbose
			cfg.Interleave = h.Interleave
			if h.Interleave {
				cfg.MaxDecisions = 3000
			}
			cfg.Seed = seed
			if *workers > 0 {
				cfg.Workers = *workers
			}
			if *tier == "thorough" {
				cfg.Tier = 1
				cfg.SolverTimeout = 60000
				cfg.MaxPaths = 3000000
			}
			if h.MaxPaths > 0 {
				cfg.MaxPaths = h.MaxPaths
			}
			if h.MaxSteps > 0 {
				cfg.MaxSteps = h.MaxSteps
			}
			if h.Solver != "" {
				cfg.SolverKind = h.Solver
				cfg.FallbackKind = h.Fallback
			}
			hr := explore(p, cfg, entry)
			results = append(results, hr)
			for f := range hr.Funcs {
				funcs[f] = true
			}
			fmt.Printf("harness %-28s paths=%d done=%d pruned=%d queries=%d solver=%.1fs wall=%.1fs\n", h.Func, hr.Paths, hr.Outcomes["done"],
				hr.Outcomes["assume"]+hr.Outcomes["infeasible"], hr.Queries, hr.SolverTime.Seconds(), hr.Wall.Seconds())
			for _, m := range hr.Inconclusive {
				inconclusive = append(inconclusive, h.Func+": "+m)
			}
			if !hr.Complete {
				inconclusive = appendUnique(inconclusive, h.Func+": exploration incomplete")
			}
			// vacuity guards
			if hr.Outcomes["done"]+hr.Outcomes["violation"] == 0 {
				inconclusive = append(inconclusive, h.Func+": vacuous (no path reached the end of the harness)")
			}
			for _, lbl := range h.Reach {
				if hr.Reached[lbl] == 0 {
					inconclusive = append(inconclusive, h.Func+": vacuous (label "+lbl+" never reached)")
				}
			}
			for _, v := range hr.Violations {
				if k := matchKnown(kfs, prop, v); k != nil {
					line := fmt.Sprintf("KNOWN-FINDING: property=%s %s [%s / %s]", prop, k.What, v.Harness, v.Label)
					knownPrinted = appendUnique(knownPrinted, line)
					continue
				}
				newViolations = append(newViolations, v)
			}
		}
		p.mu.Lock()
		for s := range p.stubNames {
			stubs[s] = true
		}
		p.mu.Unlock()
	}
	for _, l := range knownPrinted {
		fmt.Println(l)
	}
	validated := 0
	if *only == "" {
		for _, vs := range ps.Validate {
			ok, msg := validateScenario(root, prop, vs)
			if ok {
				validated++
				fmt.Printf("translator validation %-22s engine == native\n", vs.Func)
			} else {
				inconclusive = append(inconclusive, "translator validation "+vs.Func+": "+msg)
			}
		}
	}

	// replay new violations natively
	replayDir := filepath.Join(outRoot(root), "replays", prop)
	confirmed := 0
	var samplesViol []interface{}
	replayedLabel := map[string]string{}
	for i, v := range newViolations {
		os.MkdirAll(replayDir, 0o755)
		path := filepath.Join(replayDir, fmt.Sprintf("%s-%d.json", v.Harness, i))
		writeReplay(path, prop, v)
		status := "not-replayed"
		lk := v.Harness + "|" + v.Label + "|" + v.Kind
		if prev, done := replayedLabel[lk]; done && prev == "reproduced" {
			// another input class of an assertion already confirmed natively
			status = "reproduced"
		} else if !*noReplay {
			status = nativeReplay(root, ps, v, path)
			replayedLabel[lk] = status
		}
		switch status {
		case "reproduced", "not-replayed":
			fmt.Printf("VIOLATION property=%s replay=%s\n", prop, path)
			fmt.Printf("  harness=%s label=%q kind=%s %s tags=%v native=%s\n", v.Harness, v.Label, v.Kind, firstLine(v.Msg), v.Tags, status)
			confirmed++
			exit = 1
		default:
			inconclusive = append(inconclusive, fmt.Sprintf("counterexample of %s / %q did not reproduce natively (%s): engine or stub discrepancy, see %s", v.Harness, v.Label, status, path))
		}
		samplesViol = append(samplesViol, map[string]interface{}{"harness": v.Harness, "label": v.Label, "inputs": v.Inputs, "native": status})
	}
	for _, m := range inconclusive {
		fmt.Println("INCONCLUSIVE:", m)
	}
	if exit == 0 && len(inconclusive) > 0 {
		exit = 2
	}

	validatedScenarios = validated
	writeEvidence(root, prop, *tier, seed, ps, results, funcs, stubs, inconclusive, knownPrinted, confirmed, samplesViol, time.Since(t0))
	if exit == 0 {
		fmt.Printf("OK property=%s tier=%s held on everything explored (%.1fs)\n", prop, *tier, time.Since(t0).Seconds())
	}
	return exit
}

var currentTier = 0
var validatedScenarios = 0

// validateScenario runs a deterministic scenario function (returning its
// observation string) in the engine and natively and compares the strings.
func validateScenario(root, prop string, vs harnessSpec) (bool, string) {
	p, err := loadForModule(vs.Module, []string{vs.Pkg})
	if err != nil {
		return false, "load: " + err.Error()
	}
	entry := p.findFunc(vs.Pkg, vs.Func)
	if entry == nil {
		return false, "no function " + vs.Func
	}
	cfg := defaultConfig()
	cfg.Harness = vs.Func
	cfg.Workers = 1
	solver, err := NewSolver(cfg.SolverKind, cfg.SolverTimeout)
	if err != nil {
		return false, err.Error()
	}
	defer solver.Close()
	res := runPath(p, cfg, solver, func() *Solver { return nil }, entry, nil)
	if res.outcome.kind != "done" {
		return false, "engine run ended with " + res.outcome.String()
	}
	eng, ok := res.retval.(string)
	if !ok {
		return false, "engine result is not a concrete string"
	}
	nat, nerr := nativeScenario(root, vs)
	if nerr != "" {
		return false, "native run: " + nerr
	}
	if eng != nat {
		dir := filepath.Join(outRoot(root), "replays", prop)
		os.MkdirAll(dir, 0o755)
		os.WriteFile(filepath.Join(dir, vs.Func+".engine.txt"), []byte(eng), 0o644)
		os.WriteFile(filepath.Join(dir, vs.Func+".native.txt"), []byte(nat), 0o644)
		return false, "observations differ (see " + filepath.Join(dir, vs.Func+".{engine,native}.txt") + ")"
	}
	return true, ""
}

func nativeScenario(root string, vs harnessSpec) (string, string) {
	ov, err := buildOverlay(root, vs.Module)
	if err != nil {
		return "", "overlay"
	}
	scratch, err := os.MkdirTemp("/dev/shm", "gosym-vft-")
	if err != nil {
		scratch, _ = os.MkdirTemp("", "gosym-vft-")
	}
	defer os.RemoveAll(scratch)
	modPath := map[string]string{"client": "github.com/orda-io/orda/client", "server": "github.com/orda-io/orda/server", "serverreal": "github.com/orda-io/orda/server"}[vs.Module]
	pkgDir := filepath.Join(repoRoot, moduleDir(vs.Module), strings.TrimPrefix(vs.Pkg, modPath))
	pkgName := filepath.Base(vs.Pkg)
	if pn := packageNameOf(ov, pkgDir); pn != "" {
		pkgName = pn
	}
	src := fmt.Sprintf("package %s\n\nimport (\n\t\"fmt\"\n\t\"testing\"\n)\n\nfunc TestVFT(t *testing.T) {\n\tfmt.Printf(\"VFT-RESULT: %%q\\n\", %s())\n}\n", pkgName, vs.Func)
	testFile := filepath.Join(scratch, "zz_vft_test.go")
	os.WriteFile(testFile, []byte(src), 0o644)
	ov[filepath.Join(pkgDir, "zz_vft_test.go")] = testFile
	ovJSON := filepath.Join(scratch, "overlay.json")
	b, _ := json.Marshal(map[string]interface{}{"Replace": ov})
	os.WriteFile(ovJSON, b, 0o644)
	cmd := osexec.Command("go", "test", "-v", "-vet=off", "-count=1", "-overlay", ovJSON, "-run", "^TestVFT$", vs.Pkg)
	cmd.Dir = filepath.Join(repoRoot, moduleDir(vs.Module))
	cmd.Env = append(os.Environ(), "GOFLAGS=-mod=mod", "GOPROXY=off", "GOSUMDB=off", "GOTOOLCHAIN=local")
	out, _ := cmd.CombinedOutput()
	for _, line := range strings.Split(string(out), "\n") {
		if strings.HasPrefix(line, "VFT-RESULT: ") {
			s, err := strconv.Unquote(strings.TrimPrefix(line, "VFT-RESULT: "))
			if err != nil {
				return "", "unquote"
			}
			return s, ""
		}
	}
	return "", "no result line: " + firstLine(string(out))
}

func writeReplay(path, prop string, v *violation) {
	rec := map[string]interface{}{
		"property": prop, "harness": v.Harness, "label": v.Label, "kind": v.Kind, "msg": v.Msg,
		"inputs": v.Inputs, "decisions": v.Decs, "tags": v.Tags, "tier": currentTier,
	}
	b, _ := json.MarshalIndent(rec, "", " ")
	os.WriteFile(path, b, 0o644)
}

func writeEvidence(root, prop, tier string, seed int64, ps propSpec, results []*harnessResult, funcs, stubs map[string]bool,
	inconclusive, known []string, violations int, violSamples []interface{}, wall time.Duration) {
	var paths, done, queries, assertsU, assertsT, sat, unsat, unk int
	var solverTime time.Duration
	var hsum []map[string]interface{}
	var samples []interface{}
	for _, hr := range results {
		paths += hr.Paths
		done += hr.Outcomes["done"]
		queries += hr.Queries
		assertsU += hr.AssertsUnsat
		assertsT += hr.AssertsTriv
		sat += hr.SolverSat
		unsat += hr.SolverUnsat
		unk += hr.SolverUnk
		solverTime += hr.SolverTime
		hsum = append(hsum, map[string]interface{}{
			"harness": hr.Harness, "paths": hr.Paths, "outcomes": hr.Outcomes, "complete": hr.Complete,
			"reached": hr.Reached, "assertions_discharged_by_solver": hr.AssertsUnsat, "assertions_concretely_true": hr.AssertsTriv,
			"queries": hr.Queries, "solver_s": round1(hr.SolverTime.Seconds()), "wall_s": round1(hr.Wall.Seconds()),
			"max_decisions_on_a_path": hr.MaxTrace, "ssa_instructions_executed": hr.Steps,
		})
		for _, s := range hr.Samples {
			samples = append(samples, map[string]interface{}{"harness": hr.Harness, "path_inputs": s})
		}
	}
	samples = append(samples, violSamples...)
	if len(samples) == 0 {
		samples = append(samples, "no symbolic inputs on the explored paths")
	}
	var fl, sl []string
	for f := range funcs {
		fl = append(fl, f)
	}
	for s := range stubs {
		sl = append(sl, s)
	}
	sort.Strings(fl)
	sort.Strings(sl)
	bounds := ps.Bounds
	if tier == "thorough" && ps.BoundsThor != "" {
		bounds = ps.BoundsThor
	}
	assumptions := append([]string{}, ps.Assumptions...)
	assumptions = append(assumptions,
		"symbolic execution of go/ssa of /repo's working tree by /verif/engine (gosym); heap shapes concrete, scalars symbolic; sequential consistency",
		"models used instead of code (intrinsics): "+strings.Join(sl, ", "))
	ev := map[string]interface{}{
		"property_id": prop,
		"tier":        tier,
		"seed":        seed,
		"level":       "other",
		"coverage": map[string]interface{}{
			"explanation": "solver-based bounded checking: every feasible path of each harness within the stated bounds was executed symbolically; each branch feasibility and each assertion was decided by the SMT solver (z3 5.1.0 via pipe), for all values of the symbolic inputs. Bounds: " + bounds + ". Outside the claim: " + ps.Outside,
			"evaluations":                    paths,
			"distinct_nontrivial":            done,
			"rule":                           "one evaluation = one feasible path (input class) of a harness, distinguished by its sequence of solver-decided branch outcomes; non-trivial = the path ran the code under test to the end of the harness (not pruned by an assumption)",
			"samples":                        samples,
			"harnesses":                      hsum,
			"functions_encoded":              fl,
			"bounds":                         bounds,
			"outside_bounds":                 ps.Outside,
			"queries_discharged":             queries,
			"queries_sat":                    sat,
			"queries_unsat":                  unsat,
			"queries_unknown":                unk,
			"assertion_queries_unsat":        assertsU,
			"assertions_true_by_evaluation":  assertsT,
			"solver_time_s":                  round1(solverTime.Seconds()),
			"inconclusive":                   inconclusive,
			"known_findings_printed":         known,
			"exhaustive":                     len(inconclusive) == 0,
			"traces_validated_against_impl":  validatedScenarios,
		},
		"assumptions": assumptions,
		"wall_s":      round1(wall.Seconds()),
		"violations":  violations,
	}
	os.MkdirAll(filepath.Join(outRoot(root), "evidence"), 0o755)
	b, _ := json.MarshalIndent(ev, "", " ")
	os.WriteFile(filepath.Join(outRoot(root), "evidence", prop+".json"), b, 0o644)
}

func round1(f float64) float64 { return float64(int(f*10+0.5)) / 10 }

// ---------------------------------------------------------------------
// native replay

func findHarnessSpec(ps propSpec, name string) *harnessSpec {
	for i := range ps.Harnesses {
		if ps.Harnesses[i].Func == name {
			return &ps.Harnesses[i]
		}
	}
	return nil
}

// nativeReplay compiles the harness with the native vf package and runs it on
// the recorded inputs.  Returns "reproduced", "passed", "vacuous", "build-failed", ...
func nativeReplay(root string, ps propSpec, v *violation, replayPath string) string {
	h := findHarnessSpec(ps, v.Harness)
	if h == nil {
		return "no-spec"
	}
	loops, repeats := 1, 8
	if h.Interleave {
		loops, repeats = 20000, 3
	}
	st := nativeReplayLoops(root, h.Module, h.Pkg, v.Harness, v.Label, v.Kind, replayPath, repeats, loops)
	if h.Interleave {
		// the native schedule is not controlled: any failure of the harness on
		// these inputs (another assertion, a panic, a hang) confirms the violation
		switch st {
		case "panic", "deadlock", "other-assertion", "reproduced-other-label":
			return "reproduced"
		}
	}
	return st
}

func nativeReplayRaw(root, module, pkg, harness, label, kind, replayPath string, repeats int) string {
	return nativeReplayLoops(root, module, pkg, harness, label, kind, replayPath, repeats, 1)
}

func nativeReplayLoops(root, module, pkg, harness, label, kind, replayPath string, repeats, loops int) string {
	ov, err := buildOverlay(root, module)
	if err != nil {
		return "overlay-error"
	}
	droppedMu.Lock()
	for f := range droppedOverlayFiles {
		delete(ov, f)
	}
	droppedMu.Unlock()
	scratch, err := os.MkdirTemp("/dev/shm", "gosym-replay-")
	if err != nil {
		scratch, _ = os.MkdirTemp("", "gosym-replay-")
	}
	defer os.RemoveAll(scratch)
	// package directory of pkg inside the module
	modPath := map[string]string{"client": "github.com/orda-io/orda/client", "server": "github.com/orda-io/orda/server", "serverreal": "github.com/orda-io/orda/server"}[module]
	rel := strings.TrimPrefix(pkg, modPath)
	pkgDir := filepath.Join(repoRoot, moduleDir(module), rel)
	pkgName := filepath.Base(pkg)
	if pn := packageNameOf(ov, pkgDir); pn != "" {
		pkgName = pn
	}
	testSrc := fmt.Sprintf(`package %s

import (
	"fmt"
	"os"
	"strconv"
	"testing"
	"time"

	"github.com/orda-io/orda/client/pkg/vf"
)

func vfOnce() (res string) {
	defer func() {
		r := recover()
		switch x := r.(type) {
		case nil:
			res = "passed"
		case vf.Failed:
			res = "failed " + x.Label
		case vf.Vacuous:
			res = "vacuous " + x.Why
		default:
			res = fmt.Sprintf("panic %%v", r)
		}
	}()
	vf.Reset()
	%s()
	return
}

func TestVFReplay(t *testing.T) {
	// schedule-dependent counterexamples are retried (the native scheduler is not controlled)
	loops, _ := strconv.Atoi(os.Getenv("VF_LOOPS"))
	if loops < 1 {
		loops = 1
	}
	start := time.Now()
	res := "passed"
	for i := 0; i < loops && time.Since(start) < 15*time.Second; i++ {
		res = vfOnce()
		if res != "passed" {
			break
		}
	}
	fmt.Println("VF-RESULT: " + res)
}
`, pkgName, harness)
	if loops > 1 {
		addYieldOverlay(ov, scratch, yieldDirs(module))
	}
	if replayHasClock(replayPath) {
		// the counterexample depends on what the clock read: the server packages read the recorded instants
		addClockOverlay(ov, scratch, []string{"server/schema", "server/service", "server/snapshot", "server/utils", "server/mongodb"})
	}
	testFile := filepath.Join(scratch, "zz_vf_replay_test.go")
	os.WriteFile(testFile, []byte(testSrc), 0o644)
	ov[filepath.Join(pkgDir, "zz_vf_replay_test.go")] = testFile
	ovJSON := filepath.Join(scratch, "overlay.json")
	b, _ := json.Marshal(map[string]interface{}{"Replace": ov})
	os.WriteFile(ovJSON, b, 0o644)

	bin := filepath.Join(scratch, "replay.test")
	env := append(os.Environ(), "GOFLAGS=-mod=mod", "GOPROXY=off", "GOSUMDB=off", "GOTOOLCHAIN=local", "VF_REPLAY="+replayPath, fmt.Sprintf("VF_LOOPS=%d", loops), fmt.Sprintf("VF_TIER=%d", currentTier))
	build := osexec.Command("go", "test", "-c", "-vet=off", "-overlay", ovJSON, "-o", bin, pkg)
	build.Dir = filepath.Join(repoRoot, moduleDir(module))
	build.Env = env
	if out, err := build.CombinedOutput(); err != nil {
		return "build-failed: " + firstLine(string(out))
	}
	last := "passed"
	for i := 0; i < repeats; i++ {
		run := osexec.Command(bin, "-test.run", "^TestVFReplay$", "-test.timeout", "20s", "-test.count", "1")
		run.Dir = pkgDir
		run.Env = env
		out, _ := run.CombinedOutput()
		txt := string(out)
		res := "passed"
		switch {
		case strings.Contains(txt, "VF-RESULT: failed "+label):
			res = "reproduced"
		case strings.Contains(txt, "VF-RESULT: failed"):
			res = "other-assertion"
			if kind == "assert" {
				res = "reproduced-other-label"
			}
		case strings.Contains(txt, "VF-RESULT: vacuous"):
			res = "vacuous"
		case strings.Contains(txt, "VF-RESULT: panic"), strings.Contains(txt, "panic:") && !strings.Contains(txt, "test timed out"), strings.Contains(txt, "fatal error:") && !strings.Contains(txt, "all goroutines are asleep"):
			res = "panic"
			if kind == "panic" {
				res = "reproduced"
			}
		case strings.Contains(txt, "test timed out"), strings.Contains(txt, "all goroutines are asleep"):
			res = "deadlock"
			if kind == "deadlock" {
				res = "reproduced"
			}
		}
		if res == "reproduced" {
			return res
		}
		last = res
		if res == "vacuous" {
			break
		}
	}
	return last
}

func replayHasClock(path string) bool {
	var rec struct {
		Inputs []struct {
			Kind string `json:"kind"`
		} `json:"inputs"`
	}
	if readJSON(path, &rec) != nil {
		return false
	}
	for _, in := range rec.Inputs {
		if in.Kind == "clock" {
			return true
		}
	}
	return false
}

// yieldDirs: the packages whose statements become scheduling points in the
// native replay of an interleaving counterexample.
func yieldDirs(module string) []string {
	if module == "serverreal" {
		return []string{"server/mongodb", "server/schema"}
	}
	if module == "server" {
		return []string{"server/utils", "server/service", "server/snapshot", "server/managers", "server/notification",
			"client/pkg/internal/datatypes", "client/pkg/internal/managers", "client/pkg/orda/client.go"}
	}
	return []string{"client/pkg/internal/datatypes", "client/pkg/internal/managers", "client/pkg/orda/client.go"}
}

func packageNameOf(ov map[string]string, dir string) string {
	ents, _ := os.ReadDir(dir)
	for _, e := range ents {
		if strings.HasSuffix(e.Name(), ".go") && !strings.HasSuffix(e.Name(), "_test.go") {
			p := filepath.Join(dir, e.Name())
			if r, ok := ov[p]; ok {
				p = r
			}
			for _, line := range strings.Split(readFileString(p), "\n") {
				if strings.HasPrefix(line, "package ") {
					return strings.TrimSpace(strings.TrimPrefix(line, "package "))
				}
			}
		}
	}
	return ""
}

func cmdReplay(args []string) int {
	if len(args) < 1 {
		fmt.Println("usage: gosym replay <replay.json>")
		return 2
	}
	var rec struct {
		Property string `json:"property"`
		Harness  string `json:"harness"`
		Label    string `json:"label"`
		Kind     string `json:"kind"`
		Tier     int    `json:"tier"`
	}
	if err := readJSON(args[0], &rec); err != nil {
		fmt.Println(err)
		return 2
	}
	currentTier = rec.Tier
	root := verifRoot()
	var props map[string]propSpec
	readJSON(filepath.Join(root, "harness", "props.json"), &props)
	ps := props[rec.Property]
	h := findHarnessSpec(ps, rec.Harness)
	if h == nil {
		fmt.Println("unknown harness", rec.Harness)
		return 2
	}
	abs, _ := filepath.Abs(args[0])
	st := nativeReplayRaw(root, h.Module, h.Pkg, rec.Harness, rec.Label, rec.Kind, abs, 8)
	fmt.Println("native replay:", st)
	if st == "reproduced" {
		return 1
	}
	return 0
}

func cmdValidate(args []string) int { return 0 }
