package main

// Summarisation of pure, loop-free scalar functions (Timestamp.Compare,
// harness predicates): instead of forking the path at every branch inside the
// callee, all its syntactic paths are executed locally and the results merged
// into one if-then-else term.  No solver query is needed; infeasible local
// paths only contribute dead ite arms.

import (
	"go/token"
	"go/types"

	"golang.org/x/tools/go/ssa"
)

type localCtx struct {
	prefix []bool
	trace  []bool
	conds  []*Term
}

type localBail struct{ why string }

func (lc *localCtx) decide(c *Term) bool {
	i := len(lc.trace)
	var d bool
	if i < len(lc.prefix) {
		d = lc.prefix[i]
	} else {
		d = true
	}
	lc.trace = append(lc.trace, d)
	if d {
		lc.conds = append(lc.conds, c)
	} else {
		lc.conds = append(lc.conds, tNot(c))
	}
	if len(lc.trace) > 24 {
		panic(localBail{"too many branches in summarised function"})
	}
	return d
}

// summarize runs fn locally over all its branch combinations.  ok=false means
// the function could not be summarised (panic, non-scalar result, ...) and the
// caller must execute it normally.
func (ex *exec) summarize(caller *frame, callpos token.Pos, fn *ssa.Function, args []value, env []value) (result value, ok bool) {
	if ex.local != nil {
		return nil, false // already inside a summary: just run inline (decisions are local anyway)
	}
	res := fn.Signature.Results()
	if res.Len() != 1 {
		return nil, false
	}
	rt := res.At(0).Type()
	if _, isBasic := rt.Underlying().(*types.Basic); !isBasic {
		return nil, false
	}
	type outcome struct {
		cond *Term
		val  value
	}
	var outs []outcome
	work := [][]bool{nil}
	savedSteps := ex.steps
	bail := false
	for len(work) > 0 && !bail {
		prefix := work[len(work)-1]
		work = work[:len(work)-1]
		lc := &localCtx{prefix: prefix}
		ex.local = lc
		var v value
		func() {
			defer func() {
				ex.local = nil
				if r := recover(); r != nil {
					if _, isBail := r.(localBail); isBail {
						bail = true
						return
					}
					if _, isTP := r.(targetPanic); isTP {
						bail = true
						return
					}
					panic(r)
				}
			}()
			v = callSSABody(ex, caller, callpos, fn, args, env)
		}()
		if bail {
			break
		}
		cond := tTrue
		for _, c := range lc.conds {
			cond = tAnd(cond, c)
		}
		outs = append(outs, outcome{cond, v})
		for i := len(prefix); i < len(lc.trace); i++ {
			alt := make([]bool, i+1)
			copy(alt, lc.trace[:i])
			alt[i] = !lc.trace[i]
			work = append(work, alt)
		}
		if len(outs) > 256 {
			bail = true
		}
	}
	if bail {
		ex.steps = savedSteps
		return nil, false
	}
	s := sortOfType(rt)
	acc := lift(outs[len(outs)-1].val, s)
	for i := len(outs) - 2; i >= 0; i-- {
		acc = tIte(outs[i].cond, lift(outs[i].val, s), acc)
	}
	return fromTerm(rt, acc), true
}
