package main

// Path exploration: stateless depth-first search over decision prefixes,
// spread over worker goroutines that each own a solver process.

import (
	"fmt"
	"go/token"
	"os"
	"sort"
	"strings"
	"sync"
	"time"

	"golang.org/x/tools/go/ssa"
)

type runConfig struct {
	Harness       string
	Tier          int // 0 quick, 1 thorough
	Workers       int
	MaxDecisions  int
	MaxConcretize int
	MaxSteps      int
	MaxPermute    int
	MaxPaths      int
	SolverKind    string
	SolverTimeout int
	FallbackKind  string
	Verbose       bool
	Trace         bool
	Interleave    bool
	preemptFns    map[string]bool
	Seed          int64
	Deadline      time.Time
}

type harnessResult struct {
	Harness         string
	Paths           int
	Outcomes        map[string]int
	Violations      []*violation
	Inconclusive    []string
	Reached         map[string]int
	AssertsUnsat    int
	AssertsTriv     int
	Funcs           map[string]bool
	Queries         int
	FallbackQueries int
	SolverSat       int
	SolverUnsat     int
	SolverUnk       int
	SolverErrs      int
	SolverTime      time.Duration
	Wall            time.Duration
	Samples         [][]replayInput
	Complete        bool
	MaxTrace        int
	Steps           int64
}

func runPath(p *program, cfg *runConfig, solver *Solver, fallback func() *Solver, entry *ssa.Function, prefix []dec) (res pathResult) {
	solver.Reset()
	ex := &exec{
		cfg: cfg, solver: solver, prog: p, prefix: prefix,
		reached: map[string]bool{}, tags: map[string]string{}, funcs: map[string]bool{},
		concCount: map[string]int{}, mstates: map[*value]*mstate{}, syncMaps: map[*value]*gmap{},
		globals: map[*ssa.Global]*value{}, inited: map[*ssa.Package]bool{},
		fallback: fallback,
		exitAck:  make(chan struct{}), known: map[*Term]bool{}, ubounds: map[*Term]uint64{}, lbounds: map[*Term]uint64{}, fromInts: map[*Term]*Term{}, blobOf: map[*Term]*jsonBlob{},
	}
	mainG := &gor{id: 0, wake: make(chan struct{}), main: true}
	ex.gors = []*gor{mainG}
	ex.cur = mainG
	finish := func(a abort) {
		ex.killAll()
		res = pathResult{outcome: a, forks: ex.forks, trace: ex.trace, reached: ex.reached,
			violation: ex.violation, asserts: ex.asserts, assertsTrv: ex.assertsTrv,
			inconcl: ex.inconcl, steps: ex.steps, funcs: ex.funcs, nInputs: len(ex.inputs), tags: ex.tags}
		if a.kind == "done" && len(ex.inputs) > 0 && cfg.wantSample() {
			if r, ins := ex.modelInputs(nil); r == "sat" {
				res.samples = ins
			}
		}
	}
	defer func() {
		r := recover()
		if r == nil {
			return
		}
		switch a := r.(type) {
		case abort:
			if a.kind == "deadlock" || a.kind == "panic" {
				// turn into a violation record (with model) unless already one
				if ex.violation == nil {
					func() {
						defer func() { recover() }()
						ex.recordViolation(a.kind, a.kind, a.msg, nil)
					}()
				}
				finish(abort{"violation", a.kind + ": " + a.msg})
				return
			}
			finish(a)
		case targetPanic:
			msg := "unrecovered panic: " + panicText(ex, a) + " at" + ex.panicSite
			if ex.violation == nil {
				func() {
					defer func() { recover() }()
					ex.recordViolation("panic", "panic", msg, nil)
				}()
			}
			finish(abort{"violation", msg})
		default:
			finish(abort{"engine", fmt.Sprintf("engine panic: %v", r)})
		}
	}()
	res.retval = call(ex, nil, token.NoPos, entry, nil)
	rv := res.retval
	defer func() { res.retval = rv }()
	if ex.pendingAbort != nil {
		panic(*ex.pendingAbort)
	}
	finish(abort{"done", ""})
	return
}

func panicText(ex *exec, p targetPanic) string {
	if it, ok := p.v.(iface); ok && it.t != nil {
		if s, ok := it.v.(string); ok {
			return s
		}
		if m := ex.findMethod(it.t, "Error"); m != nil {
			var out string
			func() {
				defer func() { recover() }()
				if s, ok := call(ex, nil, 0, m, []value{it.v}).(string); ok {
					out = s
				}
			}()
			if out != "" {
				return out
			}
		}
	}
	return toString(p.v)
}

var sampleCounter int64
var sampleMu sync.Mutex

func (c *runConfig) wantSample() bool {
	sampleMu.Lock()
	defer sampleMu.Unlock()
	sampleCounter++
	return sampleCounter <= 3
}

func explore(p *program, cfg *runConfig, entry *ssa.Function) *harnessResult {
	t0 := time.Now()
	hr := &harnessResult{Harness: cfg.Harness, Outcomes: map[string]int{}, Reached: map[string]int{}, Funcs: map[string]bool{}}
	sampleMu.Lock()
	sampleCounter = 0
	sampleMu.Unlock()

	var mu sync.Mutex
	cond := sync.NewCond(&mu)
	work := [][]dec{startPrefix}
	inflight := 0
	stopped := false
	seenViol := map[string]bool{}

	worker := func(id int) {
		solver, err := NewSolver(cfg.SolverKind, cfg.SolverTimeout)
		if err != nil {
			mu.Lock()
			hr.Inconclusive = append(hr.Inconclusive, "cannot start solver: "+err.Error())
			stopped = true
			cond.Broadcast()
			mu.Unlock()
			return
		}
		var fb *Solver
		getFallback := func() *Solver {
			if fb == nil && cfg.FallbackKind != "" {
				fb, _ = NewSolver(cfg.FallbackKind, cfg.SolverTimeout)
			}
			return fb
		}
		defer func() {
			if fb != nil {
				mu.Lock()
				hr.FallbackQueries += fb.Queries
				hr.SolverTime += fb.SolveTime
				mu.Unlock()
				fb.Close()
			}
		}()
		if smtLogPath != "" {
			f, _ := os.Create(fmt.Sprintf("%s.%d", smtLogPath, id))
			solver.log = f
			defer f.Close()
		}
		defer func() {
			mu.Lock()
			hr.Queries += solver.Queries
			hr.SolverSat += solver.Sat
			hr.SolverUnsat += solver.Unsat
			hr.SolverUnk += solver.Unknown
			hr.SolverErrs += solver.Errors
			hr.SolverTime += solver.SolveTime
			mu.Unlock()
			solver.Close()
		}()
		for {
			mu.Lock()
			for len(work) == 0 && inflight > 0 && !stopped {
				cond.Wait()
			}
			if stopped || (len(work) == 0 && inflight == 0) {
				cond.Broadcast()
				mu.Unlock()
				return
			}
			prefix := work[len(work)-1]
			work = work[:len(work)-1]
			inflight++
			mu.Unlock()

			res := runPath(p, cfg, solver, getFallback, entry, prefix)

			mu.Lock()
			inflight--
			hr.Paths++
			hr.Outcomes[res.outcome.kind]++
			hr.Steps += int64(res.steps)
			if len(res.trace) > hr.MaxTrace {
				hr.MaxTrace = len(res.trace)
			}
			for k := range res.reached {
				hr.Reached[k]++
			}
			for k := range res.funcs {
				hr.Funcs[k] = true
			}
			hr.AssertsUnsat += res.asserts
			hr.AssertsTriv += res.assertsTrv
			for _, m := range res.inconcl {
				hr.Inconclusive = appendUnique(hr.Inconclusive, m)
			}
			switch res.outcome.kind {
			case "unsupported", "unwind", "engine":
				hr.Inconclusive = appendUnique(hr.Inconclusive, res.outcome.String())
			case "violation":
				if res.violation != nil {
					key := res.violation.Label + "|" + tagKey(res.violation.Tags)
					if !seenViol[key] {
						seenViol[key] = true
						hr.Violations = append(hr.Violations, res.violation)
					}
				} else {
					hr.Inconclusive = appendUnique(hr.Inconclusive, "violation without record: "+res.outcome.msg)
				}
			}
			if res.samples != nil && len(hr.Samples) < 3 {
				hr.Samples = append(hr.Samples, res.samples)
			}
			work = append(work, res.forks...)
			if hr.Paths >= cfg.MaxPaths || (!cfg.Deadline.IsZero() && time.Now().After(cfg.Deadline)) {
				if (len(work) > 0 || inflight > 0) && !stopped {
					hr.Inconclusive = appendUnique(hr.Inconclusive, fmt.Sprintf("exploration stopped after %d paths (budget); %d prefixes unexplored", hr.Paths, len(work)))
				}
				stopped = true
			}
			if cfg.Verbose && hr.Paths%200 == 0 {
				fmt.Fprintf(os.Stderr, "  [%s] %d paths, %d queued\n", cfg.Harness, hr.Paths, len(work))
			}
			cond.Broadcast()
			mu.Unlock()
		}
	}
	var wg sync.WaitGroup
	for i := 0; i < cfg.Workers; i++ {
		wg.Add(1)
		go func(i int) { defer wg.Done(); worker(i) }(i)
	}
	wg.Wait()
	hr.Complete = len(work) == 0 && !stopped
	hr.Wall = time.Since(t0)
	sort.Slice(hr.Violations, func(i, j int) bool { return hr.Violations[i].Label < hr.Violations[j].Label })
	return hr
}

func appendUnique(l []string, s string) []string {
	for _, x := range l {
		if x == s {
			return l
		}
	}
	if len(l) >= 40 {
		return l
	}
	return append(l, s)
}

func tagKey(m map[string]string) string {
	var ks []string
	for k := range m {
		if strings.HasPrefix(k, "_") {
			continue // informational tag: not part of the violation's class
		}
		ks = append(ks, k)
	}
	sort.Strings(ks)
	s := ""
	for _, k := range ks {
		s += k + "=" + m[k] + ";"
	}
	return s
}
