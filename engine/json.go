package main

// Structural model of encoding/json.  Marshal turns a typed engine value into
// an abstract JSON tree carried by an opaque []byte ("blob"); Unmarshal walks a
// tree into a typed destination.  Struct tags, exported-ness, omitempty,
// embedded structs, Marshaler/Unmarshaler dispatch (the repo's own methods are
// executed symbolically), []byte leaves, maps, nil<->null and
// number->float64 for interface{} destinations are honoured.  Byte-level
// fidelity (UTF-8, number text, base64) is trusted, not modelled.

import (
	"bytes"
	"encoding/base64"
	"encoding/json"
	"fmt"
	"go/types"
	"math"
	"reflect"
	"sort"
	"strconv"
	"strings"

	"golang.org/x/tools/go/ssa"
)

type jkind int

const (
	jNull jkind = iota
	jBool
	jNum
	jStr
	jArr
	jObj
	jB64 // []byte leaf: either concrete bytes or a nested blob
	jOpaque // BSON only: a leaf kept as the Go value it came from (time.Time)
)

type jnode struct {
	k    jkind
	val  value      // bool / number / string payload (concrete or symv)
	gt   types.Type // Go type the number came from (nil: parsed text => float64)
	arr  []*jnode
	keys []value // object keys (string or symv), in emission order
	vals []*jnode
	b64  []value // jB64 payload ([]byte engine slice, may hold a blob)
}

type jsonBlob struct {
	tree   *jnode
	rawStr *Term // []byte(symbolic string)
}

func (jb *jsonBlob) concreteText() (string, bool) {
	if jb.tree == nil {
		if jb.rawStr != nil && jb.rawStr.IsConst() {
			return jb.rawStr.Str, true
		}
		return "", false
	}
	var b bytes.Buffer
	if !jb.tree.render(&b) {
		return "", false
	}
	return b.String(), true
}

func (n *jnode) render(b *bytes.Buffer) bool {
	switch n.k {
	case jNull:
		b.WriteString("null")
	case jBool:
		v, ok := n.val.(bool)
		if !ok {
			return false
		}
		b.WriteString(strconv.FormatBool(v))
	case jNum:
		switch v := n.val.(type) {
		case symv:
			return false
		case float64:
			bs, err := json.Marshal(v)
			if err != nil {
				return false
			}
			b.Write(bs)
		case float32:
			bs, _ := json.Marshal(v)
			b.Write(bs)
		case json.Number:
			b.WriteString(string(v))
		default:
			fmt.Fprintf(b, "%d", v)
		}
	case jStr:
		s, ok := n.val.(string)
		if !ok {
			return false
		}
		bs, _ := json.Marshal(s)
		b.Write(bs)
	case jArr:
		b.WriteByte('[')
		for i, e := range n.arr {
			if i > 0 {
				b.WriteByte(',')
			}
			if !e.render(b) {
				return false
			}
		}
		b.WriteByte(']')
	case jObj:
		b.WriteByte('{')
		for i, k := range n.keys {
			if i > 0 {
				b.WriteByte(',')
			}
			ks, ok := k.(string)
			if !ok {
				return false
			}
			bs, _ := json.Marshal(ks)
			b.Write(bs)
			b.WriteByte(':')
			if !n.vals[i].render(b) {
				return false
			}
		}
		b.WriteByte('}')
	case jB64:
		if len(n.b64) == 1 {
			if _, ok := n.b64[0].(*jsonBlob); ok {
				inner, ok2 := n.b64[0].(*jsonBlob).concreteText()
				if !ok2 {
					return false
				}
				bs, _ := json.Marshal([]byte(inner))
				b.Write(bs)
				return true
			}
		}
		raw := make([]byte, len(n.b64))
		for i, v := range n.b64 {
			bb, ok := v.(byte)
			if !ok {
				return false
			}
			raw[i] = bb
		}
		bs, _ := json.Marshal(raw)
		b.Write(bs)
	}
	return true
}

func blobValue(n *jnode) value { return []value{&jsonBlob{tree: n}} }

func asBlob(v value) *jsonBlob {
	if sl, ok := v.([]value); ok && len(sl) == 1 {
		if jb, ok2 := sl[0].(*jsonBlob); ok2 {
			return jb
		}
	}
	return nil
}

// ---------------------------------------------------------------------
// Marshal

type jsonErr struct{ msg string }

func (ex *exec) jsonMarshal(fr *frame, v iface) (res value, errv value) {
	defer func() {
		if r := recover(); r != nil {
			if je, ok := r.(jsonErr); ok {
				res, errv = []value(nil), ex.mkError("json: "+je.msg)
				return
			}
			panic(r)
		}
	}()
	if v.t == nil {
		return blobValue(&jnode{k: jNull}), iface{}
	}
	n := ex.jmarshal(fr, v.t, v.v, nil, false)
	return blobValue(n), iface{}
}

func (ex *exec) findMethod(t types.Type, name string) *ssa.Function {
	ms := ex.prog.prog.MethodSets.MethodSet(t)
	for i := 0; i < ms.Len(); i++ {
		if ms.At(i).Obj().Name() == name {
			return ex.prog.prog.MethodValue(ms.At(i))
		}
	}
	return nil
}

func isMarshalerSig(f *ssa.Function) bool {
	sig := f.Signature
	return sig.Params().Len() == 0 && sig.Results().Len() == 2
}

func (ex *exec) jmarshal(fr *frame, t types.Type, v value, addr *value, addressable bool) *jnode {
	// Marshaler dispatch
	if _, isIface := t.Underlying().(*types.Interface); !isIface {
		if p, isPtr := v.(*value); isPtr && p == nil && isPointer(t) {
			return &jnode{k: jNull}
		}
		if m := ex.findMethod(t, "MarshalJSON"); m != nil && isMarshalerSig(m) {
			return ex.callMarshaler(fr, m, v)
		}
		if addressable && addr != nil {
			pt := types.NewPointer(t)
			if m := ex.findMethod(pt, "MarshalJSON"); m != nil && isMarshalerSig(m) {
				return ex.callMarshaler(fr, m, addr)
			}
		}
	}
	switch u := t.Underlying().(type) {
	case *types.Basic:
		switch {
		case u.Info()&types.IsBoolean != 0:
			return &jnode{k: jBool, val: v}
		case u.Info()&types.IsString != 0:
			return &jnode{k: jStr, val: v}
		case u.Info()&types.IsNumeric != 0:
			if f, ok := v.(float64); ok && (math.IsNaN(f) || math.IsInf(f, 0)) {
				panic(jsonErr{"unsupported value: " + strconv.FormatFloat(f, 'g', -1, 64)})
			}
			return &jnode{k: jNum, val: v, gt: t}
		}
	case *types.Pointer:
		p := v.(*value)
		if p == nil {
			return &jnode{k: jNull}
		}
		return ex.jmarshal(fr, u.Elem(), load(u.Elem(), p), p, true)
	case *types.Interface:
		it := v.(iface)
		if it.t == nil {
			return &jnode{k: jNull}
		}
		return ex.jmarshal(fr, it.t, it.v, nil, false)
	case *types.Slice:
		sl := v.([]value)
		if eb, ok := u.Elem().Underlying().(*types.Basic); ok && eb.Kind() == types.Byte {
			if sl == nil {
				return &jnode{k: jNull}
			}
			return &jnode{k: jB64, b64: sl}
		}
		if sl == nil {
			return &jnode{k: jNull}
		}
		n := &jnode{k: jArr, arr: []*jnode{}}
		for i := range sl {
			n.arr = append(n.arr, ex.jmarshal(fr, u.Elem(), load(u.Elem(), &sl[i]), &sl[i], true))
		}
		return n
	case *types.Array:
		a := v.(array)
		n := &jnode{k: jArr, arr: []*jnode{}}
		for i := range a {
			n.arr = append(n.arr, ex.jmarshal(fr, u.Elem(), a[i], nil, false))
		}
		return n
	case *types.Map:
		m := v.(*gmap)
		if m == nil {
			return &jnode{k: jNull}
		}
		if kb, ok := u.Key().Underlying().(*types.Basic); !ok || kb.Info()&types.IsString == 0 {
			ex.unsupported("json.Marshal of map with non-string key %s", u.Key())
		}
		ents := m.liveEntries()
		allConc := true
		for _, e := range ents {
			if _, ok := e.k.(string); !ok {
				allConc = false
			}
		}
		if allConc {
			sort.SliceStable(ents, func(i, j int) bool { return ents[i].k.(string) < ents[j].k.(string) })
		}
		n := &jnode{k: jObj}
		for _, e := range ents {
			n.keys = append(n.keys, e.k)
			n.vals = append(n.vals, ex.jmarshal(fr, u.Elem(), e.v, nil, false))
		}
		return n
	case *types.Struct:
		st := v.(structure)
		n := &jnode{k: jObj}
		ex.jmarshalStruct(fr, u, st, n, addressable)
		return n
	}
	panic(jsonErr{"unsupported type: " + t.String()})
}

func isPointer(t types.Type) bool { _, ok := t.Underlying().(*types.Pointer); return ok }

type jfield struct {
	name      string
	omitEmpty bool
	skip      bool
	asString  bool
}

func parseJSONTag(f *types.Var, tag string) jfield {
	jf := jfield{name: f.Name()}
	if !f.Exported() && !f.Embedded() {
		jf.skip = true
		return jf
	}
	t := reflect.StructTag(tag).Get("json")
	if t == "-" {
		jf.skip = true
		return jf
	}
	parts := strings.Split(t, ",")
	if parts[0] != "" {
		jf.name = parts[0]
	}
	for _, o := range parts[1:] {
		switch o {
		case "omitempty":
			jf.omitEmpty = true
		case "string":
			jf.asString = true
		}
	}
	return jf
}

func (ex *exec) isEmptyValue(t types.Type, v value) bool {
	switch x := v.(type) {
	case symv:
		return false // model: a symbolic scalar is emitted; equivalent after typed decoding
	case bool:
		return !x
	case string:
		return x == ""
	case *value:
		return x == nil
	case iface:
		return x.t == nil
	case []value:
		return len(x) == 0
	case *gmap:
		return x.len() == 0
	case array:
		return len(x) == 0
	case float64:
		return x == 0
	case float32:
		return x == 0
	case structure:
		return false
	}
	if _, _, ok := intInfo(t); ok {
		return asInt64(v) == 0
	}
	return false
}

func (ex *exec) jmarshalStruct(fr *frame, u *types.Struct, st structure, n *jnode, addressable bool) {
	for i := 0; i < u.NumFields(); i++ {
		f := u.Field(i)
		jf := parseJSONTag(f, u.Tag(i))
		if jf.skip {
			continue
		}
		ft := f.Type()
		if f.Embedded() && reflect.StructTag(u.Tag(i)).Get("json") == "" {
			// embedded struct (or pointer to struct): promote its fields
			et := ft
			ev := st[i]
			if pt, ok := et.Underlying().(*types.Pointer); ok {
				p := ev.(*value)
				if p == nil {
					continue
				}
				et = pt.Elem()
				ev = load(et, p)
			}
			if es, ok := et.Underlying().(*types.Struct); ok {
				if m := ex.findMethod(ft, "MarshalJSON"); m == nil {
					ex.jmarshalStruct(fr, es, ev.(structure), n, addressable)
					continue
				}
			} else if !f.Exported() {
				continue
			}
		}
		if jf.omitEmpty && ex.isEmptyValue(ft, st[i]) {
			continue
		}
		var addr *value
		if addressable {
			addr = &st[i]
		}
		child := ex.jmarshal(fr, ft, st[i], addr, addressable)
		n.keys = append(n.keys, jf.name)
		n.vals = append(n.vals, child)
	}
}

func (ex *exec) callMarshaler(fr *frame, m *ssa.Function, recv value) *jnode {
	r := call(ex, fr, 0, m, []value{recv}).(tuple)
	if e := r[1].(iface); e.t != nil {
		panic(jsonErr{"error calling MarshalJSON"})
	}
	if jb := asBlob(r[0]); jb != nil {
		if jb.tree != nil {
			return jb.tree
		}
	}
	// concrete bytes returned by a marshaler
	txt := bytesToString(fr, r[0].([]value))
	s, ok := txt.(string)
	if !ok {
		ex.unsupported("MarshalJSON returned symbolic text")
	}
	n, err := parseJSONText(s)
	if err != nil {
		panic(jsonErr{"invalid JSON from MarshalJSON: " + err.Error()})
	}
	return n
}

// ---------------------------------------------------------------------
// parsing concrete text

func parseJSONText(s string) (*jnode, error) {
	dec := json.NewDecoder(strings.NewReader(s))
	dec.UseNumber()
	var x interface{}
	if err := dec.Decode(&x); err != nil {
		return nil, err
	}
	if dec.More() {
		return nil, fmt.Errorf("invalid character after top-level value")
	}
	// json.Decoder tolerates trailing whitespace only
	var probe interface{}
	if err := json.Unmarshal([]byte(s), &probe); err != nil {
		return nil, err
	}
	return fromGoJSON(x, s), nil
}

// fromGoJSON converts a decoded generic value; object key order follows the text.
func fromGoJSON(x interface{}, src string) *jnode {
	switch v := x.(type) {
	case nil:
		return &jnode{k: jNull}
	case bool:
		return &jnode{k: jBool, val: v}
	case json.Number:
		f, _ := v.Float64()
		return &jnode{k: jNum, val: f}
	case string:
		return &jnode{k: jStr, val: v}
	case []interface{}:
		n := &jnode{k: jArr, arr: []*jnode{}}
		for _, e := range v {
			n.arr = append(n.arr, fromGoJSON(e, ""))
		}
		return n
	case map[string]interface{}:
		n := &jnode{k: jObj}
		keys := make([]string, 0, len(v))
		for k := range v {
			keys = append(keys, k)
		}
		sort.Strings(keys)
		for _, k := range keys {
			n.keys = append(n.keys, k)
			n.vals = append(n.vals, fromGoJSON(v[k], ""))
		}
		return n
	}
	panic("fromGoJSON")
}

func (ex *exec) treeOf(fr *frame, data value) (*jnode, value) {
	if jb := asBlob(data); jb != nil {
		if jb.tree != nil {
			return jb.tree, nil
		}
		if jb.rawStr != nil {
			ex.unsupported("json.Unmarshal of symbolic text")
		}
	}
	s, ok := bytesToString(fr, data.([]value)).(string)
	if !ok {
		ex.unsupported("json.Unmarshal of symbolic text")
	}
	n, err := parseJSONText(s)
	if err != nil {
		return nil, ex.mkError(err.Error())
	}
	return n, nil
}

// ---------------------------------------------------------------------
// Unmarshal

func (ex *exec) jsonUnmarshal(fr *frame, data value, dst iface) (errv value) {
	defer func() {
		if r := recover(); r != nil {
			if je, ok := r.(jsonErr); ok {
				errv = ex.mkError("json: " + je.msg)
				return
			}
			panic(r)
		}
	}()
	n, e := ex.treeOf(fr, data)
	if e != nil {
		return e
	}
	if dst.t == nil {
		return ex.mkError("json: Unmarshal(nil)")
	}
	pt, ok := dst.t.Underlying().(*types.Pointer)
	if !ok {
		return ex.mkError("json: Unmarshal(non-pointer " + dst.t.String() + ")")
	}
	p := dst.v.(*value)
	if p == nil {
		return ex.mkError("json: Unmarshal(nil " + dst.t.String() + ")")
	}
	// the pointer itself may implement Unmarshaler
	if m := ex.findMethod(dst.t, "UnmarshalJSON"); m != nil && n.k != jNull {
		ex.callUnmarshaler(fr, m, p, n)
		return iface{}
	}
	ex.junmarshal(fr, n, pt.Elem(), p)
	return iface{}
}

func (ex *exec) callUnmarshaler(fr *frame, m *ssa.Function, recv value, n *jnode) {
	r := call(ex, fr, 0, m, []value{recv, blobValue(n)})
	if e, ok := r.(iface); ok && e.t != nil {
		msg := "error from UnmarshalJSON"
		if em := ex.findMethod(e.t, "Error"); em != nil {
			if s, ok := call(ex, fr, 0, em, []value{e.v}).(string); ok {
				msg = s
			}
		}
		panic(jsonErr{msg})
	}
}

func numToType(ex *exec, n *jnode, t types.Type) value {
	b := t.Underlying().(*types.Basic)
	w, signed, isInt := intInfo(t)
	switch v := n.val.(type) {
	case symv:
		if v.T.S.K == 'V' {
			if isInt {
				_, ssigned, _ := intInfo(n.gt)
				return fromTerm(t, tResize(v.T, w, ssigned))
			}
			_, ssigned, _ := intInfo(n.gt)
			if ssigned {
				return symv{mk("to_fp_s", sF64, v.T)}
			}
			return symv{mk("to_fp_u", sF64, v.T)}
		}
		// symbolic float
		if isInt {
			if signed {
				return symv{mk("fp_to_sbv", sBV(w), v.T)}
			}
			return symv{mk("fp_to_ubv", sBV(w), v.T)}
		}
		return v
	}
	var f float64
	var isIntegral bool
	var iv int64
	var uv uint64
	switch v := n.val.(type) {
	case float64:
		f = v
		isIntegral = v == math.Trunc(v) && math.Abs(v) < 1<<63
		iv = int64(v)
		uv = uint64(v)
	case float32:
		f = float64(v)
		isIntegral = f == math.Trunc(f)
		iv = int64(f)
		uv = uint64(f)
	default:
		if _, s, ok := intInfo(n.gt); ok {
			isIntegral = true
			if s {
				iv = asInt64(v)
				uv = uint64(iv)
				f = float64(iv)
			} else {
				uv = uint64(asInt64(v))
				iv = int64(uv)
				f = float64(uv)
			}
		} else {
			panic(fmt.Sprintf("numToType: %T", v))
		}
	}
	if isInt {
		if !isIntegral {
			panic(jsonErr{"cannot unmarshal number into Go value of type " + t.String()})
		}
		if signed {
			return fromTerm(t, tBV(w, uint64(iv)))
		}
		return fromTerm(t, tBV(w, uv))
	}
	if b.Kind() == types.Float32 {
		return float32(f)
	}
	return f
}

func (ex *exec) junmarshal(fr *frame, n *jnode, t types.Type, addr *value) {
	// Unmarshaler on *T
	if _, isIface := t.Underlying().(*types.Interface); !isIface && n.k != jNull {
		if m := ex.findMethod(types.NewPointer(t), "UnmarshalJSON"); m != nil {
			ex.callUnmarshaler(fr, m, addr, n)
			return
		}
	}
	switch u := t.Underlying().(type) {
	case *types.Pointer:
		if n.k == jNull {
			*addr = (*value)(nil)
			return
		}
		p, _ := (*addr).(*value)
		if p == nil {
			cell := zero(u.Elem())
			p = &cell
			*addr = p
		}
		if m := ex.findMethod(t, "UnmarshalJSON"); m != nil {
			ex.callUnmarshaler(fr, m, p, n)
			return
		}
		ex.junmarshal(fr, n, u.Elem(), p)
	case *types.Interface:
		if u.NumMethods() == 0 {
			if cur, ok := (*addr).(iface); ok && cur.t != nil && n.k != jNull {
				if pt, ok := cur.t.Underlying().(*types.Pointer); ok && cur.v.(*value) != nil {
					ex.junmarshal(fr, n, pt.Elem(), cur.v.(*value))
					return
				}
			}
			*addr = ex.jnatural(n)
			return
		}
		if n.k == jNull {
			*addr = iface{}
			return
		}
		panic(jsonErr{"cannot unmarshal into Go value of type " + t.String()})
	case *types.Basic:
		switch n.k {
		case jNull:
			return
		case jBool:
			if u.Info()&types.IsBoolean == 0 {
				panic(jsonErr{"cannot unmarshal bool into Go value of type " + t.String()})
			}
			*addr = n.val
		case jStr:
			if u.Info()&types.IsString == 0 {
				panic(jsonErr{"cannot unmarshal string into Go value of type " + t.String()})
			}
			*addr = n.val
		case jNum:
			if u.Info()&types.IsNumeric == 0 {
				panic(jsonErr{"cannot unmarshal number into Go value of type " + t.String()})
			}
			*addr = numToType(ex, n, t)
		default:
			panic(jsonErr{"cannot unmarshal " + kindName(n.k) + " into Go value of type " + t.String()})
		}
	case *types.Slice:
		if eb, ok := u.Elem().Underlying().(*types.Basic); ok && eb.Kind() == types.Byte {
			switch n.k {
			case jNull:
				*addr = []value(nil)
			case jB64:
				*addr = n.b64
			case jStr:
				s, ok := n.val.(string)
				if !ok {
					ex.unsupported("base64 of symbolic string")
				}
				raw, err := base64.StdEncoding.DecodeString(s)
				if err != nil {
					panic(jsonErr{"illegal base64 data"})
				}
				*addr = stringToBytes(string(raw))
			default:
				panic(jsonErr{"cannot unmarshal " + kindName(n.k) + " into Go value of type []byte"})
			}
			return
		}
		switch n.k {
		case jNull:
			*addr = []value(nil)
		case jArr:
			sl := make([]value, len(n.arr))
			for i := range sl {
				sl[i] = zero(u.Elem())
				ex.junmarshal(fr, n.arr[i], u.Elem(), &sl[i])
			}
			*addr = sl
		default:
			panic(jsonErr{"cannot unmarshal " + kindName(n.k) + " into Go value of type " + t.String()})
		}
	case *types.Array:
		if n.k == jNull {
			return
		}
		if n.k != jArr {
			panic(jsonErr{"cannot unmarshal " + kindName(n.k) + " into Go value of type " + t.String()})
		}
		a := (*addr).(array)
		for i := range a {
			if i < len(n.arr) {
				ex.junmarshal(fr, n.arr[i], u.Elem(), &a[i])
			} else {
				a[i] = zero(u.Elem())
			}
		}
	case *types.Map:
		switch n.k {
		case jNull:
			*addr = (*gmap)(nil)
		case jObj:
			m, _ := (*addr).(*gmap)
			if m == nil {
				m = makeMap(u.Key())
				*addr = m
			}
			for i, k := range n.keys {
				cell := zero(u.Elem())
				ex.junmarshal(fr, n.vals[i], u.Elem(), &cell)
				m.insert(ex, k, cell)
			}
		default:
			panic(jsonErr{"cannot unmarshal " + kindName(n.k) + " into Go value of type " + t.String()})
		}
	case *types.Struct:
		switch n.k {
		case jNull:
			return
		case jObj:
			st := (*addr).(structure)
			for i, k := range n.keys {
				ks, ok := k.(string)
				if !ok {
					ex.unsupported("symbolic object key decoded into a struct")
				}
				ex.jsetField(fr, u, st, ks, n.vals[i])
			}
		default:
			panic(jsonErr{"cannot unmarshal " + kindName(n.k) + " into Go value of type " + t.String()})
		}
	default:
		panic(jsonErr{"cannot unmarshal into Go value of type " + t.String()})
	}
}

func kindName(k jkind) string {
	return [...]string{"null", "bool", "number", "string", "array", "object", "string", "opaque"}[k]
}

// jsetField finds the struct field for key (exact, then case-insensitive), descending into embedded structs.
func (ex *exec) jsetField(fr *frame, u *types.Struct, st structure, key string, n *jnode) bool {
	pick := -1
	for pass := 0; pass < 2 && pick < 0; pass++ {
		for i := 0; i < u.NumFields(); i++ {
			f := u.Field(i)
			jf := parseJSONTag(f, u.Tag(i))
			if jf.skip || (f.Embedded() && reflect.StructTag(u.Tag(i)).Get("json") == "") {
				continue
			}
			if (pass == 0 && jf.name == key) || (pass == 1 && strings.EqualFold(jf.name, key)) {
				pick = i
				break
			}
		}
	}
	if pick >= 0 {
		ex.junmarshal(fr, n, u.Field(pick).Type(), &st[pick])
		return true
	}
	for i := 0; i < u.NumFields(); i++ {
		f := u.Field(i)
		if !f.Embedded() || reflect.StructTag(u.Tag(i)).Get("json") != "" {
			continue
		}
		et := f.Type()
		if pt, ok := et.Underlying().(*types.Pointer); ok {
			if es, ok := pt.Elem().Underlying().(*types.Struct); ok {
				p, _ := st[i].(*value)
				if p == nil {
					// allocate only if the key matches inside
					cell := zero(pt.Elem())
					if ex.jsetField(fr, es, cell.(structure), key, n) {
						st[i] = &cell
						return true
					}
					continue
				}
				if ex.jsetField(fr, es, (*p).(structure), key, n) {
					return true
				}
			}
			continue
		}
		if es, ok := et.Underlying().(*types.Struct); ok {
			if ex.jsetField(fr, es, st[i].(structure), key, n) {
				return true
			}
		}
	}
	return false
}

var emptyIface = types.NewInterfaceType(nil, nil)

// jnatural decodes into interface{}: bool, float64, string, []interface{}, map[string]interface{}, nil.
func (ex *exec) jnatural(n *jnode) value {
	switch n.k {
	case jNull:
		return iface{}
	case jBool:
		return iface{types.Typ[types.Bool], n.val}
	case jStr:
		return iface{types.Typ[types.String], n.val}
	case jNum:
		if ex.jsonUseNumber {
			// Decoder.UseNumber: the number keeps its decimal text
			var b bytes.Buffer
			if !n.render(&b) {
				ex.unsupported("json.Number of a symbolic number")
			}
			return iface{ex.prog.namedType("encoding/json", "Number"), b.String()}
		}
		return iface{types.Typ[types.Float64], numToType(ex, n, types.Typ[types.Float64])}
	case jArr:
		sl := make([]value, len(n.arr))
		for i, e := range n.arr {
			sl[i] = ex.jnatural(e)
		}
		return iface{types.NewSlice(emptyIface), sl}
	case jObj:
		m := makeMap(types.Typ[types.String])
		for i, k := range n.keys {
			m.insert(ex, k, ex.jnatural(n.vals[i]))
		}
		return iface{types.NewMap(types.Typ[types.String], emptyIface), m}
	case jB64:
		var b bytes.Buffer
		if !n.render(&b) {
			ex.unsupported("[]byte blob decoded into interface{}")
		}
		var s string
		_ = json.Unmarshal(b.Bytes(), &s)
		return iface{types.Typ[types.String], s}
	}
	panic("jnatural")
}

func init() {
	reg("encoding/json.Marshal", func(fr *frame, a []value) value {
		r, e := fr.ex.jsonMarshal(fr, a[0].(iface))
		return tuple{r, e}
	})
	reg("encoding/json.MarshalIndent", func(fr *frame, a []value) value {
		r, e := fr.ex.jsonMarshal(fr, a[0].(iface))
		return tuple{r, e}
	})
	reg("encoding/json.Unmarshal", func(fr *frame, a []value) value {
		return fr.ex.jsonUnmarshal(fr, a[0], a[1].(iface))
	})
	reg("encoding/json.Valid", func(fr *frame, a []value) value {
		if jb := asBlob(a[0]); jb != nil && jb.tree != nil {
			return true
		}
		s, ok := bytesToString(fr, a[0].([]value)).(string)
		if !ok {
			fr.ex.unsupported("json.Valid of symbolic text")
		}
		return json.Valid([]byte(s))
	})
}
