package main

// Models of the sync/atomic functions.  Under the engine's sequentially
// consistent, one-goroutine-at-a-time scheduler an atomic operation is an
// ordinary load / store executed without a context switch in the middle; each
// one is a scheduling point of the interleaving mode.

import (
	"fmt"
	"os"
	"go/token"
	"go/types"
)

func init() {
	kinds := []struct {
		name string
		t    types.Type
	}{
		{"Int32", types.Typ[types.Int32]}, {"Int64", types.Typ[types.Int64]},
		{"Uint32", types.Typ[types.Uint32]}, {"Uint64", types.Typ[types.Uint64]},
		{"Uintptr", types.Typ[types.Uintptr]},
	}
	for _, k := range kinds {
		t := k.t
		reg("sync/atomic.Add"+k.name, func(fr *frame, a []value) value {
			fr.ex.preemptPoint()
			p := a[0].(*value)
			n := fr.ex.binop(token.ADD, t, load(t, p), a[1])
			store(t, p, n)
			return n
		})
		reg("sync/atomic.Load"+k.name, func(fr *frame, a []value) value {
			fr.ex.preemptPoint()
			return load(t, a[0].(*value))
		})
		reg("sync/atomic.Store"+k.name, func(fr *frame, a []value) value {
			fr.ex.preemptPoint()
			store(t, a[0].(*value), a[1])
			return nil
		})
		reg("sync/atomic.Swap"+k.name, func(fr *frame, a []value) value {
			fr.ex.preemptPoint()
			p := a[0].(*value)
			old := load(t, p)
			store(t, p, a[1])
			return old
		})
		reg("sync/atomic.CompareAndSwap"+k.name, func(fr *frame, a []value) value {
			fr.ex.preemptPoint()
			p := a[0].(*value)
			if fr.ex.truth(fr.ex.binop(token.EQL, t, load(t, p), a[1])) {
				store(t, p, a[2])
				return true
			}
			return false
		})
	}
}

// uidFoldEnabled: case folding of a symbolic identifier through its byte
// decomposition.  Off by default: the linear-integer encoding of 16 bytes did not
// finish within the solver caps on either back end (probe: > 1 h for the
// timestamp harnesses); such a call is reported as unsupported (inconclusive)
// and the concrete alphabet-class harness VF_C15_CompareAlphabet decides it.
var uidFoldEnabled = os.Getenv("GOSYM_UIDFOLD") == "1"

// uidMapBytes returns the identifier obtained from the symbolic 16-byte
// identifier u by adding delta to every byte in [lo, hi] (strings.ToLower /
// ToUpper on ASCII).  The bytes are fresh integer variables tied to u by
// u = sum b_i * 256^(15-i), 0 <= b_i <= 255 (linear integer arithmetic).
// Bytes >= 0x80 are left as they are: identifiers are ASCII (stated bound).
func (ex *exec) uidMapBytes(u *Term, lo, hi byte, delta int64) *Term {
	if ex.uidBytes == nil {
		ex.uidBytes = map[*Term][]*Term{}
	}
	bs := ex.uidBytes[u]
	if bs == nil {
		var sum *Term
		for i := 0; i < 16; i++ {
			b := ex.freshVar(fmt.Sprintf("uidbyte%d", i), sInt)
			ex.assertTerm(tAnd(mk("<=", sBool, tIntConst(0), b), mk("<", sBool, b, tIntConst(128))))
			bs = append(bs, b)
			if sum == nil {
				sum = b
			} else {
				sum = mk("+", sInt, mk("*", sInt, tIntConst(256), sum), b)
			}
		}
		ex.assertTerm(tEq(u, sum))
		ex.uidBytes[u] = bs
	}
	var out *Term
	for _, b := range bs {
		in := tAnd(mk("<=", sBool, tIntConst(int64(lo)), b), mk("<=", sBool, b, tIntConst(int64(hi))))
		m := tIte(in, mk("+", sInt, b, tIntConst(delta)), b)
		if out == nil {
			out = m
		} else {
			out = mk("+", sInt, mk("*", sInt, tIntConst(256), out), m)
		}
	}
	return out
}
