package main

// Maps are insertion-ordered association lists so that keys may be symbolic
// (a lookup then becomes a sequence of solver-decided comparisons) and so that
// iteration order is deterministic (or an explicit decision, see rangeIter).

import (
	"go/types"
)

type mentry struct {
	k, v value
	dead bool
}

type gmap struct {
	kt   types.Type
	ents []*mentry
	fast map[value]*mentry // concrete scalar keys only
	nsym int               // number of live entries whose key is not fast-path
	live int
}

func makeMap(kt types.Type) *gmap {
	return &gmap{kt: kt, fast: map[value]*mentry{}}
}

func isFastKey(k value) bool {
	switch k.(type) {
	case bool, int, int8, int16, int32, int64, uint, uint8, uint16, uint32, uint64, uintptr, string, float64, float32, *value, *gchan:
		return true
	}
	return false
}

func (m *gmap) find(ex *exec, k value) *mentry {
	if m == nil {
		return nil
	}
	if isFastKey(k) && m.nsym == 0 {
		return m.fast[k]
	}
	if isFastKey(k) {
		if e := m.fast[k]; e != nil {
			return e
		}
	}
	for _, e := range m.ents {
		if e.dead {
			continue
		}
		if isFastKey(k) && isFastKey(e.k) {
			continue // already ruled out through fast index
		}
		if ex.truth(ex.eqv(m.kt, e.k, k)) {
			return e
		}
	}
	return nil
}

func (m *gmap) insert(ex *exec, k, v value) {
	if e := m.find(ex, k); e != nil {
		e.v = v
		return
	}
	e := &mentry{k: k, v: v}
	m.ents = append(m.ents, e)
	m.live++
	if isFastKey(k) {
		m.fast[k] = e
	} else {
		m.nsym++
	}
}

func (m *gmap) delete(ex *exec, k value) {
	if m == nil {
		return
	}
	if e := m.find(ex, k); e != nil {
		e.dead = true
		m.live--
		if isFastKey(e.k) {
			delete(m.fast, e.k)
		} else {
			m.nsym--
		}
	}
}

func (m *gmap) len() int {
	if m == nil {
		return 0
	}
	return m.live
}

func (m *gmap) liveEntries() []*mentry {
	if m == nil {
		return nil
	}
	var r []*mentry
	for _, e := range m.ents {
		if !e.dead {
			r = append(r, e)
		}
	}
	return r
}

// mapIter iterates over a snapshot of the live entries.  When permute is set
// the next entry is an explicit n-way decision, so every iteration order is
// explored.
type mapIter struct {
	ex      *exec
	rest    []*mentry
	permute bool
}

func (it *mapIter) next() tuple {
	for len(it.rest) > 0 {
		i := 0
		if it.permute && len(it.rest) > 1 {
			i = it.ex.choose(len(it.rest), "maporder")
		}
		e := it.rest[i]
		it.rest = append(append([]*mentry{}, it.rest[:i]...), it.rest[i+1:]...)
		if e.dead {
			continue
		}
		return tuple{true, e.k, e.v}
	}
	return tuple{false, nil, nil}
}
