package main

// Model of the MongoDB Go driver at the level of *mongo.Collection: the real
// repository code of server/mongodb runs on top of it.  A database is a set of
// named collections of document trees; filters ($eq by value, $gte, $lte, $gt,
// $lt, $ne, $exists, $in), updates ($set, $inc, $currentDate, $setOnInsert,
// replacement), upsert, sort, limit, unique _id, findAndModify with
// ReturnDocument, ordered InsertMany.  Scalars inside documents and filters may
// be symbolic: a comparison that the path condition does not decide forks the
// path.  The native counterpart (same semantics, spoken over the driver's
// Deployment interface) is harness/serverreal/mongodb/zz_vf_native_mongo.go;
// translator validation keeps the two in step.

import (
	"fmt"
	"go/types"
	"sort"
	"strings"

	"golang.org/x/tools/go/ssa"
)

const (
	mongoPath   = "go.mongodb.org/mongo-driver/mongo"
	mongoBson   = "go.mongodb.org/mongo-driver/bson"
	vfRepoPkg   = "github.com/orda-io/orda/server/mongodb"
	errNoDocMsg = "mongo: no documents in result"
)

type mcoll struct {
	name    string
	docs    []*jnode
	created bool // exists in the database (has received an insert or upsert and was not dropped)
}

type msingle struct {
	doc *jnode
	err value // iface
}

type mcursor struct {
	docs []*jnode
	pos  int
}

type mongoState struct {
	colls    map[string]*mcoll
	handles  map[*value]*mcoll
	singles  map[*value]*msingle
	cursors  map[*value]*mcursor
	commands int
	failAt   int
	errNoDoc value
}

func (ex *exec) mongo() *mongoState {
	if ex.mongoSt == nil {
		ex.mongoSt = &mongoState{colls: map[string]*mcoll{}, handles: map[*value]*mcoll{}, singles: map[*value]*msingle{}, cursors: map[*value]*mcursor{}}
	}
	return ex.mongoSt
}

func (p *program) namedType(path, name string) types.Type {
	pkg := p.prog.ImportedPackage(path)
	if pkg == nil {
		panic("package not loaded: " + path)
	}
	if t, ok := pkg.Members[name].(*ssa.Type); ok {
		return t.Type()
	}
	panic("no type " + path + "." + name)
}

func (ex *exec) newOpaque(path, name string) *value {
	cell := zero(ex.prog.namedType(path, name))
	return &cell
}

// errNoDocuments returns the value of mongo.ErrNoDocuments (the package
// initialiser of the driver is not run; the variable is seeded here).
func (ex *exec) errNoDocuments() value {
	ms := ex.mongo()
	if ms.errNoDoc == nil {
		ms.errNoDoc = ex.mkError(errNoDocMsg)
		if pkg := ex.prog.prog.ImportedPackage(mongoPath); pkg != nil {
			if g, ok := pkg.Members["ErrNoDocuments"].(*ssa.Global); ok {
				ex.initPackage(pkg) // allocates the package's globals (zero); the seed below must come after
				cell := ms.errNoDoc
				ex.globals[g] = &cell
			}
		}
	}
	return ms.errNoDoc
}

func (ex *exec) collOf(h value) *mcoll {
	p, _ := h.(*value)
	if p == nil {
		ex.rtPanic("invalid memory address or nil pointer dereference (nil *mongo.Collection)")
	}
	c := ex.mongo().handles[p]
	if c == nil {
		ex.unsupported("*mongo.Collection that was not obtained from the modelled database")
	}
	return c
}

// docArg marshals a filter / update / document argument (interface{}) to a tree.
func (ex *exec) docArg(v value) *jnode {
	it, ok := v.(iface)
	if !ok || it.t == nil {
		return &jnode{k: jObj}
	}
	if jb := asBlob(it.v); jb != nil && jb.tree != nil {
		return jb.tree
	}
	n := ex.bmarshal(it.t, it.v)
	if n.k == jNull {
		return &jnode{k: jObj}
	}
	if n.k != jObj {
		ex.unsupported("mongo: argument of type %s is not a document", it.t)
	}
	return n
}

func docGet(d *jnode, key string) *jnode {
	for i, k := range d.keys {
		if ks, ok := k.(string); ok && ks == key {
			return d.vals[i]
		}
	}
	return nil
}

func docSet(d *jnode, key string, v *jnode) {
	for i, k := range d.keys {
		if ks, ok := k.(string); ok && ks == key {
			d.vals[i] = v
			return
		}
	}
	d.keys = append(d.keys, key)
	d.vals = append(d.vals, v)
}

func docCopy(d *jnode) *jnode {
	if d == nil {
		return nil
	}
	c := *d
	c.keys = append([]value(nil), d.keys...)
	c.vals = make([]*jnode, len(d.vals))
	for i, v := range d.vals {
		c.vals[i] = docCopy(v)
	}
	c.arr = make([]*jnode, len(d.arr))
	for i, v := range d.arr {
		c.arr[i] = docCopy(v)
	}
	return &c
}

// num64 returns the 64-bit term (or concrete value) of a numeric leaf.
func (ex *exec) num64(n *jnode) (*Term, bool) {
	w, signed, ok := intInfo(n.gt)
	if !ok {
		return nil, false
	}
	t := lift(n.val, sBV(w))
	if t.S.K != 'V' {
		return nil, false
	}
	return tResize(t, 64, signed), true
}

// cmpLeaf builds the truth value of (a op b) for two leaves; values of
// different BSON types never compare (type bracketing).
func (ex *exec) cmpLeaf(a, b *jnode, op string) value {
	if a == nil || b == nil {
		if op == "ne" {
			return true
		}
		return false
	}
	neg := false
	if op == "ne" {
		op, neg = "eq", true
	}
	res := value(false)
	switch {
	case a.k == jNum && b.k == jNum:
		ta, oka := ex.num64(a)
		tb, okb := ex.num64(b)
		if !oka || !okb {
			ex.unsupported("mongo: comparison of non-integer numbers")
		}
		// signed 64-bit comparison (values are assumed below 2^63, as BSON int64)
		switch op {
		case "eq":
			res = fromBoolTerm(tEq(ta, tb))
		case "gte":
			res = fromBoolTerm(tBVCmp("bvsge", ta, tb))
		case "lte":
			res = fromBoolTerm(tBVCmp("bvsle", ta, tb))
		case "gt":
			res = fromBoolTerm(tBVCmp("bvsgt", ta, tb))
		case "lt":
			res = fromBoolTerm(tBVCmp("bvslt", ta, tb))
		}
	case a.k == jStr && b.k == jStr:
		if op == "eq" {
			res = ex.eqv(types.Typ[types.String], a.val, b.val)
		} else {
			sa, oka := a.val.(string)
			sb, okb := b.val.(string)
			if !oka || !okb {
				ex.unsupported("mongo: ordering of symbolic strings")
			}
			switch op {
			case "gte":
				res = sa >= sb
			case "lte":
				res = sa <= sb
			case "gt":
				res = sa > sb
			case "lt":
				res = sa < sb
			}
		}
	case a.k == jBool && b.k == jBool:
		if op == "eq" {
			res = ex.eqv(types.Typ[types.Bool], a.val, b.val)
		}
	case a.k == jNull && b.k == jNull:
		res = op == "eq" || op == "gte" || op == "lte"
	case a.k == jObj && b.k == jObj && op == "eq":
		if len(a.keys) != len(b.keys) {
			res = false
			break
		}
		acc := tTrue
		for i := range a.keys {
			ka, _ := a.keys[i].(string)
			kb, _ := b.keys[i].(string)
			if ka != kb {
				acc = tFalse
				break
			}
			acc = tAnd(acc, boolTerm(ex.cmpLeaf(a.vals[i], b.vals[i], "eq")))
		}
		res = fromBoolTerm(acc)
	}
	if neg {
		return fromBoolTerm(tNot(boolTerm(res)))
	}
	return res
}

// matches decides (forking if needed) whether doc satisfies filter.
func (ex *exec) matches(doc, filter *jnode) bool {
	for i, k := range filter.keys {
		key, ok := k.(string)
		if !ok {
			ex.unsupported("mongo: symbolic filter key")
		}
		if strings.HasPrefix(key, "$") || strings.Contains(key, ".") {
			ex.unsupported("mongo: filter key %q", key)
		}
		field := docGet(doc, key)
		cond := filter.vals[i]
		isOps := cond.k == jObj && len(cond.keys) > 0
		if isOps {
			if s, ok := cond.keys[0].(string); !ok || !strings.HasPrefix(s, "$") {
				isOps = false
			}
		}
		if !isOps {
			if field == nil {
				if cond.k == jNull {
					continue
				}
				return false
			}
			if !ex.truth(ex.cmpLeaf(field, cond, "eq")) {
				return false
			}
			continue
		}
		for j, ok := range cond.keys {
			op := ok.(string)
			arg := cond.vals[j]
			switch op {
			case "$eq", "$gte", "$lte", "$gt", "$lt", "$ne":
				if !ex.truth(ex.cmpLeaf(field, arg, op[1:])) {
					return false
				}
			case "$exists":
				want, _ := arg.val.(bool)
				if (field != nil) != want {
					return false
				}
			case "$in":
				hit := false
				for _, e := range arg.arr {
					if field != nil && ex.truth(ex.cmpLeaf(field, e, "eq")) {
						hit = true
						break
					}
				}
				if !hit {
					return false
				}
			default:
				ex.unsupported("mongo: query operator %s", op)
			}
		}
	}
	return true
}

// sortDocs orders docs by the single-key sort specification (insertion sort; forks on symbolic keys).
func (ex *exec) sortDocs(docs []*jnode, spec *jnode) []*jnode {
	if spec == nil || len(spec.keys) == 0 {
		return docs
	}
	if len(spec.keys) > 1 {
		ex.unsupported("mongo: sort on several keys")
	}
	key := spec.keys[0].(string)
	dir, ok := ex.num64(spec.vals[0])
	if !ok || !dir.IsConst() {
		ex.unsupported("mongo: sort direction")
	}
	desc := int64(dir.sval()) < 0
	out := append([]*jnode(nil), docs...)
	for i := 1; i < len(out); i++ {
		for j := i; j > 0; j-- {
			a, b := docGet(out[j-1], key), docGet(out[j], key)
			op := "gt"
			if desc {
				op = "lt"
			}
			if !ex.truth(ex.cmpLeaf(a, b, op)) {
				break
			}
			out[j-1], out[j] = out[j], out[j-1]
		}
	}
	return out
}

// find returns the documents of c matching filter, in insertion order.
func (ex *exec) find(c *mcoll, filter *jnode) []*jnode {
	var out []*jnode
	for _, d := range c.docs {
		if ex.matches(d, filter) {
			out = append(out, d)
		}
	}
	return out
}

// optField returns the last non-nil value of field name among the option structs.
func (ex *exec) optField(opts value, name string) (value, types.Type) {
	sl, _ := opts.([]value)
	var res value
	var rt types.Type
	for _, o := range sl {
		p, _ := o.(*value)
		if p == nil {
			continue
		}
		st := (*p).(structure)
		// the static type is found through the struct's shape: look the field up by name in every options struct of the driver
		for _, tn := range []string{"FindOneOptions", "FindOptions", "FindOneAndUpdateOptions", "UpdateOptions", "ReplaceOptions"} {
			t := ex.prog.namedType(mongoPath+"/options", tn).Underlying().(*types.Struct)
			if t.NumFields() != len(st) {
				continue
			}
			for i := 0; i < t.NumFields(); i++ {
				if t.Field(i).Name() == name {
					if fp, isPtr := st[i].(*value); isPtr {
						if fp != nil {
							res, rt = *fp, t.Field(i).Type().Underlying().(*types.Pointer).Elem()
						}
					} else if it, isIface := st[i].(iface); isIface {
						if it.t != nil {
							res, rt = it, t.Field(i).Type()
						}
					}
				}
			}
		}
	}
	return res, rt
}

func (ex *exec) optBool(opts value, name string) bool {
	v, _ := ex.optField(opts, name)
	b, _ := v.(bool)
	return b
}

func (ex *exec) dupKeyError(c *mcoll, id *jnode) value {
	s := "?"
	if x, ok := id.val.(string); ok {
		s = x
	}
	return ex.mkError(fmt.Sprintf("write exception: write errors: [E11000 duplicate key error collection: %s index: _id_ dup key: { _id: %q }]", c.name, s))
}

// insertDoc appends doc unless its _id is taken; returns the error value or nil.
func (ex *exec) insertDoc(c *mcoll, doc *jnode) value {
	id := docGet(doc, "_id")
	if id == nil {
		ex.mongo().commands++
		id = &jnode{k: jStr, val: fmt.Sprintf("oid-%d", ex.mongo().commands)}
		nd := &jnode{k: jObj, keys: []value{"_id"}, vals: []*jnode{id}}
		nd.keys = append(nd.keys, doc.keys...)
		nd.vals = append(nd.vals, doc.vals...)
		doc = nd
	}
	for _, d := range c.docs {
		if ex.truth(ex.cmpLeaf(docGet(d, "_id"), id, "eq")) {
			return ex.dupKeyError(c, id)
		}
	}
	c.docs = append(c.docs, docCopy(doc))
	c.created = true
	return nil
}

func (ex *exec) idValue(doc *jnode) value {
	id := docGet(doc, "_id")
	if id == nil {
		return iface{}
	}
	return ex.bnatural(id, false)
}

// applyUpdate applies an update document to doc (in place) and reports whether it was an operator update.
func (ex *exec) applyUpdate(doc, upd *jnode, inserting bool) {
	for i, k := range upd.keys {
		op, _ := k.(string)
		arg := upd.vals[i]
		switch op {
		case "$set":
			for j, fk := range arg.keys {
				docSet(doc, fk.(string), docCopy(arg.vals[j]))
			}
		case "$setOnInsert":
			if inserting {
				for j, fk := range arg.keys {
					docSet(doc, fk.(string), docCopy(arg.vals[j]))
				}
			}
		case "$inc":
			for j, fk := range arg.keys {
				cur := docGet(doc, fk.(string))
				inc := arg.vals[j]
				if cur == nil {
					docSet(doc, fk.(string), docCopy(inc))
					continue
				}
				w, signed, ok := intInfo(cur.gt)
				if !ok || cur.k != jNum || inc.k != jNum {
					ex.unsupported("mongo: $inc of a non-integer field")
				}
				it, ok2 := ex.num64(inc)
				if !ok2 {
					ex.unsupported("mongo: $inc by a non-integer")
				}
				sum := tBVBin("bvadd", lift(cur.val, sBV(w)), tResize(it, w, signed))
				docSet(doc, fk.(string), &jnode{k: jNum, gt: cur.gt, val: fromTerm(cur.gt, sum)})
			}
		case "$currentDate":
			for _, fk := range arg.keys {
				docSet(doc, fk.(string), &jnode{k: jOpaque, gt: ex.prog.namedType("time", "Time"), val: zero(ex.prog.namedType("time", "Time"))})
			}
		default:
			ex.unsupported("mongo: update operator %q", op)
		}
	}
}

func isOperatorUpdate(upd *jnode) bool {
	if len(upd.keys) == 0 {
		return false
	}
	s, ok := upd.keys[0].(string)
	return ok && strings.HasPrefix(s, "$")
}

// upsertBase builds the document an upsert starts from: the equality fields of the filter.
func upsertBase(filter *jnode) *jnode {
	d := &jnode{k: jObj}
	for i, k := range filter.keys {
		c := filter.vals[i]
		if c.k == jObj && len(c.keys) > 0 {
			if s, ok := c.keys[0].(string); ok && strings.HasPrefix(s, "$") {
				continue
			}
		}
		d.keys = append(d.keys, k)
		d.vals = append(d.vals, docCopy(c))
	}
	return d
}

func (ex *exec) mkStruct(path, name string, fields map[string]value) value {
	t := ex.prog.namedType(path, name)
	st := zero(t).(structure)
	u := t.Underlying().(*types.Struct)
	for i := 0; i < u.NumFields(); i++ {
		if v, ok := fields[u.Field(i).Name()]; ok {
			st[i] = v
		}
	}
	cell := value(st)
	return &cell
}

// mongoCommand numbers a driver round trip (scheduling point, fault plan).
func (ex *exec) mongoCommand() value {
	ex.preemptPoint()
	ms := ex.mongo()
	ms.commands++
	if ms.failAt != 0 && ms.commands == ms.failAt {
		return ex.mkError("server selection error: injected failure")
	}
	return nil
}

func init() {
	col := "(*" + mongoPath + ".Collection)."
	// harness entry: the client handle (native build: a real client over the in-memory deployment)
	reg(vfRepoPkg+".vfFakeClient", func(fr *frame, a []value) value {
		fr.ex.errNoDocuments()
		return fr.ex.newOpaque(mongoPath, "Client")
	})
	reg(vfRepoPkg+".vfFailAt", func(fr *frame, a []value) value {
		ms := fr.ex.mongo()
		ms.failAt = 0
		if n := int(asInt64(a[0])); n > 0 {
			ms.failAt = ms.commands + n
		}
		return nil
	})
	reg("(*"+mongoPath+".Client).Database", func(fr *frame, a []value) value {
		return fr.ex.newOpaque(mongoPath, "Database")
	})
	reg("(*"+mongoPath+".Client).Ping", func(fr *frame, a []value) value { return iface{} })
	reg("(*"+mongoPath+".Client).Disconnect", func(fr *frame, a []value) value { return iface{} })
	reg("(*"+mongoPath+".Database).Collection", func(fr *frame, a []value) value {
		ms := fr.ex.mongo()
		name := strArg(fr, a[1])
		c := ms.colls[name]
		if c == nil {
			c = &mcoll{name: name}
			ms.colls[name] = c
		}
		h := fr.ex.newOpaque(mongoPath, "Collection")
		ms.handles[h] = c
		return h
	})
	reg("(*"+mongoPath+".Database).Drop", func(fr *frame, a []value) value {
		ms := fr.ex.mongo()
		for _, c := range ms.colls {
			c.docs = nil
		}
		return iface{}
	})
	reg("(*"+mongoPath+".Database).ListCollectionNames", func(fr *frame, a []value) value {
		ex := fr.ex
		if e := ex.mongoCommand(); e != nil {
			return tuple{[]value(nil), e}
		}
		filter := ex.docArg(a[2])
		var names []string
		for n, c := range ex.mongo().colls {
			if c.created {
				names = append(names, n)
			}
		}
		sort.Strings(names)
		var out []value
		for _, n := range names {
			d := &jnode{k: jObj, keys: []value{"name"}, vals: []*jnode{{k: jStr, val: n}}}
			if ex.matches(d, filter) {
				out = append(out, n)
			}
		}
		return tuple{out, iface{}}
	})
	reg(col+"Drop", func(fr *frame, a []value) value {
		c := fr.ex.collOf(a[0])
		if e := fr.ex.mongoCommand(); e != nil {
			return e
		}
		c.docs, c.created = nil, false
		return iface{}
	})
	reg(col+"Name", func(fr *frame, a []value) value { return fr.ex.collOf(a[0]).name })
	reg(col+"Indexes", func(fr *frame, a []value) value { return zero(fr.ex.prog.namedType(mongoPath, "IndexView")) })
	reg("("+mongoPath+".IndexView).CreateMany", func(fr *frame, a []value) value {
		return tuple{[]value(nil), iface{}}
	})
	reg(col+"InsertOne", func(fr *frame, a []value) value {
		ex := fr.ex
		c := ex.collOf(a[0])
		if e := ex.mongoCommand(); e != nil {
			return tuple{(*value)(nil), e}
		}
		doc := ex.docArg(a[2])
		if e := ex.insertDoc(c, doc); e != nil {
			return tuple{(*value)(nil), e}
		}
		return tuple{ex.mkStruct(mongoPath, "InsertOneResult", map[string]value{"InsertedID": ex.idValue(c.docs[len(c.docs)-1])}), iface{}}
	})
	reg(col+"InsertMany", func(fr *frame, a []value) value {
		ex := fr.ex
		c := ex.collOf(a[0])
		if e := ex.mongoCommand(); e != nil {
			return tuple{(*value)(nil), e}
		}
		docs, _ := a[2].([]value)
		var ids []value
		// ordered insert: documents before the first failure stay inserted
		for _, d := range docs {
			if e := ex.insertDoc(c, ex.docArg(d)); e != nil {
				res := ex.mkStruct(mongoPath, "InsertManyResult", map[string]value{"InsertedIDs": ids})
				return tuple{res, e}
			}
			ids = append(ids, ex.idValue(c.docs[len(c.docs)-1]))
		}
		return tuple{ex.mkStruct(mongoPath, "InsertManyResult", map[string]value{"InsertedIDs": ids}), iface{}}
	})
	single := func(ex *exec, doc *jnode, err value) value {
		h := ex.newOpaque(mongoPath, "SingleResult")
		ex.mongo().singles[h] = &msingle{doc: doc, err: err}
		return h
	}
	reg(col+"FindOne", func(fr *frame, a []value) value {
		ex := fr.ex
		c := ex.collOf(a[0])
		if e := ex.mongoCommand(); e != nil {
			return single(ex, nil, e)
		}
		hits := ex.find(c, ex.docArg(a[2]))
		if sv, _ := ex.optField(a[3], "Sort"); sv != nil {
			hits = ex.sortDocs(hits, ex.docArg(sv))
		}
		if len(hits) == 0 {
			return single(ex, nil, ex.errNoDocuments())
		}
		return single(ex, docCopy(hits[0]), iface{})
	})
	reg(col+"FindOneAndUpdate", func(fr *frame, a []value) value {
		ex := fr.ex
		c := ex.collOf(a[0])
		if e := ex.mongoCommand(); e != nil {
			return single(ex, nil, e)
		}
		filter, upd := ex.docArg(a[2]), ex.docArg(a[3])
		after := false
		if rv, _ := ex.optField(a[4], "ReturnDocument"); rv != nil {
			after = asInt64(rv) == 1
		}
		hits := ex.find(c, filter)
		if len(hits) == 0 {
			if !ex.optBool(a[4], "Upsert") {
				return single(ex, nil, ex.errNoDocuments())
			}
			nd := upsertBase(filter)
			ex.applyUpdate(nd, upd, true)
			if e := ex.insertDoc(c, nd); e != nil {
				return single(ex, nil, e)
			}
			if after {
				return single(ex, docCopy(c.docs[len(c.docs)-1]), iface{})
			}
			return single(ex, nil, ex.errNoDocuments())
		}
		before := docCopy(hits[0])
		ex.applyUpdate(hits[0], upd, false)
		if after {
			return single(ex, docCopy(hits[0]), iface{})
		}
		return single(ex, before, iface{})
	})
	update := func(fr *frame, a []value, replace bool) value {
		ex := fr.ex
		c := ex.collOf(a[0])
		if e := ex.mongoCommand(); e != nil {
			return tuple{(*value)(nil), e}
		}
		filter, upd := ex.docArg(a[2]), ex.docArg(a[3])
		if replace == isOperatorUpdate(upd) {
			return tuple{(*value)(nil), ex.mkError("update document must contain key beginning with '$' / replacement document cannot contain keys beginning with '$'")}
		}
		hits := ex.find(c, filter)
		i64 := func(n int) value { return int64(n) }
		if len(hits) == 0 {
			if !ex.optBool(a[4], "Upsert") {
				return tuple{ex.mkStruct(mongoPath, "UpdateResult", map[string]value{"MatchedCount": i64(0), "ModifiedCount": i64(0), "UpsertedCount": i64(0)}), iface{}}
			}
			nd := upsertBase(filter)
			if replace {
				id := docGet(nd, "_id")
				nd = docCopy(upd)
				if id != nil && docGet(nd, "_id") == nil {
					nd2 := &jnode{k: jObj, keys: []value{"_id"}, vals: []*jnode{id}}
					nd2.keys = append(nd2.keys, nd.keys...)
					nd2.vals = append(nd2.vals, nd.vals...)
					nd = nd2
				}
			} else {
				ex.applyUpdate(nd, upd, true)
			}
			if e := ex.insertDoc(c, nd); e != nil {
				return tuple{(*value)(nil), e}
			}
			return tuple{ex.mkStruct(mongoPath, "UpdateResult", map[string]value{"MatchedCount": i64(0), "ModifiedCount": i64(0), "UpsertedCount": i64(1),
				"UpsertedID": ex.idValue(c.docs[len(c.docs)-1])}), iface{}}
		}
		if replace {
			id := docGet(hits[0], "_id")
			nd := docCopy(upd)
			if nid := docGet(nd, "_id"); nid != nil {
				if !ex.truth(ex.cmpLeaf(nid, id, "eq")) {
					return tuple{(*value)(nil), ex.mkError("write exception: the (immutable) field '_id' was found to have been altered")}
				}
			} else {
				nd2 := &jnode{k: jObj, keys: []value{"_id"}, vals: []*jnode{id}}
				nd2.keys = append(nd2.keys, nd.keys...)
				nd2.vals = append(nd2.vals, nd.vals...)
				nd = nd2
			}
			*hits[0] = *nd
		} else {
			ex.applyUpdate(hits[0], upd, false)
		}
		// ModifiedCount: the updates of the repository always carry a fresh timestamp
		return tuple{ex.mkStruct(mongoPath, "UpdateResult", map[string]value{"MatchedCount": i64(1), "ModifiedCount": i64(1), "UpsertedCount": i64(0)}), iface{}}
	}
	reg(col+"UpdateOne", func(fr *frame, a []value) value { return update(fr, a, false) })
	reg(col+"ReplaceOne", func(fr *frame, a []value) value { return update(fr, a, true) })
	del := func(fr *frame, a []value, many bool) value {
		ex := fr.ex
		c := ex.collOf(a[0])
		if e := ex.mongoCommand(); e != nil {
			return tuple{(*value)(nil), e}
		}
		filter := ex.docArg(a[2])
		var keep []*jnode
		n := 0
		for _, d := range c.docs {
			if (many || n == 0) && ex.matches(d, filter) {
				n++
				continue
			}
			keep = append(keep, d)
		}
		c.docs = keep
		return tuple{ex.mkStruct(mongoPath, "DeleteResult", map[string]value{"DeletedCount": int64(n)}), iface{}}
	}
	reg(col+"DeleteOne", func(fr *frame, a []value) value { return del(fr, a, false) })
	reg(col+"DeleteMany", func(fr *frame, a []value) value { return del(fr, a, true) })
	reg(col+"Find", func(fr *frame, a []value) value {
		ex := fr.ex
		c := ex.collOf(a[0])
		if e := ex.mongoCommand(); e != nil {
			return tuple{(*value)(nil), e}
		}
		hits := ex.find(c, ex.docArg(a[2]))
		if sv, _ := ex.optField(a[3], "Sort"); sv != nil {
			hits = ex.sortDocs(hits, ex.docArg(sv))
		}
		if lv, _ := ex.optField(a[3], "Limit"); lv != nil {
			if n := int(asInt64(lv)); n > 0 && n < len(hits) {
				hits = hits[:n]
			}
		}
		var docs []*jnode
		for _, d := range hits {
			docs = append(docs, docCopy(d))
		}
		h := ex.newOpaque(mongoPath, "Cursor")
		ex.mongo().cursors[h] = &mcursor{docs: docs, pos: -1}
		return tuple{h, iface{}}
	})
	cur := "(*" + mongoPath + ".Cursor)."
	cursorOf := func(fr *frame, v value) *mcursor {
		p, _ := v.(*value)
		c := fr.ex.mongo().cursors[p]
		if c == nil {
			fr.ex.rtPanic("invalid memory address or nil pointer dereference (nil *mongo.Cursor)")
		}
		return c
	}
	reg(cur+"Next", func(fr *frame, a []value) value {
		c := cursorOf(fr, a[0])
		if c.pos+1 < len(c.docs) {
			c.pos++
			return true
		}
		return false
	})
	reg(cur+"Close", func(fr *frame, a []value) value { return iface{} })
	reg(cur+"Err", func(fr *frame, a []value) value { return iface{} })
	decodeInto := func(fr *frame, doc *jnode, dst value) (errv value) {
		ex := fr.ex
		defer func() {
			if r := recover(); r != nil {
				if be, ok := r.(bsonErr); ok {
					errv = ex.mkError("bson: " + be.msg)
					return
				}
				panic(r)
			}
		}()
		d, _ := dst.(iface)
		if d.t == nil {
			return ex.mkError("bson: Decode(nil)")
		}
		pt, ok := d.t.Underlying().(*types.Pointer)
		p, _ := d.v.(*value)
		if !ok || p == nil {
			return ex.mkError("bson: Decode(non-pointer or nil)")
		}
		_, isMap := pt.Elem().Underlying().(*types.Map)
		ex.bunmarshal(doc, pt.Elem(), p, isMap)
		return iface{}
	}
	reg(cur+"Decode", func(fr *frame, a []value) value {
		c := cursorOf(fr, a[0])
		if c.pos < 0 || c.pos >= len(c.docs) {
			return fr.ex.mkError("mongo: Decode called without a current document")
		}
		return decodeInto(fr, c.docs[c.pos], a[1])
	})
	sr := "(*" + mongoPath + ".SingleResult)."
	singleOf := func(fr *frame, v value) *msingle {
		p, _ := v.(*value)
		s := fr.ex.mongo().singles[p]
		if s == nil {
			fr.ex.rtPanic("invalid memory address or nil pointer dereference (nil *mongo.SingleResult)")
		}
		return s
	}
	reg(sr+"Err", func(fr *frame, a []value) value { return singleOf(fr, a[0]).err })
	reg(sr+"Decode", func(fr *frame, a []value) value {
		s := singleOf(fr, a[0])
		if e, _ := s.err.(iface); e.t != nil {
			return s.err
		}
		return decodeInto(fr, s.doc, a[1])
	})
	// sessions and transactions: pass-through (no isolation is modelled or relied on)
	reg("(*"+mongoPath+".Client).StartSession", func(fr *frame, a []value) value {
		t := fr.ex.prog.namedType(mongoPath, "sessionImpl")
		cell := zero(t)
		return tuple{iface{types.NewPointer(t), &cell}, iface{}}
	})
	ses := "(*" + mongoPath + ".sessionImpl)."
	for _, m := range []string{"StartTransaction", "CommitTransaction", "AbortTransaction"} {
		reg(ses+m, func(fr *frame, a []value) value { return iface{} })
	}
	reg(ses+"EndSession", func(fr *frame, a []value) value { return nil })
	reg(mongoPath+".WithSession", func(fr *frame, a []value) value {
		// fn(sessionContext): the session context is the caller's context
		sc := a[0]
		if it, ok := sc.(iface); ok {
			sc = iface{fr.ex.prog.namedType(mongoPath, "SessionContext"), it}
			_ = sc
		}
		return call(fr.ex, fr, 0, a[2], []value{iface{}})
	})
	// bson.Marshal / bson.Unmarshal through the structural model
	reg(mongoBson+".Marshal", func(fr *frame, a []value) (res value) {
		ex := fr.ex
		defer func() {
			if r := recover(); r != nil {
				if be, ok := r.(bsonErr); ok {
					res = tuple{[]value(nil), ex.mkError("bson: " + be.msg)}
					return
				}
				panic(r)
			}
		}()
		it := a[0].(iface)
		if it.t == nil {
			return tuple{[]value(nil), ex.mkError("bson: cannot marshal nil")}
		}
		n := ex.bmarshal(it.t, it.v)
		if n.k != jObj {
			return tuple{[]value(nil), ex.mkError("bson: WriteValue can only write while positioned on a Element or Value but is positioned on a TopLevel")}
		}
		return tuple{blobValue(n), iface{}}
	})
	reg(mongoBson+".Unmarshal", func(fr *frame, a []value) value {
		jb := asBlob(a[0])
		if jb == nil || jb.tree == nil {
			fr.ex.unsupported("bson.Unmarshal of bytes that were not produced by bson.Marshal")
		}
		return decodeInto(fr, jb.tree, a[1])
	})
}
