package main

// One long-lived solver process per worker, SMT-LIB2 text over a pipe.
// No (set-logic): z3 4.8.12 silently drops assertions it cannot parse under a
// restrictive logic.  Any "(error" line makes the query inconclusive.

import (
	"bufio"
	"fmt"
	"io"
	osexec "os/exec"
	"strings"
	"time"
)

type Solver struct {
	kind    string // "z3", "z3-new", "cvc5"
	cmd     *osexec.Cmd
	in      io.WriteCloser
	out     *bufio.Reader
	p       *printer
	timeout int // ms per query
	// statistics
	Queries   int
	Sat       int
	Unsat     int
	Unknown   int
	Errors    int
	SolveTime time.Duration
	log       io.Writer
	lastErr   string
}

func NewSolver(kind string, timeoutMs int) (*Solver, error) {
	s := &Solver{kind: kind, timeout: timeoutMs}
	if err := s.start(); err != nil {
		return nil, err
	}
	return s, nil
}

func (s *Solver) start() error {
	var cmd *osexec.Cmd
	switch s.kind {
	case "z3":
		cmd = osexec.Command("/usr/bin/z3", "-in", "-smt2")
	case "z3-new":
		cmd = osexec.Command("z3-new", "-in", "-smt2")
	case "cvc5":
		cmd = osexec.Command("cvc5", "--incremental", "--lang=smt2", "--strings-exp", "--produce-models",
			fmt.Sprintf("--tlimit-per=%d", s.timeout))
	default:
		return fmt.Errorf("unknown solver %q", s.kind)
	}
	in, err := cmd.StdinPipe()
	if err != nil {
		return err
	}
	out, err := cmd.StdoutPipe()
	if err != nil {
		return err
	}
	cmd.Stderr = cmd.Stdout
	if err := cmd.Start(); err != nil {
		return err
	}
	s.cmd, s.in, s.out = cmd, in, bufio.NewReaderSize(out, 1<<16)
	s.p = newPrinter()
	s.prelude()
	return nil
}

func (s *Solver) prelude() {
	switch s.kind {
	case "z3", "z3-new":
		s.send(fmt.Sprintf("(set-option :timeout %d)\n", s.timeout))
	case "cvc5":
		s.send("(set-logic ALL)\n")
	}
}

func (s *Solver) Close() {
	if s.cmd != nil {
		s.in.Close()
		s.cmd.Process.Kill()
		s.cmd.Wait()
		s.cmd = nil
	}
}

func (s *Solver) send(txt string) {
	if s.log != nil {
		io.WriteString(s.log, txt)
	}
	if _, err := io.WriteString(s.in, txt); err != nil {
		s.lastErr = "write: " + err.Error()
	}
}

// Reset forgets all assertions and declarations.
func (s *Solver) Reset() {
	if s.kind == "cvc5" {
		// cvc5 1.0 (reset) is fine but keep it simple and robust
		s.send("(reset)\n")
	} else {
		s.send("(reset)\n")
	}
	s.p = newPrinter()
	s.prelude()
}

func (s *Solver) flushDecls() {
	if s.p.out.Len() > 0 {
		s.send(s.p.out.String())
		s.p.out.Reset()
	}
}

func (s *Solver) Assert(t *Term) {
	r := s.p.ref(t)
	s.flushDecls()
	s.send("(assert " + r + ")\n")
}

const doneMark = "<<vfdone>>"

// roundTrip sends txt followed by an echo marker and returns the lines printed
// before the marker.
func (s *Solver) roundTrip(txt string) []string {
	s.send(txt + "(echo \"" + doneMark + "\")\n")
	var lines []string
	for {
		line, err := s.out.ReadString('\n')
		if err != nil {
			s.lastErr = "read: " + err.Error()
			lines = append(lines, "(error \"solver died: "+err.Error()+"\")")
			// restart the solver so later queries have a process
			s.Close()
			_ = s.start()
			return lines
		}
		line = strings.TrimRight(line, "\r\n")
		if strings.Contains(line, doneMark) {
			return lines
		}
		if line != "" {
			lines = append(lines, line)
		}
	}
}

// Check returns "sat", "unsat" or "unknown" for (assertions ∧ extra).
// extra may be nil.  If wantModel is non-nil and the result is sat, the
// values of those terms (leaf variables) are fetched.
func (s *Solver) Check(extra *Term, wantModel []*Term) (string, map[string]string) {
	var r string
	if extra != nil {
		r = s.p.ref(extra)
	}
	var refs []string
	for _, v := range wantModel {
		refs = append(refs, s.p.ref(v))
	}
	s.flushDecls()
	var b strings.Builder
	b.WriteString("(push 1)\n")
	if extra != nil {
		b.WriteString("(assert " + r + ")\n")
	}
	b.WriteString("(check-sat)\n")
	t0 := time.Now()
	lines := s.roundTrip(b.String())
	s.SolveTime += time.Since(t0)
	s.Queries++
	res := "unknown"
	for _, l := range lines {
		if strings.HasPrefix(l, "(error") {
			s.Errors++
			s.lastErr = l
			res = "unknown"
			break
		}
		switch l {
		case "sat", "unsat", "unknown":
			res = l
		}
	}
	var model map[string]string
	if res == "sat" && len(refs) > 0 {
		model = map[string]string{}
		for i, ref := range refs {
			ls := s.roundTrip("(get-value (" + ref + "))\n")
			txt := strings.Join(ls, " ")
			if strings.Contains(txt, "(error") {
				continue
			}
			// ((ref value))
			txt = strings.TrimSpace(txt)
			if strings.HasPrefix(txt, "((") && strings.HasSuffix(txt, "))") {
				inner := txt[2 : len(txt)-2]
				if strings.HasPrefix(inner, ref) {
					model[termKey(wantModel[i])] = strings.TrimSpace(inner[len(ref):])
				}
			}
		}
	}
	s.send("(pop 1)\n")
	switch res {
	case "sat":
		s.Sat++
	case "unsat":
		s.Unsat++
	default:
		s.Unknown++
	}
	return res, model
}

func termKey(t *Term) string {
	if t.Op == "var" {
		return t.Str
	}
	return fmt.Sprintf("#%d", t.id)
}
