package main

// The clock as an environment input.  By default time.Now() is one fixed
// instant (durations are 0, nothing ever expires).  After vf.SymbolicClock()
// every time.Now() returns a fresh symbolic instant, constrained only to be
// not earlier than the previous one: arbitrary amounts of time pass between
// any two readings.  A time.Time is modelled as {wall: 0, ext: nanoseconds,
// loc: nil}; the methods below are the arithmetic the code under test uses.
// Each reading is recorded as an input of kind "clock"; the native replay
// feeds the recorded instants to the time.Now() calls of the server packages
// (replay overlay, see yieldinject.go).

import (
	"go/token"
	"go/types"
	"math"
	"os"
)

var tInt64 = types.Typ[types.Int64]

func timeExt(v value) value {
	if st, ok := v.(structure); ok && len(st) >= 2 {
		if st[1] == nil {
			return int64(0)
		}
		return st[1]
	}
	return int64(0)
}

func (ex *exec) timeFromExt(fn *frame, like value, ext value) value {
	st := append(structure{}, like.(structure)...)
	st[1] = ext
	return st
}

func (ex *exec) clockNow(z value) value {
	if !ex.symClock {
		st := append(structure{}, z.(structure)...)
		st[1] = int64(0)
		return st
	}
	t := ex.newInput("clock", "clock", sBV(64))
	lo := tBV(64, 1<<40) // some instant after the epoch
	if ex.lastClock != nil {
		lo = ex.lastClock
	}
	ex.assertTerm(tAnd(mk("bvsle", sBool, lo, t), mk("bvslt", sBool, t, tBV(64, 1<<62))))
	ex.lastClock = t
	st := append(structure{}, z.(structure)...)
	st[1] = symv{t}
	return st
}

func init() {
	reg("time.Now", func(fr *frame, a []value) value { return fr.ex.clockNow(zeroResult(fr.fn)) })
	reg("time.Since", func(fr *frame, a []value) value {
		now := fr.ex.clockNow(a[0])
		return fr.ex.binop(token.SUB, tInt64, timeExt(now), timeExt(a[0]))
	})
	reg("(time.Time).UnixNano", func(fr *frame, a []value) value { return timeExt(a[0]) })
	reg("(time.Time).Unix", func(fr *frame, a []value) value {
		e := timeExt(a[0])
		if isSym(e) {
			fr.ex.unsupported("(time.Time).Unix of a symbolic instant (division by 10^9)")
		}
		return asInt64(e) / 1000000000
	})
	reg("(time.Time).Sub", func(fr *frame, a []value) value {
		return fr.ex.binop(token.SUB, tInt64, timeExt(a[0]), timeExt(a[1]))
	})
	reg("(time.Time).Add", func(fr *frame, a []value) value {
		return fr.ex.timeFromExt(fr, a[0], fr.ex.binop(token.ADD, tInt64, timeExt(a[0]), a[1]))
	})
	reg("(time.Time).After", func(fr *frame, a []value) value {
		return fr.ex.binop(token.GTR, tInt64, timeExt(a[0]), timeExt(a[1]))
	})
	reg("(time.Time).Before", func(fr *frame, a []value) value {
		return fr.ex.binop(token.LSS, tInt64, timeExt(a[0]), timeExt(a[1]))
	})
	reg("(time.Time).Equal", func(fr *frame, a []value) value {
		return fr.ex.binop(token.EQL, tInt64, timeExt(a[0]), timeExt(a[1]))
	})
	reg("(time.Time).Compare", func(fr *frame, a []value) value {
		ex := fr.ex
		if ex.truth(ex.binop(token.LSS, tInt64, timeExt(a[0]), timeExt(a[1]))) {
			return -1
		}
		if ex.truth(ex.binop(token.GTR, tInt64, timeExt(a[0]), timeExt(a[1]))) {
			return 1
		}
		return 0
	})
	reg("(time.Time).IsZero", func(fr *frame, a []value) value {
		return fr.ex.binop(token.EQL, tInt64, timeExt(a[0]), int64(0))
	})
	reg("(time.Time).UTC", func(fr *frame, a []value) value { return a[0] })
	reg("(time.Time).Local", func(fr *frame, a []value) value { return a[0] })
	reg("(time.Time).Truncate", func(fr *frame, a []value) value { return a[0] })
	reg("(time.Time).Round", func(fr *frame, a []value) value { return a[0] })
	reg("(time.Duration).Seconds", func(fr *frame, a []value) value {
		if isSym(a[0]) {
			fr.ex.unsupported("(time.Duration).Seconds of a symbolic duration")
		}
		return float64(asInt64(a[0])) / 1e9
	})
	reg("(time.Duration).Milliseconds", func(fr *frame, a []value) value {
		if isSym(a[0]) {
			fr.ex.unsupported("(time.Duration).Milliseconds of a symbolic duration")
		}
		return asInt64(a[0]) / 1000000
	})
	reg(vfPkg+".SymbolicClock", func(fr *frame, a []value) value { fr.ex.symClock = true; return nil })
}

func init() {
	reg("reflect.Indirect", func(fr *frame, a []value) value {
		if rV2T(a[0]).t != nil {
			if _, ok := rV2T(a[0]).t.Underlying().(*types.Pointer); ok {
				return ext۰reflect۰Value۰Elem(fr, a)
			}
		}
		return a[0]
	})
}

// math: the float kernels code may start to use (ite over fp comparisons; NaN
// handling follows the comparisons: a NaN operand makes both comparisons false).
var symFloatEnabled = os.Getenv("GOSYM_SYMFLOAT") == "1"

func init() {
	tF64 := types.Typ[types.Float64]
	pick := func(fr *frame, x, y value, op token.Token) value {
		ex := fr.ex
		if !isSym(x) && !isSym(y) {
			a, b := x.(float64), y.(float64)
			if op == token.GTR {
				return math.Max(a, b)
			}
			return math.Min(a, b)
		}
		if !symFloatEnabled {
			ex.unsupported("math.Max/Min of a symbolic float (64-bit floating-point queries exceed the solver caps; GOSYM_SYMFLOAT=1 enables them)")
		}
		c := ex.binop(op, tF64, x, y)
		if ex.truth(c) {
			return x
		}
		return y
	}
	reg("math.Max", func(fr *frame, a []value) value { return pick(fr, a[0], a[1], token.GTR) })
	reg("math.Min", func(fr *frame, a []value) value { return pick(fr, a[0], a[1], token.LSS) })
	reg("math.Abs", func(fr *frame, a []value) value {
		if !isSym(a[0]) {
			return math.Abs(a[0].(float64))
		}
		if fr.ex.truth(fr.ex.binop(token.LSS, tF64, a[0], float64(0))) {
			return fr.ex.binop(token.SUB, tF64, float64(0), a[0])
		}
		return a[0]
	})
	for name, f := range map[string]func(float64) float64{"math.Floor": math.Floor, "math.Ceil": math.Ceil, "math.Trunc": math.Trunc, "math.Round": math.Round, "math.Sqrt": math.Sqrt} {
		f, name := f, name
		reg(name, func(fr *frame, a []value) value {
			if isSym(a[0]) {
				fr.ex.unsupported("%s of a symbolic float", name)
			}
			return f(a[0].(float64))
		})
	}
	reg("math.IsNaN", func(fr *frame, a []value) value {
		if !isSym(a[0]) {
			return math.IsNaN(a[0].(float64))
		}
		return fr.ex.notv(fr.ex.binop(token.EQL, tF64, a[0], a[0]))
	})
	reg("math.IsInf", func(fr *frame, a []value) value {
		if isSym(a[0]) {
			fr.ex.unsupported("math.IsInf of a symbolic float")
		}
		return math.IsInf(a[0].(float64), int(asInt64(a[1])))
	})
}
