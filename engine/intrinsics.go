package main

// Models of functions that are not executed as SSA: the vf harness API, the
// logging packages (no-ops), and the standard-library functions the code
// under test calls.  Every model used on a run is listed in the evidence.

import (
	"go/token"
	"fmt"
	"go/types"
	"math/big"
	"sort"
	"strconv"
	"strings"

	"golang.org/x/tools/go/ssa"
)

const vfPkg = "github.com/orda-io/orda/client/pkg/vf"

var intrinsics = map[string]externalFn{}

// prefix models: every function of these packages is a no-op returning zero values
var noopPackages = []string{
	"github.com/orda-io/orda/client/pkg/log",
	"github.com/sirupsen/logrus",
	"runtime/debug",
}

func (p *program) intrinsic(fn *ssa.Function, name string) externalFn {
	p.mu.Lock()
	if f, ok := p.intrinsicCache[fn]; ok {
		p.mu.Unlock()
		return f
	}
	if p.intrinsicMiss[fn] {
		p.mu.Unlock()
		return nil
	}
	p.mu.Unlock()
	f := p.resolveIntrinsic(fn, name)
	p.mu.Lock()
	if f != nil {
		p.intrinsicCache[fn] = f
		p.stubNames[name] = true
	} else {
		p.intrinsicMiss[fn] = true
	}
	p.mu.Unlock()
	return f
}

func (p *program) resolveIntrinsic(fn *ssa.Function, name string) externalFn {
	if fn.Parent() != nil {
		return nil
	}
	if f, ok := intrinsics[name]; ok {
		return f
	}
	if f, ok := externals[name]; ok {
		return f
	}
	if strings.HasPrefix(fn.Name(), "file_") && strings.HasSuffix(fn.Name(), "_proto_init") {
		// protobuf descriptor registration
		return func(fr *frame, args []value) value { return zeroResult(fn) }
	}
	// protobuf enums: String() through the generated <Type>_name table
	if fn.Name() == "String" && fn.Signature.Recv() != nil && fn.Pkg != nil {
		if named, ok := fn.Signature.Recv().Type().(*types.Named); ok {
			if g, ok2 := fn.Pkg.Members[named.Obj().Name()+"_name"].(*ssa.Global); ok2 {
				return func(fr *frame, args []value) value {
					m, _ := (*fr.ex.global(g)).(*gmap)
					if s, isSym := args[0].(symv); isSym {
						v := int32(fr.ex.concretize(s.T, "enum.String"))
						args = []value{v}
					}
					if e := m.find(fr.ex, args[0]); e != nil {
						return e.v
					}
					return fmt.Sprint(asInt64(args[0]))
				}
			}
		}
	}
	path := p.pkgPathOf(fn)
	for _, np := range noopPackages {
		if path == np {
			// constructors returning a pointer (loggers) hand out a fresh zero object
			res := fn.Signature.Results()
			if res.Len() == 1 {
				if pt, ok := res.At(0).Type().Underlying().(*types.Pointer); ok {
					return func(fr *frame, args []value) value {
						cell := zero(pt.Elem())
						return &cell
					}
				}
			}
			return func(fr *frame, args []value) value { return zeroResult(fn) }
		}
	}
	return nil
}

func reg(name string, f externalFn) { intrinsics[name] = f }

func strArg(fr *frame, v value) string {
	switch x := v.(type) {
	case string:
		return x
	case symv:
		fr.ex.unsupported("symbolic string passed to a concrete-only model in %s", fr.fn)
	}
	panic(fmt.Sprintf("strArg %T", v))
}

func init() {
	// ------------------------------------------------------------- vf API
	reg(vfPkg+".U64", func(fr *frame, a []value) value { return symv{fr.ex.newInput(strArg(fr, a[0]), "u64", sBV(64))} })
	reg(vfPkg+".U32", func(fr *frame, a []value) value { return symv{fr.ex.newInput(strArg(fr, a[0]), "u32", sBV(32))} })
	reg(vfPkg+".U8", func(fr *frame, a []value) value { return symv{fr.ex.newInput(strArg(fr, a[0]), "u8", sBV(8))} })
	reg(vfPkg+".I32", func(fr *frame, a []value) value { return symv{fr.ex.newInput(strArg(fr, a[0]), "i32", sBV(32))} })
	reg(vfPkg+".I64", func(fr *frame, a []value) value { return symv{fr.ex.newInput(strArg(fr, a[0]), "i64", sBV(64))} })
	reg(vfPkg+".Bool", func(fr *frame, a []value) value { return symv{fr.ex.newInput(strArg(fr, a[0]), "bool", sBool)} })
	reg(vfPkg+".Str", func(fr *frame, a []value) value { return symv{fr.ex.newInput(strArg(fr, a[0]), "str", sString)} })
	reg(vfPkg+".UID", func(fr *frame, a []value) value {
		t := fr.ex.newInput(strArg(fr, a[0]), "uid", sUID)
		fr.ex.assertTerm(tUIDRange(t))
		return symv{t}
	})
	nat := func(kind string, w int) externalFn {
		return func(fr *frame, a []value) value {
			ex := fr.ex
			n := ex.newInput(strArg(fr, a[0]), kind, sInt)
			lim := intern("const", sInt, new(big.Int).Lsh(big.NewInt(1), uint(w)).String(), 0, 0, nil)
			ex.assertTerm(tAnd(mk("<=", sBool, tIntConst(0), n), mk("<", sBool, n, lim)))
			return symv{tNat(n, w)}
		}
	}
	reg(vfPkg+".NatU64", nat("u64", 64))
	reg(vfPkg+".NatU32", nat("u32", 32))
	reg(vfPkg+".F64", func(fr *frame, a []value) value { return symv{fr.ex.newInput(strArg(fr, a[0]), "f64", sF64)} })
	reg(vfPkg+".Int", func(fr *frame, a []value) value {
		ex := fr.ex
		t := ex.newInput(strArg(fr, a[0]), "int", sBV(64))
		lo, hi := asInt64(a[1]), asInt64(a[2])
		c := tAnd(tBVCmp("bvsle", tBV(64, uint64(lo)), t), tBVCmp("bvsle", t, tBV(64, uint64(hi))))
		ex.assume(c)
		return symv{t}
	})
	reg(vfPkg+".Choice", func(fr *frame, a []value) value {
		ex := fr.ex
		n := int(asInt64(a[1]))
		if n <= 0 {
			ex.abort("assume", "empty choice")
		}
		c := ex.choose(n, "choice:"+strArg(fr, a[0]))
		ex.inputs = append(ex.inputs, &inputRec{Name: strArg(fr, a[0]), Kind: "choice", conc: c})
		return c
	})
	reg(vfPkg+".Assume", func(fr *frame, a []value) value {
		fr.ex.assume(boolTerm(a[0]))
		return nil
	})
	reg(vfPkg+".Assert", func(fr *frame, a []value) value {
		fr.ex.assertProp(boolTerm(a[0]), strArg(fr, a[1]))
		return nil
	})
	reg(vfPkg+".Reach", func(fr *frame, a []value) value {
		fr.ex.reached[strArg(fr, a[0])] = true
		return nil
	})
	reg(vfPkg+".Tag", func(fr *frame, a []value) value {
		v := a[1]
		if it, ok := v.(iface); ok {
			v = it.v
		}
		var s string
		switch x := v.(type) {
		case string:
			s = x
		default:
			s = toString(x)
		}
		fr.ex.tags[strArg(fr, a[0])] = s
		return nil
	})
	reg(vfPkg+".All", func(fr *frame, a []value) value {
		acc := tTrue
		for _, c := range a[0].([]value) {
			acc = tAnd(acc, boolTerm(c))
		}
		return fromBoolTerm(acc)
	})
	reg(vfPkg+".Any", func(fr *frame, a []value) value {
		acc := tFalse
		for _, c := range a[0].([]value) {
			acc = tOr(acc, boolTerm(c))
		}
		return fromBoolTerm(acc)
	})
	reg(vfPkg+".Not", func(fr *frame, a []value) value { return fromBoolTerm(tNot(boolTerm(a[0]))) })
	reg(vfPkg+".Implies", func(fr *frame, a []value) value {
		return fromBoolTerm(tImplies(boolTerm(a[0]), boolTerm(a[1])))
	})
	reg(vfPkg+".Pure", func(fr *frame, a []value) value {
		return nil
	})
	reg(vfPkg+".Quiesce", func(fr *frame, a []value) value { fr.ex.rest(2); return nil })
	reg(vfPkg+".Symbolic", func(fr *frame, a []value) value { return true })
	reg(vfPkg+".HashAbstract", func(fr *frame, a []value) value { fr.ex.hashAbstract = a[0].(bool); return nil })
	reg(vfPkg+".PermuteMaps", func(fr *frame, a []value) value {
		if fr.ex.mapPermute == nil {
			fr.ex.mapPermute = map[string]bool{}
		}
		fr.ex.mapPermute[strArg(fr, a[0])] = true
		return nil
	})
	reg(vfPkg+".Preemptions", func(fr *frame, a []value) value { fr.ex.preempt = int(asInt64(a[0])); return nil })
	// NoSlowHolders: the "holder is slower than the lock lease" decision is switched off; a
	// lock wait can then only end with a timeout when nobody else can run (a stall)
	reg(vfPkg+".NoSlowHolders", func(fr *frame, a []value) value { fr.ex.leaseExpiries = 1 << 20; return nil })
	reg(vfPkg+".PreemptIn", func(fr *frame, a []value) value {
		fr.ex.cfgPreemptFn(strArg(fr, a[0]))
		return nil
	})
	// Slow: the caller pauses for longer than any lock lease.  Everybody else runs as
	// far as they can, those who are then waiting with a timeout (lock waiters) give up,
	// and run on; then the caller continues.
	reg(vfPkg+".Slow", func(fr *frame, a []value) value {
		ex := fr.ex
		ex.quiesce()
		for _, o := range ex.gors {
			if o != ex.cur && !o.done && o.canTimeout && o.blocked != nil {
				o.timedOut = true
				o.blocked = nil
			}
		}
		ex.quiesce()
		return nil
	})
	reg(vfPkg+".Yield", func(fr *frame, a []value) value { fr.ex.preemptPoint(); return nil })
	reg(vfPkg+".Busy", func(fr *frame, a []value) value { fr.ex.preemptPoint(); return nil })
	reg(vfPkg+".Concretize", func(fr *frame, a []value) value {
		return int(fr.ex.asIntC(a[0], "vf.Concretize"))
	})
	reg(vfPkg+".ConcretizeU64", func(fr *frame, a []value) value {
		if s, ok := a[0].(symv); ok {
			return fr.ex.concretize(s.T, "vf.ConcretizeU64")
		}
		return a[0]
	})
	reg(vfPkg+".IsConcrete", func(fr *frame, a []value) value {
		it := a[0].(iface)
		return !isSym(it.v)
	})
	reg(vfPkg+".Log", func(fr *frame, a []value) value {
		if fr.ex.cfg.Verbose {
			fmt.Println("vf.Log:", toString(a[0]))
		}
		return nil
	})
	reg(vfPkg+".Fault", func(fr *frame, a []value) value {
		// Fault(point string) bool: symbolic single-fault plan handled by harness via vf.Bool; kept for API symmetry
		return false
	})

	// formatting helpers used for log lines only
	for _, n := range []string{
		"(*github.com/orda-io/orda/client/pkg/model.PushPullPackOption).String",
		"(*github.com/orda-io/orda/client/pkg/model.PushPullPack).ToString",
		"(*github.com/orda-io/orda/client/pkg/model.PushPullMessage).ToString",
		"(*github.com/orda-io/orda/client/pkg/model.ClientMessage).ToString",
		"(*github.com/orda-io/orda/client/pkg/model.Header).ToString",
		"(github.com/orda-io/orda/client/pkg/model.OpList).ToString",
		"(*github.com/orda-io/orda/client/pkg/model.Operation).ToString",
	} {
		n := n
		reg(n, func(fr *frame, a []value) value {
			if fr.ex.realFormatting {
				// vf.RealFormatting(): the helper is executed (a crash inside the formatting of a
				// log line is a crash of the request); its result is still not looked at
				fr.ex.bypassIntrinsic = fr.fn
				callSSA(fr.ex, fr.caller, token.NoPos, fr.fn, a, nil)
			}
			return "<fmt>"
		})
	}
	reg(vfPkg+".RealFormatting", func(fr *frame, a []value) value { fr.ex.realFormatting = true; return nil })
	reg("(google.golang.org/protobuf/internal/impl.Export).MessageStringOf", func(fr *frame, a []value) value { return "<pb>" })
	reg("(google.golang.org/protobuf/internal/impl.Export).MessageStateOf", func(fr *frame, a []value) value { return zeroResult(fr.fn) })
	reg("google.golang.org/grpc/status.Error", func(fr *frame, a []value) value {
		if asInt64(a[0]) == 0 { // codes.OK => nil error
			return iface{}
		}
		return fr.ex.mkError(fr.ex.strConcat("rpc error: ", a[1]))
	})
	// status.FromContextError(err).Err(): a *Status is a cell holding its message (nil = OK)
	reg("google.golang.org/grpc/status.FromContextError", func(fr *frame, a []value) value {
		var cell value = structure{nil}
		if e, ok := a[0].(iface); ok && e.t != nil {
			cell = structure{value("rpc error: context error")}
		}
		return &cell
	})
	statusErr := func(fr *frame, a []value) value {
		p, ok := a[0].(*value)
		if !ok || p == nil {
			return iface{}
		}
		st, ok := (*p).(structure)
		if !ok || len(st) == 0 || st[0] == nil {
			return iface{}
		}
		return fr.ex.mkError(st[0])
	}
	reg("(*google.golang.org/grpc/status.Status).Err", statusErr)
	reg("(*google.golang.org/grpc/internal/status.Status).Err", statusErr)
	reg("google.golang.org/grpc/status.Errorf", func(fr *frame, a []value) value {
		return fr.ex.mkError(fr.ex.strConcat("rpc error: ", fr.ex.sprintf(a[1], a[2].([]value))))
	})
	// printing an error with its stack trace is logging only
	reg("(*github.com/orda-io/orda/client/pkg/errors.singleOrdaError).Print", func(fr *frame, a []value) value { return nil })
	reg("(*github.com/orda-io/orda/client/pkg/errors.MultipleOrdaErrors).Print", func(fr *frame, a []value) value { return nil })

	// ------------------------------------------------------------- runtime
	reg("(runtime.errorString).Error", func(fr *frame, a []value) value { return "runtime error: " + a[0].(string) })
	reg("runtime.Caller", func(fr *frame, a []value) value { return tuple{uintptr(0), "", 0, false} })
	reg("runtime.Callers", func(fr *frame, a []value) value { return 0 })
	reg("runtime.Gosched", func(fr *frame, a []value) value { return nil })
	reg("runtime.SetFinalizer", func(fr *frame, a []value) value { return nil })
	reg("runtime.KeepAlive", func(fr *frame, a []value) value { return nil })
	reg("time.Sleep", func(fr *frame, a []value) value { fr.ex.quiesce(); return nil })
	reg("(time.Time).String", func(fr *frame, a []value) value { return "<time>" })
	reg("(time.Time).Format", func(fr *frame, a []value) value { return "<time>" })
	reg("(time.Duration).String", func(fr *frame, a []value) value { return "<duration>" })

	reg("reflect.DeepEqual", func(fr *frame, a []value) value {
		return fromBoolTerm(fr.ex.deepEq(nil, a[0], a[1], 0))
	})

	// ------------------------------------------------------------- errors / fmt
	reg("errors.New", func(fr *frame, a []value) value { return fr.ex.mkError(a[0]) })
	reg("fmt.Errorf", func(fr *frame, a []value) value {
		return fr.ex.mkError(fr.ex.sprintf(a[0], a[1].([]value)))
	})
	reg("fmt.Sprintf", func(fr *frame, a []value) value { return fr.ex.sprintf(a[0], a[1].([]value)) })
	reg("fmt.Sprint", func(fr *frame, a []value) value { return fr.ex.sprint(a[0].([]value), false) })
	reg("fmt.Sprintln", func(fr *frame, a []value) value { return fr.ex.sprint(a[0].([]value), true) })
	reg("fmt.Println", func(fr *frame, a []value) value { return tuple{0, iface{}} })
	reg("fmt.Printf", func(fr *frame, a []value) value { return tuple{0, iface{}} })
	reg("fmt.Print", func(fr *frame, a []value) value { return tuple{0, iface{}} })
	reg("fmt.Fprintf", func(fr *frame, a []value) value {
		s := fr.ex.sprintf(a[1], a[2].([]value))
		fr.ex.writeTo(a[0].(iface), s)
		return tuple{0, iface{}}
	})
	reg("fmt.Fprint", func(fr *frame, a []value) value {
		fr.ex.writeTo(a[0].(iface), fr.ex.sprint(a[1].([]value), false))
		return tuple{0, iface{}}
	})
	reg("fmt.Fprintln", func(fr *frame, a []value) value {
		fr.ex.writeTo(a[0].(iface), fr.ex.sprint(a[1].([]value), true))
		return tuple{0, iface{}}
	})

	// ------------------------------------------------------------- strings.Builder / bytes.Buffer
	// state lives in field 1 of the struct as a string-or-symbolic value
	sbGet := func(fr *frame, p value) value {
		pp := p.(*value)
		if pp == nil {
			fr.ex.rtPanic("invalid memory address or nil pointer dereference")
		}
		st := (*pp).(structure)
		if s, ok := st[1].(string); ok {
			return s
		}
		if s, ok := st[1].(symv); ok {
			return s
		}
		return ""
	}
	sbSet := func(p value, v value) { (*p.(*value)).(structure)[1] = v }
	for _, recv := range []string{"(*strings.Builder)", "(*bytes.Buffer)"} {
		recv := recv
		reg(recv+".WriteString", func(fr *frame, a []value) value {
			sbSet(a[0], fr.ex.strConcat(sbGet(fr, a[0]), a[1]))
			return tuple{0, iface{}}
		})
		reg(recv+".WriteByte", func(fr *frame, a []value) value {
			sbSet(a[0], fr.ex.strConcat(sbGet(fr, a[0]), string([]byte{a[1].(byte)})))
			return iface{}
		})
		reg(recv+".WriteRune", func(fr *frame, a []value) value {
			sbSet(a[0], fr.ex.strConcat(sbGet(fr, a[0]), string(a[1].(rune))))
			return tuple{0, iface{}}
		})
		reg(recv+".Write", func(fr *frame, a []value) value {
			b := a[1].([]value)
			sbSet(a[0], fr.ex.strConcat(sbGet(fr, a[0]), bytesToString(fr, b)))
			return tuple{len(b), iface{}}
		})
		reg(recv+".String", func(fr *frame, a []value) value {
			if a[0].(*value) == nil {
				return "<nil>"
			}
			return sbGet(fr, a[0])
		})
		reg(recv+".Len", func(fr *frame, a []value) value {
			return len(strArg(fr, sbGet(fr, a[0])))
		})
		reg(recv+".Reset", func(fr *frame, a []value) value { sbSet(a[0], ""); return nil })
		reg(recv+".Grow", func(fr *frame, a []value) value { return nil })
	}
	reg("(*bytes.Buffer).Bytes", func(fr *frame, a []value) value {
		return stringToBytes(strArg(fr, sbGet(fr, a[0])))
	})

	// ------------------------------------------------------------- strings
	reg("strings.Compare", func(fr *frame, a []value) value {
		ex := fr.ex
		if !isSym(a[0]) && !isSym(a[1]) {
			return strings.Compare(a[0].(string), a[1].(string))
		}
		if ua, ub, isUID, ok := ex.uidPair(a[0], a[1]); isUID {
			if !ok {
				ex.unsupported("strings.Compare of a symbolic identifier with a string that is not 16 bytes long")
			}
			if ex.decide(tEq(ua, ub)) {
				return 0
			}
			if ex.decide(tIntLt(ua, ub)) {
				return -1
			}
			return 1
		}
		x, y := lift(a[0], sString), lift(a[1], sString)
		if ex.decide(tEq(x, y)) {
			return 0
		}
		if ex.decide(tStrLt(x, y)) {
			return -1
		}
		return 1
	})
	reg("strings.Split", func(fr *frame, a []value) value {
		return strSliceToValue(strings.Split(strArg(fr, a[0]), strArg(fr, a[1])))
	})
	reg("strings.Join", func(fr *frame, a []value) value {
		var parts []string
		for _, v := range a[0].([]value) {
			parts = append(parts, strArg(fr, v))
		}
		return strings.Join(parts, strArg(fr, a[1]))
	})
	reg("strings.Contains", func(fr *frame, a []value) value { return strings.Contains(strArg(fr, a[0]), strArg(fr, a[1])) })
	reg("strings.HasPrefix", func(fr *frame, a []value) value { return strings.HasPrefix(strArg(fr, a[0]), strArg(fr, a[1])) })
	reg("strings.HasSuffix", func(fr *frame, a []value) value { return strings.HasSuffix(strArg(fr, a[0]), strArg(fr, a[1])) })
	reg("strings.TrimPrefix", func(fr *frame, a []value) value { return strings.TrimPrefix(strArg(fr, a[0]), strArg(fr, a[1])) })
	reg("strings.TrimSuffix", func(fr *frame, a []value) value { return strings.TrimSuffix(strArg(fr, a[0]), strArg(fr, a[1])) })
	reg("strings.TrimSpace", func(fr *frame, a []value) value { return strings.TrimSpace(strArg(fr, a[0])) })
	reg("strings.Trim", func(fr *frame, a []value) value { return strings.Trim(strArg(fr, a[0]), strArg(fr, a[1])) })
	reg("strings.TrimLeft", func(fr *frame, a []value) value { return strings.TrimLeft(strArg(fr, a[0]), strArg(fr, a[1])) })
	reg("strings.TrimRight", func(fr *frame, a []value) value { return strings.TrimRight(strArg(fr, a[0]), strArg(fr, a[1])) })
	reg("strings.ContainsAny", func(fr *frame, a []value) value { return strings.ContainsAny(strArg(fr, a[0]), strArg(fr, a[1])) })
	reg("strings.ContainsRune", func(fr *frame, a []value) value { return strings.ContainsRune(strArg(fr, a[0]), rune(asInt64(a[1]))) })
	reg("strings.IndexAny", func(fr *frame, a []value) value { return strings.IndexAny(strArg(fr, a[0]), strArg(fr, a[1])) })
	reg("strings.IndexRune", func(fr *frame, a []value) value { return strings.IndexRune(strArg(fr, a[0]), rune(asInt64(a[1]))) })
	reg("strings.LastIndexByte", func(fr *frame, a []value) value { return strings.LastIndexByte(strArg(fr, a[0]), byte(asInt64(a[1]))) })
	reg("strings.LastIndexAny", func(fr *frame, a []value) value { return strings.LastIndexAny(strArg(fr, a[0]), strArg(fr, a[1])) })
	reg("strings.Title", func(fr *frame, a []value) value { return strings.Title(strArg(fr, a[0])) })
	reg("strings.SplitAfter", func(fr *frame, a []value) value {
		return strSliceToValue(strings.SplitAfter(strArg(fr, a[0]), strArg(fr, a[1])))
	})
	reg("strings.SplitAfterN", func(fr *frame, a []value) value {
		return strSliceToValue(strings.SplitAfterN(strArg(fr, a[0]), strArg(fr, a[1]), int(asInt64(a[2]))))
	})
	reg("strings.Cut", func(fr *frame, a []value) value {
		b, c, ok := strings.Cut(strArg(fr, a[0]), strArg(fr, a[1]))
		return tuple{b, c, ok}
	})
	reg("strings.CutPrefix", func(fr *frame, a []value) value {
		b, ok := strings.CutPrefix(strArg(fr, a[0]), strArg(fr, a[1]))
		return tuple{b, ok}
	})
	reg("strings.CutSuffix", func(fr *frame, a []value) value {
		b, ok := strings.CutSuffix(strArg(fr, a[0]), strArg(fr, a[1]))
		return tuple{b, ok}
	})
	reg("strings.ToUpper", func(fr *frame, a []value) value {
		if isUIDSym(a[0]) && uidFoldEnabled {
			return symv{fr.ex.uidMapBytes(a[0].(symv).T, 'a', 'z', -32)}
		}
		return strings.ToUpper(strArg(fr, a[0]))
	})
	reg("strings.ToLower", func(fr *frame, a []value) value {
		if isUIDSym(a[0]) && uidFoldEnabled {
			return symv{fr.ex.uidMapBytes(a[0].(symv).T, 'A', 'Z', 32)}
		}
		return strings.ToLower(strArg(fr, a[0]))
	})
	reg("strings.Index", func(fr *frame, a []value) value { return strings.Index(strArg(fr, a[0]), strArg(fr, a[1])) })
	reg("strings.IndexByte", func(fr *frame, a []value) value { return strings.IndexByte(strArg(fr, a[0]), a[1].(byte)) })
	reg("strings.LastIndex", func(fr *frame, a []value) value { return strings.LastIndex(strArg(fr, a[0]), strArg(fr, a[1])) })
	reg("strings.Replace", func(fr *frame, a []value) value {
		return strings.Replace(strArg(fr, a[0]), strArg(fr, a[1]), strArg(fr, a[2]), int(asInt64(a[3])))
	})
	reg("strings.ReplaceAll", func(fr *frame, a []value) value {
		return strings.ReplaceAll(strArg(fr, a[0]), strArg(fr, a[1]), strArg(fr, a[2]))
	})
	// bytes.ReplaceAll / bytes.Replace on an encoded body: the text of a JSON blob whose
	// leaves are concrete is materialised; when nothing is replaced the blob is kept
	bytesReplace := func(fr *frame, a []value, n int) value {
		src, _ := a[0].([]value)
		txt, ok := bytesToString(fr, src).(string)
		o, ok2 := bytesToString(fr, a[1].([]value)).(string)
		nw, ok3 := bytesToString(fr, a[2].([]value)).(string)
		if !ok || !ok2 || !ok3 {
			fr.ex.unsupported("bytes.Replace on symbolic text")
		}
		res := strings.Replace(txt, o, nw, n)
		if res == txt {
			return a[0]
		}
		return stringToBytes(res)
	}
	reg("bytes.ReplaceAll", func(fr *frame, a []value) value { return bytesReplace(fr, a, -1) })
	reg("bytes.Replace", func(fr *frame, a []value) value { return bytesReplace(fr, a, int(asInt64(a[3]))) })
	reg("strings.Repeat", func(fr *frame, a []value) value { return strings.Repeat(strArg(fr, a[0]), int(asInt64(a[1]))) })
	reg("strings.EqualFold", func(fr *frame, a []value) value { return strings.EqualFold(strArg(fr, a[0]), strArg(fr, a[1])) })
	reg("strings.Count", func(fr *frame, a []value) value { return strings.Count(strArg(fr, a[0]), strArg(fr, a[1])) })
	reg("strings.Fields", func(fr *frame, a []value) value { return strSliceToValue(strings.Fields(strArg(fr, a[0]))) })
	reg("strings.SplitN", func(fr *frame, a []value) value {
		return strSliceToValue(strings.SplitN(strArg(fr, a[0]), strArg(fr, a[1]), int(asInt64(a[2]))))
	})
	reg("(*strings.Replacer).Replace", func(fr *frame, a []value) value {
		var pairs []string
		for _, v := range (*a[0].(*value)).(structure)[0].([]value) {
			pairs = append(pairs, v.(string))
		}
		return strings.NewReplacer(pairs...).Replace(strArg(fr, a[1]))
	})
	reg("strings.NewReplacer", func(fr *frame, a []value) value {
		var olds []value
		for _, v := range a[0].([]value) {
			olds = append(olds, strArg(fr, v))
		}
		cell := value(structure{olds})
		return &cell
	})

	// ------------------------------------------------------------- strconv
	reg("strconv.Itoa", func(fr *frame, a []value) value {
		if s, ok := a[0].(symv); ok {
			return fr.ex.fmtInt(s.T, true)
		}
		return strconv.Itoa(a[0].(int))
	})
	reg("strconv.Atoi", func(fr *frame, a []value) value {
		i, e := strconv.Atoi(strArg(fr, a[0]))
		if e != nil {
			return tuple{i, fr.ex.mkError(e.Error())}
		}
		return tuple{i, iface{}}
	})
	reg("strconv.AppendUint", func(fr *frame, a []value) value {
		if asInt64(a[2]) != 10 {
			fr.ex.unsupported("strconv.AppendUint with base != 10")
		}
		var txt value
		if s, ok := a[1].(symv); ok {
			txt = fr.ex.fmtInt(s.T, false)
		} else {
			txt = strconv.FormatUint(uint64(asInt64(a[1])), 10)
		}
		dst := a[0].([]value)
		if _, isStr := txt.(string); isStr && !isTextBlob(dst) {
			return append(dst, stringToBytes(txt.(string))...)
		}
		return textBlob(fr.ex.strConcat(bytesAsText(fr.ex, dst), txt))
	})
	reg("strconv.AppendInt", func(fr *frame, a []value) value {
		if asInt64(a[2]) != 10 {
			fr.ex.unsupported("strconv.AppendInt with base != 10")
		}
		var txt value
		if s, ok := a[1].(symv); ok {
			txt = fr.ex.fmtInt(s.T, true)
		} else {
			txt = strconv.FormatInt(asInt64(a[1]), 10)
		}
		dst := a[0].([]value)
		if _, isStr := txt.(string); isStr && !isTextBlob(dst) {
			return append(dst, stringToBytes(txt.(string))...)
		}
		return textBlob(fr.ex.strConcat(bytesAsText(fr.ex, dst), txt))
	})
	reg("strconv.FormatInt", func(fr *frame, a []value) value { return strconv.FormatInt(asInt64(a[0]), int(asInt64(a[1]))) })
	reg("strconv.FormatUint", func(fr *frame, a []value) value {
		return strconv.FormatUint(uint64(asInt64(a[0])), int(asInt64(a[1])))
	})
	reg("strconv.ParseInt", func(fr *frame, a []value) value {
		i, e := strconv.ParseInt(strArg(fr, a[0]), int(asInt64(a[1])), int(asInt64(a[2])))
		if e != nil {
			return tuple{i, fr.ex.mkError(e.Error())}
		}
		return tuple{i, iface{}}
	})
	reg("strconv.ParseUint", func(fr *frame, a []value) value {
		i, e := strconv.ParseUint(strArg(fr, a[0]), int(asInt64(a[1])), int(asInt64(a[2])))
		if e != nil {
			return tuple{i, fr.ex.mkError(e.Error())}
		}
		return tuple{i, iface{}}
	})
	reg("strconv.ParseFloat", func(fr *frame, a []value) value {
		f, e := strconv.ParseFloat(strArg(fr, a[0]), int(asInt64(a[1])))
		if e != nil {
			return tuple{f, fr.ex.mkError(e.Error())}
		}
		return tuple{f, iface{}}
	})
	reg("strconv.ParseBool", func(fr *frame, a []value) value {
		b, e := strconv.ParseBool(strArg(fr, a[0]))
		if e != nil {
			return tuple{b, fr.ex.mkError(e.Error())}
		}
		return tuple{b, iface{}}
	})
	reg("strconv.Unquote", func(fr *frame, a []value) value {
		u, e := strconv.Unquote(strArg(fr, a[0]))
		if e != nil {
			return tuple{u, fr.ex.mkError(e.Error())}
		}
		return tuple{u, iface{}}
	})
	reg("strconv.Quote", func(fr *frame, a []value) value { return strconv.Quote(strArg(fr, a[0])) })
	reg("strconv.FormatBool", func(fr *frame, a []value) value { return strconv.FormatBool(a[0].(bool)) })

	// ------------------------------------------------------------- sort
	reg("sort.Strings", func(fr *frame, a []value) value {
		x := a[0].([]value)
		for _, v := range x {
			strArg(fr, v)
		}
		sort.SliceStable(x, func(i, j int) bool { return x[i].(string) < x[j].(string) })
		return nil
	})
	reg("sort.Ints", func(fr *frame, a []value) value {
		x := a[0].([]value)
		sort.SliceStable(x, func(i, j int) bool { return asInt64(x[i]) < asInt64(x[j]) })
		return nil
	})
	reg("sort.Slice", func(fr *frame, a []value) value { fr.ex.sortSlice(fr, a[0].(iface).v.([]value), a[1], false); return nil })
	reg("sort.SliceStable", func(fr *frame, a []value) value { fr.ex.sortSlice(fr, a[0].(iface).v.([]value), a[1], true); return nil })

	// ------------------------------------------------------------- sync
	reg("(*sync.Mutex).Lock", func(fr *frame, a []value) value { fr.ex.mutexLock(a[0].(*value)); return nil })
	reg("(*sync.Mutex).Unlock", func(fr *frame, a []value) value { fr.ex.mutexUnlock(a[0].(*value)); return nil })
	reg("(*sync.Mutex).TryLock", func(fr *frame, a []value) value { return fr.ex.mutexTryLock(a[0].(*value)) })
	reg("(*sync.RWMutex).Lock", func(fr *frame, a []value) value { fr.ex.mutexLock(a[0].(*value)); return nil })
	reg("(*sync.RWMutex).Unlock", func(fr *frame, a []value) value { fr.ex.mutexUnlock(a[0].(*value)); return nil })
	reg("(*sync.RWMutex).RLock", func(fr *frame, a []value) value { fr.ex.mutexRLock(a[0].(*value)); return nil })
	reg("(*sync.RWMutex).RUnlock", func(fr *frame, a []value) value { fr.ex.mutexRUnlock(a[0].(*value)); return nil })
	reg("(*sync.WaitGroup).Add", func(fr *frame, a []value) value {
		fr.ex.mstateOf(a[0].(*value)).count += asInt64(a[1])
		return nil
	})
	reg("(*sync.WaitGroup).Done", func(fr *frame, a []value) value { fr.ex.mstateOf(a[0].(*value)).count--; return nil })
	reg("(*sync.WaitGroup).Wait", func(fr *frame, a []value) value {
		m := fr.ex.mstateOf(a[0].(*value))
		fr.ex.block("waitgroup", func() bool { return m.count <= 0 })
		return nil
	})
	reg("(*sync.Once).Do", func(fr *frame, a []value) value {
		m := fr.ex.mstateOf(a[0].(*value))
		if !m.locked {
			m.locked = true
			call(fr.ex, fr, 0, a[1], nil)
		}
		return nil
	})
	// hash/maphash: deterministic FNV-1a over the concrete bytes written
	// (the real one is seeded per process; only equality of digests is observable)
	mhBuf := func(fr *frame, h value) *[]byte {
		p := h.(*value)
		if fr.ex.mapHashes == nil {
			fr.ex.mapHashes = map[*value]*[]byte{}
		}
		b, ok := fr.ex.mapHashes[p]
		if !ok {
			b = &[]byte{}
			fr.ex.mapHashes[p] = b
		}
		return b
	}
	reg("(*hash/maphash.Hash).Reset", func(fr *frame, a []value) value { *mhBuf(fr, a[0]) = nil; return nil })
	reg("(*hash/maphash.Hash).WriteString", func(fr *frame, a []value) value {
		s := strArg(fr, a[1])
		b := mhBuf(fr, a[0])
		*b = append(*b, s...)
		return tuple{len(s), iface{}}
	})
	reg("(*hash/maphash.Hash).Write", func(fr *frame, a []value) value {
		s := strArg(fr, bytesAsText(fr.ex, a[1].([]value)))
		b := mhBuf(fr, a[0])
		*b = append(*b, s...)
		return tuple{len(s), iface{}}
	})
	reg("(*hash/maphash.Hash).WriteByte", func(fr *frame, a []value) value {
		c, ok := a[1].(byte)
		if !ok {
			fr.ex.unsupported("symbolic byte written to maphash")
		}
		b := mhBuf(fr, a[0])
		*b = append(*b, c)
		return iface{}
	})
	reg("(*hash/maphash.Hash).Sum64", func(fr *frame, a []value) value {
		h := uint64(14695981039346656037)
		for _, c := range *mhBuf(fr, a[0]) {
			h ^= uint64(c)
			h *= 1099511628211
		}
		return h
	})
	reg("(*sync.Map).Load", func(fr *frame, a []value) value {
		fr.ex.preemptPoint()
		m := fr.ex.syncMap(a[0].(*value))
		if e := m.find(fr.ex, a[1]); e != nil {
			return tuple{e.v, true}
		}
		return tuple{iface{}, false}
	})
	reg("(*sync.Map).Store", func(fr *frame, a []value) value {
		fr.ex.preemptPoint()
		fr.ex.syncMap(a[0].(*value)).insert(fr.ex, a[1], a[2])
		return nil
	})
	reg("(*sync.Map).Delete", func(fr *frame, a []value) value {
		fr.ex.syncMap(a[0].(*value)).delete(fr.ex, a[1])
		return nil
	})
	reg("(*sync.Map).LoadOrStore", func(fr *frame, a []value) value {
		fr.ex.preemptPoint()
		m := fr.ex.syncMap(a[0].(*value))
		if e := m.find(fr.ex, a[1]); e != nil {
			return tuple{e.v, true}
		}
		m.insert(fr.ex, a[1], a[2])
		return tuple{a[2], false}
	})
	reg("(*sync.Map).Range", func(fr *frame, a []value) value {
		m := fr.ex.syncMap(a[0].(*value))
		for _, e := range m.liveEntries() {
			r := call(fr.ex, fr, 0, a[1], []value{e.k, e.v})
			if !fr.ex.truth(r) {
				break
			}
		}
		return nil
	})
	// semaphore.Weighted (client sync manager)
	reg("golang.org/x/sync/semaphore.NewWeighted", func(fr *frame, a []value) value {
		cell := value(structure{asInt64(a[0])})
		p := &cell
		fr.ex.mstateOf(p).count = asInt64(a[0])
		return p
	})
	reg("(*golang.org/x/sync/semaphore.Weighted).Acquire", func(fr *frame, a []value) value {
		m := fr.ex.mstateOf(a[0].(*value))
		n := asInt64(a[2])
		fr.ex.block("semaphore", func() bool { return m.count >= n })
		m.count -= n
		return iface{}
	})
	reg("(*golang.org/x/sync/semaphore.Weighted).TryAcquire", func(fr *frame, a []value) value {
		m := fr.ex.mstateOf(a[0].(*value))
		n := asInt64(a[1])
		if m.count >= n {
			m.count -= n
			return true
		}
		return false
	})
	reg("(*golang.org/x/sync/semaphore.Weighted).Release", func(fr *frame, a []value) value {
		fr.ex.mstateOf(a[0].(*value)).count += asInt64(a[1])
		return nil
	})

	// ------------------------------------------------------------- ids / hashes
	uid := func(fr *frame, a []value) value {
		fr.ex.uidCounter++
		return fmt.Sprintf("uid%013d", fr.ex.uidCounter)
	}
	reg("github.com/orda-io/orda/client/pkg/types.NewUID", uid)
	reg("github.com/orda-io/orda/client/pkg/types.newUniqueID", uid)
	reg("github.com/orda-io/orda/client/pkg/utils.HashSum", func(fr *frame, a []value) value { return "<hashsum>" })

	// Timestamp.Hash under the injectivity abstraction (discharged by C15)
	reg("(*github.com/orda-io/orda/client/pkg/model.Timestamp).Hash", nil)
	delete(intrinsics, "(*github.com/orda-io/orda/client/pkg/model.Timestamp).Hash")
}

func strSliceToValue(ss []string) value {
	r := make([]value, len(ss))
	for i, s := range ss {
		r[i] = s
	}
	return r
}

func stringToBytes(s string) []value {
	r := make([]value, len(s))
	for i := 0; i < len(s); i++ {
		r[i] = s[i]
	}
	return r
}

func bytesToString(fr *frame, b []value) value {
	if isTextBlob(b) {
		return fromTerm(types.Typ[types.String], b[0].(*jsonBlob).rawStr)
	}
	if len(b) == 1 {
		if jb, ok := b[0].(*jsonBlob); ok {
			if txt, okc := jb.concreteText(); okc {
				return txt
			}
			t := fr.ex.freshVar("blobtext", sString)
			fr.ex.blobOf[t] = jb
			return symv{t}
		}
	}
	bs := make([]byte, len(b))
	for i, v := range b {
		bb, ok := v.(byte)
		if !ok {
			fr.ex.unsupported("symbolic byte in []byte -> string")
		}
		bs[i] = bb
	}
	return string(bs)
}

// mkError builds an *errors.errorString value.
func (ex *exec) mkError(msg value) value {
	cell := value(structure{msg})
	return iface{t: types.NewPointer(ex.prog.errorsErrorString), v: &cell}
}

func (ex *exec) strConcat(a, b value) value {
	if !isSym(a) && !isSym(b) {
		return a.(string) + b.(string)
	}
	return symv{tStrConcat(lift(a, sString), lift(b, sString))}
}

func (ex *exec) writeTo(w iface, s value) {
	if w.t == nil {
		ex.rtPanic("nil io.Writer")
	}
	switch w.t.String() {
	case "*strings.Builder", "*bytes.Buffer":
		st := (*w.v.(*value)).(structure)
		cur := st[1]
		if _, ok := cur.(string); !ok {
			if _, ok2 := cur.(symv); !ok2 {
				cur = ""
			}
		}
		st[1] = ex.strConcat(cur, s)
		return
	}
	// other writers (stdout, files): discard
}

func (ex *exec) syncMap(p *value) *gmap {
	if m, ok := ex.syncMaps[p]; ok {
		return m
	}
	m := makeMap(types.NewInterfaceType(nil, nil))
	ex.syncMaps[p] = m
	return m
}

// isPreemptFn: the function was named with vf.PreemptIn, exactly or by a prefix
// pattern ending in '*' (all methods of a type, so that a helper added to that
// type later is covered as well).
func (ex *exec) isPreemptFn(fn string) bool {
	if v, ok := ex.preemptFns[fn]; ok {
		return v
	}
	hit := false
	for pat := range ex.preemptFns {
		if n := len(pat); n > 0 && pat[n-1] == '*' && len(fn) >= n-1 && fn[:n-1] == pat[:n-1] {
			hit = true
			break
		}
	}
	ex.preemptFns[fn] = hit
	return hit
}

func (ex *exec) cfgPreemptFn(name string) {
	if ex.preemptFns == nil {
		ex.preemptFns = map[string]bool{}
	}
	ex.preemptFns[name] = true
}

// sortSlice runs an insertion sort calling the interpreted less function.
func (ex *exec) sortSlice(fr *frame, x []value, less value, stable bool) {
	for i := 1; i < len(x); i++ {
		for j := i; j > 0; j-- {
			r := call(ex, fr, 0, less, []value{j, j - 1})
			if !ex.truth(r) {
				break
			}
			x[j], x[j-1] = x[j-1], x[j]
		}
	}
}

// assume adds c to the path condition; an infeasible assumption ends the path.
func (ex *exec) assume(c *Term) {
	if c.IsConst() {
		if c.U == 0 {
			ex.abort("assume", "assumption false")
		}
		return
	}
	if ex.replaying() && false {
		return
	}
	ex.assertTerm(c)
	// feasibility is checked lazily: the next decision or assertion queries
	// the solver; but assertions must not pass vacuously, so check now unless
	// we are still replaying a prefix known to be feasible.
	if !ex.replaying() {
		res, _ := ex.check(nil, nil)
		if res == "unsat" {
			ex.abort("assume", "assumptions unsatisfiable")
		}
		if res == "unknown" {
			ex.inconcl = append(ex.inconcl, "solver unknown on assumption feasibility")
		}
	}
}

// assertProp checks a property assertion on the current path.
func (ex *exec) assertProp(c *Term, label string) {
	if c.IsConst() {
		if c.U == 1 {
			ex.assertsTrv++
			return
		}
		ex.recordViolation("assert", label, "assertion is false on this path", nil)
	}
	// pending Hash-injectivity side conditions are part of the path condition already
	res, _ := ex.check(tNot(c), nil)
	switch res {
	case "unsat":
		ex.asserts++
		ex.assertTerm(c)
	case "sat":
		ex.recordViolation("assert", label, "assertion can be false", tNot(c))
	default:
		ex.inconcl = append(ex.inconcl, "solver unknown on assertion "+label+": "+ex.solver.lastErr)
		ex.assertTerm(c)
	}
}

func init() {
	reg(vfPkg+".Tier", func(fr *frame, a []value) value { return fr.ex.cfg.Tier })
}
