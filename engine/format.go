package main

// fmt model.  Concrete arguments are formatted by the real fmt (after calling
// the interpreted Error()/String() methods of the dynamic type); symbolic
// integers and strings under %d/%s/%v become SMT string terms.

import (
	"fmt"
	"go/types"
	"strings"
)

// native converts an interface-typed engine value into a Go value suitable for
// the real fmt package (best effort; aggregates become a descriptive string).
func (ex *exec) native(fr *frame, it iface) (interface{}, bool /*symbolic*/, value) {
	if it.t == nil {
		return nil, false, nil
	}
	if s, ok := it.v.(symv); ok {
		return nil, true, s
	}
	// error / Stringer
	if _, isBasic := it.t.(*types.Basic); !isBasic {
		for _, mname := range []string{"Error", "String"} {
			if m := ex.findMethod(it.t, mname); m != nil && m.Signature.Params().Len() == 0 && m.Signature.Results().Len() == 1 {
				if p, isPtr := it.v.(*value); isPtr && p == nil {
					return "<nil>", false, nil
				}
				r := ex.callQuiet(fr, m, []value{it.v})
				switch rs := r.(type) {
				case string:
					return rs, false, nil
				case symv:
					return nil, true, rs
				}
			}
		}
	}
	switch v := it.v.(type) {
	case bool, int, int8, int16, int32, int64, uint, uint8, uint16, uint32, uint64, uintptr, float32, float64, string:
		return v, false, nil
	case []value:
		if jb := asBlob(v); jb != nil {
			if txt, ok := jb.concreteText(); ok {
				return []byte(txt), false, nil
			}
			return "<json>", false, nil
		}
		if eb, ok := it.t.Underlying().(*types.Slice); ok {
			if bb, ok2 := eb.Elem().Underlying().(*types.Basic); ok2 && bb.Kind() == types.Byte {
				bs := make([]byte, 0, len(v))
				for _, e := range v {
					if b, ok3 := e.(byte); ok3 {
						bs = append(bs, b)
					}
				}
				return bs, false, nil
			}
			if bb, ok2 := eb.Elem().Underlying().(*types.Basic); ok2 && bb.Kind() == types.String {
				ss := make([]string, 0, len(v))
				for _, e := range v {
					if s, ok3 := e.(string); ok3 {
						ss = append(ss, s)
					} else {
						ss = append(ss, "<sym>")
					}
				}
				return ss, false, nil
			}
		}
	}
	return "<" + it.t.String() + ">", false, nil
}

// callQuiet calls an interpreted method; a target panic inside String()/Error()
// propagates like in real fmt (fmt recovers and prints, we simply return a marker).
func (ex *exec) callQuiet(fr *frame, fn value, args []value) (res value) {
	defer func() {
		if r := recover(); r != nil {
			if isEngineCtl(r) {
				panic(r)
			}
			if _, ok := r.(targetPanic); ok {
				res = "%!v(PANIC)"
				return
			}
			panic(r)
		}
	}()
	return call(ex, fr, 0, fn, args)
}

func (ex *exec) fmtInt(t *Term, signed bool) value {
	if t.IsConst() {
		if signed {
			return fmt.Sprint(t.sval())
		}
		return fmt.Sprint(t.U)
	}
	if signed && isNat(t) {
		// a natural number known to be below 2^(w-1) prints like an unsigned one
		if n := t.Args[0]; n.Op == "var" {
			if ub, ok := ex.ubounds[n]; ok && ub < uint64(1)<<uint(t.S.W-1) {
				signed = false
			}
		}
	}
	if !signed {
		n := tBV2Int(t)
		s := tIntToStr(n)
		// lemma instances: str.from_int is injective on non-negative integers
		if _, seen := ex.fromInts[n]; !seen {
			for m, sm := range ex.fromInts {
				ex.assertTerm(tImplies(tEq(s, sm), tEq(n, m)))
			}
			ex.fromInts[n] = s
		}
		// lemma: when the assumptions pin the number of decimal digits, tell the
		// string solver the length of the formatted text (a valid consequence)
		if n.Op == "var" {
			lb, okl := ex.lbounds[n]
			ub, oku := ex.ubounds[n]
			if !okl {
				lb, okl = 0, true
			}
			if okl && oku && ndigits(lb) == ndigits(ub) {
				ex.assertTerm(tEq(tStrLen(s), tIntConst(int64(ndigits(ub)))))
			}
		}
		return symv{s}
	}
	neg := tBVCmp("bvslt", t, tBV(t.S.W, 0))
	pos := tIntToStr(tBV2Int(t))
	ng := tStrConcat(tStr("-"), tIntToStr(tBV2Int(tBVNeg(t))))
	return symv{tIte(neg, ng, pos)}
}

func (ex *exec) sprintf(format value, args []value) value {
	f, ok := format.(string)
	if !ok {
		return symv{ex.freshVar("fmt", sString)}
	}
	// fast path: all concrete
	natives := make([]interface{}, len(args))
	syms := make([]value, len(args))
	anySym := false
	for i, a := range args {
		n, isSym, sv := ex.native(nil, a.(iface))
		natives[i] = n
		if isSym {
			anySym = true
			syms[i] = sv
			natives[i] = "<sym>"
		}
	}
	if !anySym {
		return fmt.Sprintf(f, natives...)
	}
	// piecewise
	var out value = ""
	argi := 0
	i := 0
	for i < len(f) {
		j := strings.IndexByte(f[i:], '%')
		if j < 0 {
			out = ex.strConcat(out, f[i:])
			break
		}
		out = ex.strConcat(out, f[i:i+j])
		i += j
		// parse verb
		k := i + 1
		for k < len(f) && strings.IndexByte("+-# 0123456789.", f[k]) >= 0 {
			k++
		}
		if k >= len(f) {
			out = ex.strConcat(out, f[i:])
			break
		}
		verb := f[i : k+1]
		i = k + 1
		if verb == "%%" {
			out = ex.strConcat(out, "%")
			continue
		}
		if argi >= len(args) {
			out = ex.strConcat(out, "%!"+verb[len(verb)-1:]+"(MISSING)")
			continue
		}
		if syms[argi] == nil {
			out = ex.strConcat(out, fmt.Sprintf(verb, natives[argi]))
			argi++
			continue
		}
		sv := syms[argi].(symv)
		at := args[argi].(iface).t
		argi++
		plain := len(verb) == 2
		switch sv.T.S.K {
		case 'S':
			if plain && (verb[1] == 's' || verb[1] == 'v') {
				out = ex.strConcat(out, sv)
				continue
			}
		case 'V':
			if sv.T.S == sUID {
				break
			}
			if plain && (verb[1] == 'd' || verb[1] == 'v') {
				_, signed, isInt := intInfo(at)
				if !isInt {
					signed = false
				}
				out = ex.strConcat(out, ex.fmtInt(sv.T, signed))
				continue
			}
		case 'B':
			if plain && (verb[1] == 't' || verb[1] == 'v') {
				out = ex.strConcat(out, symv{tIte(sv.T, tStr("true"), tStr("false"))})
				continue
			}
		}
		// anything else: opaque text
		out = ex.strConcat(out, symv{ex.freshVar("fmtarg", sString)})
	}
	return out
}

func (ex *exec) sprint(args []value, ln bool) value {
	natives := make([]interface{}, len(args))
	for i, a := range args {
		n, isSym, _ := ex.native(nil, a.(iface))
		if isSym {
			return symv{ex.freshVar("sprint", sString)}
		}
		natives[i] = n
	}
	if ln {
		return fmt.Sprintln(natives...)
	}
	return fmt.Sprint(natives...)
}

func ndigits(v uint64) int {
	n := 1
	for v >= 10 {
		v /= 10
		n++
	}
	return n
}
