package main

// The SSA interpreter proper (derived from golang.org/x/tools/go/ssa/interp,
// BSD licence): frames, instruction dispatch, calls, defer/recover.

import (
	"fmt"
	"go/token"
	"go/types"
	"os"
	"runtime"
	"slices"
	"strings"

	"golang.org/x/tools/go/ssa"
)

type continuation int

const (
	kNext continuation = iota
	kReturn
	kJump
)

type methodSet map[string]*ssa.Function

type deferred struct {
	fn    value
	args  []value
	instr *ssa.Defer
	tail  *deferred
}

type frame struct {
	ex               *exec
	caller           *frame
	fn               *ssa.Function
	block, prevBlock *ssa.BasicBlock
	env              map[ssa.Value]value
	locals           []value
	defers           *deferred
	result           value
	panicking        bool
	panic            interface{}
	phitemps         []value
}

func (fr *frame) get(key ssa.Value) value {
	switch key := key.(type) {
	case nil:
		return nil
	case *ssa.Function, *ssa.Builtin:
		return key
	case *ssa.Const:
		return constValue(key)
	case *ssa.Global:
		return fr.ex.global(key)
	}
	if r, ok := fr.env[key]; ok {
		return r
	}
	panic(fmt.Sprintf("get: no value for %T: %v", key, key.Name()))
}

// global returns the address of a package-level variable, running the
// owning package's initialiser on first touch.
func (ex *exec) global(g *ssa.Global) *value {
	if r, ok := ex.globals[g]; ok {
		return r
	}
	ex.initPackage(g.Pkg)
	if r, ok := ex.globals[g]; ok {
		return r
	}
	cell := zero(mustDeref(g.Type()))
	ex.globals[g] = &cell
	return &cell
}

// seedGlobal gives pointer-typed globals of un-initialised model packages
// (the loggers) a non-nil dummy object.
func seedGlobal(v *ssa.Global, cell *value) {
	if v.Pkg == nil {
		return
	}
	switch v.Pkg.Pkg.Path() {
	case "github.com/orda-io/orda/client/pkg/log":
		if pt, ok := mustDeref(v.Type()).Underlying().(*types.Pointer); ok {
			obj := zero(pt.Elem())
			*cell = &obj
		}
	}
}

// initPackage allocates the globals of pkg and runs its init function
// (concretely).  Calls from an init into packages outside the interpreted set
// are skipped.
func (ex *exec) initPackage(pkg *ssa.Package) {
	if pkg == nil || ex.inited[pkg] {
		return
	}
	ex.inited[pkg] = true
	for _, m := range pkg.Members {
		if v, ok := m.(*ssa.Global); ok {
			cell := zero(mustDeref(v.Type()))
			seedGlobal(v, &cell)
			ex.globals[v] = &cell
		}
	}
	if !ex.prog.interpreted(pkg.Pkg.Path()) || (!strings.Contains(pkg.Pkg.Path(), ".") && pkg.Pkg.Path() != "context") {
		return // standard library and un-modelled packages: globals stay zero
	}
	if init := pkg.Func("init"); init != nil && init.Blocks != nil {
		ex.inInit++
		callSSABody(ex, nil, token.NoPos, init, nil, nil)
		ex.inInit--
	}
}

func isEngineCtl(p interface{}) bool {
	switch p.(type) {
	case abort, killSignal:
		return true
	}
	return false
}

func (fr *frame) runDefer(d *deferred) {
	var ok bool
	defer func() {
		if !ok {
			r := recover()
			if isEngineCtl(r) {
				panic(r)
			}
			fr.panicking = true
			fr.panic = r
		}
	}()
	call(fr.ex, fr, d.instr.Pos(), d.fn, d.args)
	ok = true
}

func (fr *frame) runDefers() {
	for d := fr.defers; d != nil; d = d.tail {
		fr.runDefer(d)
	}
	fr.defers = nil
	if fr.panicking {
		panic(fr.panic)
	}
}

func lookupMethod(p *program, typ types.Type, meth *types.Func) *ssa.Function {
	switch typ {
	case rtypeType:
		return p.rtypeMethods[meth.Id()]
	case errorType:
		return p.errorMethods[meth.Id()]
	}
	return p.prog.LookupMethod(typ, meth.Pkg(), meth.Name())
}

func visitInstr(fr *frame, instr ssa.Instruction) continuation {
	ex := fr.ex
	ex.steps++
	if ex.steps > ex.cfg.MaxSteps {
		ex.abort("unwind", "more than %d instructions on one path", ex.cfg.MaxSteps)
	}
	switch instr := instr.(type) {
	case *ssa.DebugRef:
		// no-op

	case *ssa.UnOp:
		if instr.Op == token.MUL {
			ex.notePreempt(fr, instr) // a shared-memory load
		}
		fr.env[instr] = ex.unop(fr, instr, fr.get(instr.X))

	case *ssa.BinOp:
		fr.env[instr] = ex.binop(instr.Op, instr.X.Type(), fr.get(instr.X), fr.get(instr.Y))

	case *ssa.Call:
		fn, args := prepareCall(fr, &instr.Call)
		fr.env[instr] = call(ex, fr, instr.Pos(), fn, args)

	case *ssa.ChangeInterface:
		fr.env[instr] = fr.get(instr.X)

	case *ssa.ChangeType:
		fr.env[instr] = fr.get(instr.X)

	case *ssa.Convert:
		fr.env[instr] = ex.conv(instr.Type(), instr.X.Type(), fr.get(instr.X))

	case *ssa.SliceToArrayPointer:
		fr.env[instr] = sliceToArrayPointer(instr.Type(), instr.X.Type(), fr.get(instr.X))

	case *ssa.MakeInterface:
		fr.env[instr] = iface{t: instr.X.Type(), v: fr.get(instr.X)}

	case *ssa.Extract:
		fr.env[instr] = fr.get(instr.Tuple).(tuple)[instr.Index]

	case *ssa.Slice:
		fr.env[instr] = ex.slice(fr, instr, fr.get(instr.X), fr.get(instr.Low), fr.get(instr.High), fr.get(instr.Max))

	case *ssa.Return:
		switch len(instr.Results) {
		case 0:
		case 1:
			fr.result = fr.get(instr.Results[0])
		default:
			var res []value
			for _, r := range instr.Results {
				res = append(res, fr.get(r))
			}
			fr.result = tuple(res)
		}
		fr.block = nil
		return kReturn

	case *ssa.RunDefers:
		fr.runDefers()

	case *ssa.Panic:
		panic(targetPanic{fr.get(instr.X)})

	case *ssa.Send:
		ex.chanSend(fr.get(instr.Chan).(*gchan), fr.get(instr.X))

	case *ssa.Store:
		p := fr.get(instr.Addr).(*value)
		if p == nil {
			ex.rtPanic("invalid memory address or nil pointer dereference")
		}
		ex.notePreempt(fr, instr)
		store(mustDeref(instr.Addr.Type()), p, fr.get(instr.Val))

	case *ssa.If:
		succ := 1
		if ex.truth(fr.get(instr.Cond)) {
			succ = 0
		}
		fr.prevBlock, fr.block = fr.block, fr.block.Succs[succ]
		return kJump

	case *ssa.Jump:
		fr.prevBlock, fr.block = fr.block, fr.block.Succs[0]
		return kJump

	case *ssa.Defer:
		fn, args := prepareCall(fr, &instr.Call)
		defers := &fr.defers
		if into := fr.get(instr.DeferStack); into != nil {
			defers = into.(**deferred)
		}
		*defers = &deferred{fn: fn, args: args, instr: instr, tail: *defers}

	case *ssa.Go:
		fn, args := prepareCall(fr, &instr.Call)
		pos := instr.Pos()
		ex.spawn(func() {
			call(ex, nil, pos, fn, args)
		})

	case *ssa.MakeChan:
		fr.env[instr] = &gchan{cap: int(ex.asIntC(fr.get(instr.Size), "makechan"))}

	case *ssa.Alloc:
		var addr *value
		if instr.Heap {
			addr = new(value)
			fr.env[instr] = addr
		} else {
			addr = fr.env[instr].(*value)
		}
		*addr = zero(mustDeref(instr.Type()))

	case *ssa.MakeSlice:
		c := ex.asIntC(fr.get(instr.Cap), "makeslice")
		l := ex.asIntC(fr.get(instr.Len), "makeslice")
		if l < 0 || c < l || c > 1<<24 {
			ex.rtPanic("makeslice: len out of range")
		}
		slice := make([]value, c)
		tElt := instr.Type().Underlying().(*types.Slice).Elem()
		for i := range slice {
			slice[i] = zero(tElt)
		}
		fr.env[instr] = slice[:l]

	case *ssa.MakeMap:
		fr.env[instr] = makeMap(instr.Type().Underlying().(*types.Map).Key())

	case *ssa.Range:
		fr.env[instr] = ex.rangeIter(fr, fr.get(instr.X), instr.X.Type())

	case *ssa.Next:
		fr.env[instr] = fr.get(instr.Iter).(iter).next()

	case *ssa.FieldAddr:
		p := fr.get(instr.X).(*value)
		if p == nil {
			ex.rtPanic("invalid memory address or nil pointer dereference")
		}
		fr.env[instr] = &(*p).(structure)[instr.Field]

	case *ssa.Field:
		fr.env[instr] = fr.get(instr.X).(structure)[instr.Field]

	case *ssa.IndexAddr:
		x := fr.get(instr.X)
		idx := fr.get(instr.Index)
		switch x := x.(type) {
		case []value:
			i := ex.indexCheck(idx, len(x), ex.prog.pos(instr.Pos()))
			fr.env[instr] = &x[i]
		case *value: // *array
			if x == nil {
				ex.rtPanic("invalid memory address or nil pointer dereference")
			}
			a := (*x).(array)
			i := ex.indexCheck(idx, len(a), ex.prog.pos(instr.Pos()))
			fr.env[instr] = &a[i]
		default:
			panic(fmt.Sprintf("unexpected x type in IndexAddr: %T", x))
		}

	case *ssa.Index:
		x := fr.get(instr.X)
		idx := fr.get(instr.Index)
		switch x := x.(type) {
		case array:
			fr.env[instr] = x[ex.indexCheck(idx, len(x), ex.prog.pos(instr.Pos()))]
		case string:
			fr.env[instr] = x[ex.indexCheck(idx, len(x), ex.prog.pos(instr.Pos()))]
		default:
			panic(fmt.Sprintf("unexpected x type in Index: %T", x))
		}

	case *ssa.Lookup:
		fr.env[instr] = ex.lookup(instr, fr.get(instr.X), fr.get(instr.Index))

	case *ssa.MapUpdate:
		m := fr.get(instr.Map).(*gmap)
		if m == nil {
			ex.rtPanic("assignment to entry in nil map")
		}
		m.insert(ex, fr.get(instr.Key), fr.get(instr.Value))

	case *ssa.TypeAssert:
		fr.env[instr] = ex.typeAssert(instr, fr.get(instr.X).(iface))

	case *ssa.MakeClosure:
		var bindings []value
		for _, binding := range instr.Bindings {
			bindings = append(bindings, fr.get(binding))
		}
		fr.env[instr] = &closure{instr.Fn.(*ssa.Function), bindings}

	case *ssa.Phi:
		panic("unreachable: phi")

	case *ssa.Select:
		var cases []selCase
		for _, state := range instr.States {
			c := selCase{ch: fr.get(state.Chan).(*gchan), send: state.Dir == types.SendOnly}
			if state.Send != nil {
				c.val = fr.get(state.Send)
			}
			cases = append(cases, c)
		}
		chosen, recv, recvOk := ex.selectOp(cases, !instr.Blocking)
		r := tuple{chosen, recvOk}
		for i, st := range instr.States {
			if st.Dir == types.RecvOnly {
				var v value
				if i == chosen && recvOk {
					v = recv
				} else {
					v = zero(st.Chan.Type().Underlying().(*types.Chan).Elem())
				}
				r = append(r, v)
			}
		}
		fr.env[instr] = r

	default:
		panic(fmt.Sprintf("unexpected instruction: %T", instr))
	}
	return kNext
}

// notePreempt marks stores inside the configured functions as preemption points.
func (ex *exec) notePreempt(fr *frame, instr ssa.Instruction) {
	if ex.cfg.Interleave && ex.preempt > 0 && ex.preemptFns != nil && ex.isPreemptFn(fr.fn.String()) {
		ex.preemptPoint()
	}
}

func prepareCall(fr *frame, call *ssa.CallCommon) (fn value, args []value) {
	v := fr.get(call.Value)
	if call.Method == nil {
		fn = v
	} else {
		recv := v.(iface)
		if recv.t == nil {
			fr.ex.rtPanic("invalid memory address or nil pointer dereference (method call on nil interface)")
		}
		if f := lookupMethod(fr.ex.prog, recv.t, call.Method); f == nil {
			panic(fmt.Sprintf("method set for dynamic type %v does not contain %s", recv.t, call.Method))
		} else {
			fn = f
		}
		args = append(args, recv.v)
	}
	for _, arg := range call.Args {
		args = append(args, fr.get(arg))
	}
	return
}

func call(ex *exec, caller *frame, callpos token.Pos, fn value, args []value) value {
	switch fn := fn.(type) {
	case *ssa.Function:
		if fn == nil {
			ex.rtPanic("invalid memory address or nil pointer dereference (call of nil func)")
		}
		return callSSA(ex, caller, callpos, fn, args, nil)
	case *closure:
		return callSSA(ex, caller, callpos, fn.Fn, args, fn.Env)
	case *ssa.Builtin:
		return ex.callBuiltin(caller, callpos, fn, args)
	}
	panic(fmt.Sprintf("cannot call %T", fn))
}

func callSSA(ex *exec, caller *frame, callpos token.Pos, fn *ssa.Function, args []value, env []value) value {
	fr := &frame{ex: ex, caller: caller, fn: fn}
	name := fn.String()
	if ex.hashAbstract && fn == ex.prog.hashFn {
		return ex.hashModel(args)
	}
	if ex.bypassIntrinsic == fn {
		ex.bypassIntrinsic = nil // one call of the real body (vf.RealFormatting)
	} else if ext := ex.prog.intrinsic(fn, name); ext != nil {
		return ext(fr, args)
	}
	if ex.inInit > 0 && fn.Pkg != nil && fn.Name() == "init" && fn == fn.Pkg.Func("init") {
		ex.initPackage(fn.Pkg)
		return nil
	}
	pkgPath := ex.prog.pkgPathOf(fn)
	if !ex.prog.interpreted(pkgPath) {
		if ex.inInit > 0 {
			// registration calls from package initialisers
			return zeroResult(fn)
		}
		ex.unsupported("call to %s (package %q is outside the interpreted set and has no model)", name, pkgPath)
	}
	if fn.Blocks == nil {
		ex.unsupported("no code for function %s", name)
	}
	if fn.TypeParams().Len() > 0 && len(fn.TypeArgs()) == 0 {
		panic("generic function body")
	}
	if ex.prog.isRepoFn(fn) {
		ex.funcs[name] = true
	}
	if ex.local == nil && ex.prog.pure[name] && anySym(args) {
		if v, ok := ex.summarize(caller, callpos, fn, args, env); ok {
			return v
		}
	}
	return callSSABody(ex, caller, callpos, fn, args, env)
}

// anySym reports whether an argument (or a struct it points to) holds a symbolic scalar.
func anySym(args []value) bool {
	for _, a := range args {
		switch x := a.(type) {
		case symv:
			return true
		case *value:
			if x != nil {
				if st, ok := (*x).(structure); ok {
					for _, f := range st {
						if isSym(f) {
							return true
						}
					}
				}
			}
		}
	}
	return false
}

func callSSABody(ex *exec, caller *frame, callpos token.Pos, fn *ssa.Function, args []value, env []value) value {
	fr := &frame{ex: ex, caller: caller, fn: fn}
	name := fn.String()
	ex.depth++
	if ex.depth > 400 {
		ex.abort("unwind", "call depth > 400 at %s", name)
	}
	defer func() { ex.depth-- }()

	fr.env = make(map[ssa.Value]value)
	fr.block = fn.Blocks[0]
	fr.locals = make([]value, len(fn.Locals))
	for i, l := range fn.Locals {
		fr.locals[i] = zero(mustDeref(l.Type()))
		fr.env[l] = &fr.locals[i]
	}
	for i, p := range fn.Params {
		fr.env[p] = args[i]
	}
	for i, fv := range fn.FreeVars {
		fr.env[fv] = env[i]
	}
	for fr.block != nil {
		runFrame(fr)
	}
	return fr.result
}

func zeroResult(fn *ssa.Function) value {
	res := fn.Signature.Results()
	switch res.Len() {
	case 0:
		return nil
	case 1:
		return zero(res.At(0).Type())
	}
	return zero(res)
}

func runFrame(fr *frame) {
	defer func() {
		if fr.block == nil {
			return // normal return
		}
		r := recover()
		if isEngineCtl(r) {
			panic(r)
		}
		if re, ok := r.(runtime.Error); ok {
			// a Go run-time error inside the engine itself is an engine bug,
			// never a finding about the target
			buf := make([]byte, 1<<14)
			buf = buf[:runtime.Stack(buf, false)]
			panic(abort{"engine", fmt.Sprintf("engine run-time error: %v in %s\n%s", re, fr.fn, trimStack(string(buf)))})
		}
		if s, ok := r.(string); ok {
			panic(abort{"engine", "engine panic: " + s + " in " + fr.fn.String()})
		}
		if _, ok := r.(targetPanic); !ok {
			panic(abort{"engine", fmt.Sprintf("engine panic: %v in %s", r, fr.fn)})
		}
		fr.panicking = true
		fr.panic = r
		if fr.ex.panicSite == "" {
			s := ""
			for f, n := fr, 0; f != nil && n < 12; f, n = f.caller, n+1 {
				s += " <- " + f.fn.String()
			}
			fr.ex.panicSite = s
		}
		if fr.ex.cfg.Verbose {
			fmt.Fprintf(os.Stderr, "Panicking in %s: %v\n", fr.fn, toString(r.(targetPanic).v))
		}
		fr.runDefers()
		fr.block = fr.fn.Recover
	}()

	for {
		nonPhis := executePhis(fr)
		for _, instr := range nonPhis {
			if fr.ex.cfg.Trace {
				if v, ok := instr.(ssa.Value); ok {
					fmt.Fprintln(os.Stderr, "\t", fr.fn.Name(), v.Name(), "=", instr)
				} else {
					fmt.Fprintln(os.Stderr, "\t", fr.fn.Name(), instr)
				}
			}
			if visitInstr(fr, instr) == kReturn {
				return
			}
		}
	}
}

func trimStack(s string) string {
	lines := strings.Split(s, "\n")
	if len(lines) > 24 {
		lines = lines[:24]
	}
	return strings.Join(lines, "\n")
}

func executePhis(fr *frame) []ssa.Instruction {
	firstNonPhi := -1
	for i, instr := range fr.block.Instrs {
		if _, ok := instr.(*ssa.Phi); !ok {
			firstNonPhi = i
			break
		}
	}
	nonPhis := fr.block.Instrs[firstNonPhi:]
	if firstNonPhi > 0 {
		phis := fr.block.Instrs[:firstNonPhi]
		predIndex := slices.Index(fr.block.Preds, fr.prevBlock)
		fr.phitemps = fr.phitemps[:0]
		for _, phi := range phis {
			phi := phi.(*ssa.Phi)
			fr.phitemps = append(fr.phitemps, fr.get(phi.Edges[predIndex]))
		}
		for i, phi := range phis {
			fr.env[phi.(*ssa.Phi)] = fr.phitemps[i]
		}
	}
	return nonPhis
}

func doRecover(caller *frame) value {
	if caller != nil && !caller.panicking &&
		caller.caller != nil && caller.caller.panicking {
		caller.caller.panicking = false
		caller.ex.panicSite = ""
		p := caller.caller.panic
		caller.caller.panic = nil
		switch p := p.(type) {
		case targetPanic:
			return p.v
		default:
			panic(fmt.Sprintf("unexpected panic type %T in target call to recover()", p))
		}
	}
	return iface{}
}
