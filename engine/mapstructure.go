package main

// Model of the one use the code under test makes of github.com/mitchellh/
// mapstructure: NewDecoder(&DecoderConfig{TagName: t, Result: &map}) followed by
// Decode(aStruct), i.e. "struct to map[string]interface{} by tag".  Contract
// (mapstructure v1.4, decodeMapFromStruct): every exported field becomes an entry
// named by the first part of its tag (the field name when there is no tag, no
// entry for "-"; ",omitempty" drops zero values; ",squash" is not modelled);
// a field that is itself a struct becomes a nested map; every other value is
// stored as it is, with its Go type.

import (
	"go/types"
	"reflect"
	"strings"
)

const msPath = "github.com/mitchellh/mapstructure"

func (ex *exec) structField(st structure, t types.Type, name string) value {
	u := t.Underlying().(*types.Struct)
	for i := 0; i < u.NumFields(); i++ {
		if u.Field(i).Name() == name {
			return st[i]
		}
	}
	ex.unsupported("mapstructure model: no field %s", name)
	return nil
}

func (ex *exec) msStructToMap(t types.Type, v value, tagName string) value {
	u := t.Underlying().(*types.Struct)
	st := v.(structure)
	m := makeMap(types.Typ[types.String])
	for i := 0; i < u.NumFields(); i++ {
		f := u.Field(i)
		if !f.Exported() {
			continue
		}
		name := f.Name()
		tag := reflect.StructTag(u.Tag(i)).Get(tagName)
		parts := strings.Split(tag, ",")
		if parts[0] == "-" {
			continue
		}
		if parts[0] != "" {
			name = parts[0]
		}
		for _, o := range parts[1:] {
			if o == "squash" {
				ex.unsupported("mapstructure model: ,squash")
			}
			if o == "omitempty" && !isSym(st[i]) && equals(f.Type(), st[i], zero(f.Type())) {
				name = ""
			}
		}
		if name == "" {
			continue
		}
		ft := f.Type()
		if _, isStruct := ft.Underlying().(*types.Struct); isStruct {
			m.insert(ex, name, iface{types.NewMap(types.Typ[types.String], emptyIface), ex.msStructToMap(ft, st[i], tagName)})
			continue
		}
		if _, isIface := ft.Underlying().(*types.Interface); isIface {
			m.insert(ex, name, st[i])
			continue
		}
		m.insert(ex, name, iface{ft, st[i]})
	}
	return m
}

func init() {
	reg(msPath+".NewDecoder", func(fr *frame, a []value) value {
		// the decoder is its configuration
		d := fr.ex.mkStruct(msPath, "Decoder", map[string]value{"config": a[0]})
		return tuple{d, iface{}}
	})
	reg("(*"+msPath+".Decoder).Decode", func(fr *frame, a []value) value {
		ex := fr.ex
		dt := ex.prog.namedType(msPath, "Decoder")
		cfgPtr := ex.structField((*a[0].(*value)).(structure), dt, "config").(*value)
		ct := ex.prog.namedType(msPath, "DecoderConfig")
		cfg := (*cfgPtr).(structure)
		tagName, _ := ex.structField(cfg, ct, "TagName").(string)
		if tagName == "" {
			tagName = "mapstructure"
		}
		res, ok := ex.structField(cfg, ct, "Result").(iface)
		in, ok2 := a[1].(iface)
		if !ok || !ok2 || in.t == nil {
			ex.unsupported("mapstructure model: Decode of a nil input or into a nil result")
		}
		it := in.t
		iv := in.v
		if p, isPtr := it.Underlying().(*types.Pointer); isPtr {
			pv := iv.(*value)
			if pv == nil {
				ex.unsupported("mapstructure model: nil pointer input")
			}
			it, iv = p.Elem(), *pv
		}
		if _, isStruct := it.Underlying().(*types.Struct); !isStruct {
			ex.unsupported("mapstructure model: only struct inputs are modelled")
		}
		rp, isPtr := res.v.(*value)
		if !isPtr || rp == nil {
			ex.unsupported("mapstructure model: Result must be a pointer to a map")
		}
		*rp = ex.msStructToMap(it, iv, tagName)
		return iface{}
	})
}
