package main

// Loading /repo's current working tree (plus overlay harness files) into SSA.

import (
	"encoding/json"
	"fmt"
	"go/token"
	"go/types"
	"os"
	"path/filepath"
	"strings"
	"sync"

	"golang.org/x/tools/go/packages"
	"golang.org/x/tools/go/ssa"
	"golang.org/x/tools/go/ssa/ssautil"
)

type program struct {
	prog               *ssa.Program
	pkgs               []*ssa.Package
	fset               *token.FileSet
	rtypeMethods       methodSet
	errorMethods       methodSet
	runtimeErrorString types.Type
	errorsErrorString  types.Type
	sizes              types.Sizes
	interpSet          []string // package path prefixes executed as code
	repoRoot           string
	mu                 sync.Mutex
	intrinsicCache     map[*ssa.Function]externalFn
	intrinsicMiss      map[*ssa.Function]bool
	stubNames          map[string]bool // intrinsics used (for evidence)
	hashFn             *ssa.Function
	pure               map[string]bool // functions summarised instead of forked
}

func (p *program) runtimeError(msg string) value {
	return iface{p.runtimeErrorString, msg}
}

func (p *program) pos(pos token.Pos) string {
	if pos == token.NoPos {
		return "?"
	}
	ps := p.fset.Position(pos)
	f := ps.Filename
	if strings.HasPrefix(f, p.repoRoot+"/") {
		f = f[len(p.repoRoot)+1:]
	}
	return fmt.Sprintf("%s:%d", f, ps.Line)
}

func (p *program) pkgPathOf(fn *ssa.Function) string {
	if fn.Pkg != nil {
		return fn.Pkg.Pkg.Path()
	}
	// method wrappers, instantiations, bound methods
	if o := fn.Origin(); o != nil && o.Pkg != nil {
		return o.Pkg.Pkg.Path()
	}
	if fn.Object() != nil && fn.Object().Pkg() != nil {
		return fn.Object().Pkg().Path()
	}
	if fn.Parent() != nil {
		return p.pkgPathOf(fn.Parent())
	}
	if fn.Signature.Recv() != nil {
		t := fn.Signature.Recv().Type()
		if pt, ok := t.(*types.Pointer); ok {
			t = pt.Elem()
		}
		if n, ok := t.(*types.Named); ok && n.Obj().Pkg() != nil {
			return n.Obj().Pkg().Path()
		}
	}
	// synthetic wrappers: take package from name
	name := fn.String()
	name = strings.TrimLeft(name, "(*")
	if i := strings.LastIndex(name, "/"); i >= 0 {
		rest := name[i+1:]
		if j := strings.IndexAny(rest, ".)"); j >= 0 {
			return name[:i+1+j]
		}
	}
	if j := strings.IndexAny(name, ".)"); j >= 0 {
		return name[:j]
	}
	return ""
}

func (p *program) interpreted(path string) bool {
	for _, pre := range p.interpSet {
		if path == pre || strings.HasPrefix(path, pre+"/") {
			return true
		}
	}
	return false
}

func (p *program) isRepoFn(fn *ssa.Function) bool {
	pos := fn.Pos()
	if pos == token.NoPos {
		return false
	}
	f := p.fset.Position(pos).Filename
	return strings.HasPrefix(f, p.repoRoot+"/") && !strings.Contains(filepath.Base(f), "zz_vf")
}

type loadSpec struct {
	Dir      string            // module directory (e.g. /repo/client)
	Patterns []string          // packages to load
	Overlay  map[string]string // virtual path -> real file
	Tags     []string
}

// harness files set aside because they do not build against the current tree
var (
	droppedOverlayFiles = map[string]bool{}
	droppedMu           sync.Mutex
)

func loadProgram(spec loadSpec, repoRoot string) (*program, error) {
	overlay := map[string][]byte{}
	for virt, real := range spec.Overlay {
		b, err := os.ReadFile(real)
		if err != nil {
			return nil, err
		}
		overlay[virt] = b
	}
	env := append(os.Environ(), "GOFLAGS=-mod=mod", "GOPROXY=off", "GOSUMDB=off", "GOTOOLCHAIN=local", "CGO_ENABLED=0")
	cfg := &packages.Config{
		Mode:    packages.LoadAllSyntax,
		Dir:     spec.Dir,
		Overlay: overlay,
		Env:     env,
		Tests:   false,
	}
	if len(spec.Tags) > 0 {
		cfg.BuildFlags = []string{"-tags=" + strings.Join(spec.Tags, ",")}
	}
	var initial []*packages.Package
	for round := 0; ; round++ {
		var err error
		initial, err = packages.Load(cfg, spec.Patterns...)
		if err != nil {
			return nil, err
		}
		var errs []string
		broken := map[string]bool{}
		foreign := false
		packages.Visit(initial, nil, func(p *packages.Package) {
			for _, e := range p.Errors {
				errs = append(errs, e.Error())
				file := e.Pos
				if i := strings.Index(file, ":"); i >= 0 {
					file = file[:i]
				}
				if _, isOverlay := overlay[file]; isOverlay && strings.HasPrefix(filepath.Base(file), "zz_vf") {
					broken[file] = true
				} else {
					foreign = true
				}
			}
		})
		if len(errs) == 0 {
			break
		}
		// A change to the code under test may break single harness files (a signature they
		// use has changed).  Those files are set aside - their harnesses are reported as
		// missing, i.e. inconclusive - and the others still run.
		if foreign || len(broken) == 0 || round >= 4 {
			if len(errs) > 12 {
				errs = errs[:12]
			}
			return nil, fmt.Errorf("harness does not build against the current tree:\n%s", strings.Join(errs, "\n"))
		}
		for f := range broken {
			delete(overlay, f)
			droppedMu.Lock()
			droppedOverlayFiles[f] = true
			droppedMu.Unlock()
			fmt.Printf("INCONCLUSIVE: harness file %s does not build against the current tree and is set aside (%s)\n", strings.TrimPrefix(f, repoRoot+"/"), firstLine(errs[0]))
		}
	}
	prog, pkgs := ssautil.AllPackages(initial, ssa.InstantiateGenerics|ssa.SanityCheckFunctions&0)
	prog.Build()
	p := &program{
		prog:           prog,
		pkgs:           pkgs,
		fset:           prog.Fset,
		sizes:          types.SizesFor("gc", "amd64"),
		repoRoot:       repoRoot,
		intrinsicCache: map[*ssa.Function]externalFn{},
		intrinsicMiss:  map[*ssa.Function]bool{},
		stubNames:      map[string]bool{},
	}
	rt := prog.ImportedPackage("runtime")
	if rt == nil {
		return nil, fmt.Errorf("program does not include runtime")
	}
	p.runtimeErrorString = rt.Type("errorString").Object().Type()
	if ep := prog.ImportedPackage("errors"); ep != nil {
		p.errorsErrorString = ep.Type("errorString").Object().Type()
	}
	initReflect(p)
	if mp := prog.ImportedPackage("github.com/orda-io/orda/client/pkg/model"); mp != nil {
		if ts := mp.Type("Timestamp"); ts != nil {
			p.hashFn = prog.LookupMethod(types.NewPointer(ts.Type()), mp.Pkg, "Hash")
		}
	}
	return p, nil
}

// findFunc locates pkgpath.Func among the loaded packages.
func (p *program) findFunc(pkgPath, name string) *ssa.Function {
	for _, pkg := range p.prog.AllPackages() {
		if pkg.Pkg.Path() == pkgPath {
			return pkg.Func(name)
		}
	}
	return nil
}

func readJSON(path string, v interface{}) error {
	b, err := os.ReadFile(path)
	if err != nil {
		return err
	}
	return json.Unmarshal(b, v)
}
