package main

// SMT terms: immutable DAG nodes with light constant folding.  Integers of
// every Go width are bit-vectors (Go's wrap-around semantics map 1:1),
// strings are SMT strings, float64 is the FP sort.

import (
	"fmt"
	"math"
	"math/big"
	"strconv"
	"strings"
	"sync"
	"sync/atomic"
)

type Sort struct {
	K byte // 'B' bool, 'V' bitvec, 'S' string, 'F' float64, 'I' int
	W int  // width for 'V'
}

var (
	sBool   = Sort{'B', 0}
	sString = Sort{'S', 0}
	sF64    = Sort{'F', 0}
	sInt    = Sort{'I', 0}
)

func sBV(w int) Sort { return Sort{'V', w} }

// sUID is the sort of fixed-length (16 byte) identifier strings: a 128-bit
// vector whose unsigned order is the byte-wise lexicographic string order.
// (Encoded as a mathematical integer in [0, 2^128): only equality and order
// are ever applied to identifiers, and linear-order reasoning over Int is far
// cheaper for the solver than 128-bit comparators.)
var sUID = Sort{'I', 0}

func tUIDConst(s string) *Term {
	if len(s) != 16 {
		panic("tUIDConst: length")
	}
	v := new(big.Int).SetBytes([]byte(s))
	return intern("const", sUID, v.String(), 0, 0, nil)
}

var uidLimit = new(big.Int).Lsh(big.NewInt(1), 128).String()

func tUIDRange(x *Term) *Term {
	lim := intern("const", sUID, uidLimit, 0, 0, nil)
	return tAnd(mk("<=", sBool, tIntConst(0), x), mk("<", sBool, x, lim))
}

func tIntLt(a, b *Term) *Term {
	if a == b {
		return tFalse
	}
	if a.IsConst() && b.IsConst() {
		x, _ := new(big.Int).SetString(a.intText(), 10)
		y, _ := new(big.Int).SetString(b.intText(), 10)
		return tBool(x.Cmp(y) < 0)
	}
	return mk("<", sBool, a, b)
}

func (t *Term) intText() string {
	if t.Str != "" {
		return t.Str
	}
	return strconv.FormatInt(int64(t.U), 10)
}

func (s Sort) smt() string {
	switch s.K {
	case 'B':
		return "Bool"
	case 'V':
		return fmt.Sprintf("(_ BitVec %d)", s.W)
	case 'S':
		return "String"
	case 'F':
		return "(_ FloatingPoint 11 53)"
	case 'I':
		return "Int"
	}
	panic("bad sort")
}

type Term struct {
	Op   string // "var", "const", or SMT operator
	Args []*Term
	S    Sort
	// const payloads
	U    uint64 // bitvec / bool(0,1)
	Str  string // string const / var name / parametrised op text
	F    float64
	id   uint64
	size int
}

var termCounter uint64

// Terms are hash-consed (structurally equal terms are the same pointer), so
// pointer equality gives cheap syntactic simplification and a per-path table
// of already decided facts can answer repeated branch conditions without the
// solver.
type termKey4 struct {
	op         string
	s          Sort
	str        string
	u          uint64
	f          uint64
	n          int
	a0, a1, a2 uint64
	rest       string
}

const internShards = 64

var internTab [internShards]struct {
	mu sync.Mutex
	m  map[termKey4]*Term
}

func init() {
	for i := range internTab {
		internTab[i].m = map[termKey4]*Term{}
	}
}

func intern(op string, s Sort, str string, u uint64, f float64, args []*Term) *Term {
	k := termKey4{op: op, s: s, str: str, u: u, f: math.Float64bits(f), n: len(args)}
	h := uint64(len(op))*1315423911 ^ u ^ k.f
	for i := 0; i < len(op); i++ {
		h = h*31 + uint64(op[i])
	}
	for i := 0; i < len(str); i++ {
		h = h*131 + uint64(str[i])
	}
	for i, a := range args {
		switch i {
		case 0:
			k.a0 = a.id
		case 1:
			k.a1 = a.id
		case 2:
			k.a2 = a.id
		default:
			k.rest += strconv.FormatUint(a.id, 36) + ","
		}
		h = h*1000003 + a.id
	}
	sh := &internTab[h%internShards]
	sh.mu.Lock()
	defer sh.mu.Unlock()
	if t, ok := sh.m[k]; ok {
		return t
	}
	sz := 1
	for _, a := range args {
		sz += a.size
	}
	t := &Term{Op: op, S: s, Args: args, Str: str, U: u, F: f, id: atomic.AddUint64(&termCounter, 1), size: sz}
	sh.m[k] = t
	return t
}

func mk(op string, s Sort, args ...*Term) *Term {
	return intern(op, s, "", 0, 0, args)
}

func mkS(op string, s Sort, str string, args ...*Term) *Term {
	return intern(op, s, str, 0, 0, args)
}

func (t *Term) IsConst() bool { return t.Op == "const" }

func mask(w int) uint64 {
	if w >= 64 {
		return ^uint64(0)
	}
	return (uint64(1) << uint(w)) - 1
}

func tBV(w int, v uint64) *Term {
	return intern("const", sBV(w), "", v&mask(w), 0, nil)
}

var tTrue, tFalse *Term

func init() {
	tTrue = intern("const", sBool, "", 1, 0, nil)
	tFalse = intern("const", sBool, "", 0, 0, nil)
}

func tBool(b bool) *Term {
	if b {
		return tTrue
	}
	return tFalse
}

func tStr(s string) *Term { return intern("const", sString, s, 0, 0, nil) }

func tF64(f float64) *Term { return intern("const", sF64, "", 0, f, nil) }

func tIntConst(v int64) *Term { return intern("const", sInt, "", uint64(v), 0, nil) }

func tVar(name string, s Sort) *Term { return intern("var", s, name, 0, 0, nil) }

// signed value of a bitvec const
func (t *Term) sval() int64 {
	w := t.S.W
	if w >= 64 {
		return int64(t.U)
	}
	if t.U&(uint64(1)<<uint(w-1)) != 0 {
		return int64(t.U | ^mask(w))
	}
	return int64(t.U)
}

func tNot(a *Term) *Term {
	if a.IsConst() {
		return tBool(a.U == 0)
	}
	if a.Op == "not" {
		return a.Args[0]
	}
	return mk("not", sBool, a)
}

func tAnd(a, b *Term) *Term {
	if a.IsConst() {
		if a.U == 0 {
			return tFalse
		}
		return b
	}
	if b.IsConst() {
		if b.U == 0 {
			return tFalse
		}
		return a
	}
	if a == b {
		return a
	}
	return mk("and", sBool, a, b)
}

func tOr(a, b *Term) *Term {
	if a.IsConst() {
		if a.U == 1 {
			return tTrue
		}
		return b
	}
	if b.IsConst() {
		if b.U == 1 {
			return tTrue
		}
		return a
	}
	if a == b {
		return a
	}
	return mk("or", sBool, a, b)
}

func tImplies(a, b *Term) *Term { return tOr(tNot(a), b) }

func tIte(c, a, b *Term) *Term {
	if c.IsConst() {
		if c.U == 1 {
			return a
		}
		return b
	}
	if a == b {
		return a
	}
	if a.S == sBool {
		return tOr(tAnd(c, a), tAnd(tNot(c), b))
	}
	return mk("ite", a.S, c, a, b)
}

func tEq(a, b *Term) *Term {
	if a == b {
		return tTrue
	}
	if (isNat(a) || isNat(b)) && a.S == b.S {
		if x, ok := natOrConst(a); ok {
			if y, ok2 := natOrConst(b); ok2 {
				return tEq(x, y)
			}
		}
	}
	if a.S.K == 'V' && a.S == b.S {
		// x + c1 == x + c2  <=>  c1 == c2 ;  x == x + c  <=>  c == 0   (modular arithmetic)
		base := func(t *Term) (*Term, uint64) {
			if t.Op == "bvadd" && t.Args[1].IsConst() {
				return t.Args[0], t.Args[1].U
			}
			return t, 0
		}
		xa, ca := base(a)
		xb, cb := base(b)
		if xa == xb {
			return tBool(ca == cb)
		}
	}
	if a.S != b.S {
		panic(fmt.Sprintf("tEq: sort mismatch %v %v (%s vs %s)", a.S, b.S, a.smtDebug(), b.smtDebug()))
	}
	if a.IsConst() && b.IsConst() {
		switch a.S.K {
		case 'I':
			return tBool(a.intText() == b.intText())
		case 'B', 'V':
			return tBool(a.U == b.U)
		case 'S':
			return tBool(a.Str == b.Str)
		case 'F':
			return tBool(a.F == b.F)
		}
	}
	if a.S.K == 'F' {
		return mk("fp.eq", sBool, a, b)
	}
	if a.Op == "app" && b.Op == "app" && a.Str == "vfhash" && b.Str == "vfhash" {
		// Hash is treated as injective (assumption discharged by C15)
		acc := tTrue
		for i := range a.Args {
			acc = tAnd(acc, tEq(a.Args[i], b.Args[i]))
		}
		return acc
	}
	if a.S == sBool {
		if a.IsConst() {
			if a.U == 1 {
				return b
			}
			return tNot(b)
		}
		if b.IsConst() {
			if b.U == 1 {
				return a
			}
			return tNot(a)
		}
	}
	if a.id > b.id {
		a, b = b, a
	}
	return mk("=", sBool, a, b)
}

// bit-vector binary arithmetic with folding
func tBVBin(op string, a, b *Term) *Term {
	w := a.S.W
	if a.S != b.S {
		panic(fmt.Sprintf("tBVBin %s: sort mismatch %v %v", op, a.S, b.S))
	}
	if a.IsConst() && b.IsConst() {
		x, y := a.U, b.U
		switch op {
		case "bvadd":
			return tBV(w, x+y)
		case "bvsub":
			return tBV(w, x-y)
		case "bvmul":
			return tBV(w, x*y)
		case "bvand":
			return tBV(w, x&y)
		case "bvor":
			return tBV(w, x|y)
		case "bvxor":
			return tBV(w, x^y)
		case "bvshl":
			if y >= uint64(w) {
				return tBV(w, 0)
			}
			return tBV(w, x<<y)
		case "bvlshr":
			if y >= uint64(w) {
				return tBV(w, 0)
			}
			return tBV(w, x>>y)
		case "bvashr":
			s := a.sval()
			if y >= uint64(w) {
				y = uint64(w - 1)
			}
			return tBV(w, uint64(s>>y))
		case "bvudiv":
			if y != 0 {
				return tBV(w, x/y)
			}
		case "bvurem":
			if y != 0 {
				return tBV(w, x%y)
			}
		case "bvsdiv":
			if y != 0 {
				sa, sb := a.sval(), b.sval()
				if !(sa == math.MinInt64 && sb == -1) {
					return tBV(w, uint64(sa/sb))
				}
			}
		case "bvsrem":
			if y != 0 {
				sa, sb := a.sval(), b.sval()
				if !(sa == math.MinInt64 && sb == -1) {
					return tBV(w, uint64(sa%sb))
				}
			}
		}
	}
	// identities
	switch op {
	case "bvadd":
		if a.IsConst() && a.U == 0 {
			return b
		}
		if b.IsConst() && b.U == 0 {
			return a
		}
		// (x + c1) + c2 -> x + (c1+c2)
		if b.IsConst() && a.Op == "bvadd" && a.Args[1].IsConst() {
			return tBVBin("bvadd", a.Args[0], tBV(w, a.Args[1].U+b.U))
		}
	case "bvsub":
		if b.IsConst() && b.U == 0 {
			return a
		}
		if a == b {
			return tBV(w, 0)
		}
		if b.IsConst() {
			return tBVBin("bvadd", a, tBV(w, -b.U))
		}
	case "bvmul":
		if b.IsConst() && b.U == 1 {
			return a
		}
		if a.IsConst() && a.U == 1 {
			return b
		}
	}
	return mk(op, a.S, a, b)
}

func tBVCmp(op string, a, b *Term) *Term {
	if a.S != b.S {
		panic(fmt.Sprintf("tBVCmp %s: sort mismatch %v %v", op, a.S, b.S))
	}
	if (isNat(a) || isNat(b)) && strings.HasPrefix(op, "bvu") {
		if x, ok := natOrConst(a); ok {
			if y, ok2 := natOrConst(b); ok2 {
				switch op {
				case "bvult":
					return tIntLt(x, y)
				case "bvugt":
					return tIntLt(y, x)
				case "bvule":
					return tNot(tIntLt(y, x))
				case "bvuge":
					return tNot(tIntLt(x, y))
				}
			}
		}
	}
	if a.IsConst() && b.IsConst() {
		switch op {
		case "bvult":
			return tBool(a.U < b.U)
		case "bvule":
			return tBool(a.U <= b.U)
		case "bvugt":
			return tBool(a.U > b.U)
		case "bvuge":
			return tBool(a.U >= b.U)
		case "bvslt":
			return tBool(a.sval() < b.sval())
		case "bvsle":
			return tBool(a.sval() <= b.sval())
		case "bvsgt":
			return tBool(a.sval() > b.sval())
		case "bvsge":
			return tBool(a.sval() >= b.sval())
		}
	}
	if a == b {
		switch op {
		case "bvult", "bvugt", "bvslt", "bvsgt":
			return tFalse
		default:
			return tTrue
		}
	}
	return mk(op, sBool, a, b)
}

func tBVNeg(a *Term) *Term {
	if a.IsConst() {
		return tBV(a.S.W, -a.U)
	}
	return mk("bvneg", a.S, a)
}

func tBVNot(a *Term) *Term {
	if a.IsConst() {
		return tBV(a.S.W, ^a.U)
	}
	return mk("bvnot", a.S, a)
}

// resize converts a bitvec to width w, sign- or zero-extending.
func tResize(a *Term, w int, signed bool) *Term {
	aw := a.S.W
	if aw == w {
		return a
	}
	if a.IsConst() {
		if w < aw {
			return tBV(w, a.U)
		}
		if signed {
			return tBV(w, uint64(a.sval()))
		}
		return tBV(w, a.U)
	}
	if isNat(a) && w > aw && !signed {
		return tNat(a.Args[0], w)
	}
	if w < aw {
		return mkS("extract", sBV(w), fmt.Sprintf("(_ extract %d 0)", w-1), a)
	}
	if signed {
		return mkS("ext", sBV(w), fmt.Sprintf("(_ sign_extend %d)", w-aw), a)
	}
	return mkS("ext", sBV(w), fmt.Sprintf("(_ zero_extend %d)", w-aw), a)
}

func tStrConcat(a, b *Term) *Term {
	if a.IsConst() && b.IsConst() {
		return tStr(a.Str + b.Str)
	}
	if a.IsConst() && a.Str == "" {
		return b
	}
	if b.IsConst() && b.Str == "" {
		return a
	}
	return mk("str.++", sString, a, b)
}

func tStrLt(a, b *Term) *Term {
	if a.IsConst() && b.IsConst() {
		return tBool(a.Str < b.Str)
	}
	if a == b {
		return tFalse
	}
	return mk("str.<", sBool, a, b)
}

func tStrLen(a *Term) *Term {
	if a.IsConst() {
		return tIntConst(int64(len(a.Str)))
	}
	return mk("str.len", sInt, a)
}

// bv2nat as Int
func tBV2Int(a *Term) *Term {
	if a.IsConst() {
		return tIntConst(int64(a.U))
	}
	if isNat(a) {
		return a.Args[0]
	}
	return mk("bv2nat", sInt, a)
}

// tNat is the bit-vector view of a mathematical integer n that is known
// (asserted at creation) to lie in [0, 2^w).  Keeping the integer visible lets
// equality, unsigned comparison and decimal formatting stay in the
// integer/string theories instead of going through bv2nat.
func tNat(n *Term, w int) *Term { return mkS("int2bv", sBV(w), "r", n) }

func isNat(a *Term) bool { return a.Op == "int2bv" && a.Str == "r" }

func natOrConst(a *Term) (*Term, bool) {
	if isNat(a) {
		return a.Args[0], true
	}
	if a.IsConst() && a.S.K == 'V' && a.S.W <= 64 && a.U < 1<<63 {
		return tIntConst(int64(a.U)), true
	}
	return nil, false
}

func tIntToStr(a *Term) *Term {
	if a.IsConst() {
		return tStr(strconv.FormatUint(a.U, 10))
	}
	return mk("str.from_int", sString, a)
}

// uninterpreted function application
func tApp(fn string, s Sort, args ...*Term) *Term {
	return mkS("app", s, fn, args...)
}

// ---------------------------------------------------------------------
// Printing

func smtStringLit(s string) string {
	var b strings.Builder
	b.WriteByte('"')
	for _, r := range []byte(s) {
		switch {
		case r == '"':
			b.WriteString(`""`)
		case r == '\\':
			b.WriteString(`\u{5c}`)
		case r >= 32 && r < 127:
			b.WriteByte(r)
		default:
			fmt.Fprintf(&b, `\u{%x}`, r)
		}
	}
	b.WriteByte('"')
	return b.String()
}

func (t *Term) constSMT() string {
	switch t.S.K {
	case 'B':
		if t.U == 1 {
			return "true"
		}
		return "false"
	case 'V':
		if t.S.W%4 == 0 {
			return fmt.Sprintf("#x%0*x", t.S.W/4, t.U)
		}
		return fmt.Sprintf("#b%0*b", t.S.W, t.U)
	case 'S':
		return smtStringLit(t.Str)
	case 'I':
		if t.Str != "" {
			return t.Str
		}
		v := int64(t.U)
		if v < 0 {
			return fmt.Sprintf("(- %d)", -v)
		}
		return fmt.Sprintf("%d", v)
	case 'F':
		bits := math.Float64bits(t.F)
		return fmt.Sprintf("((_ to_fp 11 53) #x%016x)", bits)
	}
	panic("constSMT")
}

// printer assigns names to shared non-leaf nodes via define-fun so the text
// stays linear in the DAG size.
type printer struct {
	names    map[*Term]string
	declared map[string]Sort
	funs     map[string]string
	out      *strings.Builder
	n        int
}

func newPrinter() *printer {
	return &printer{names: map[*Term]string{}, declared: map[string]Sort{}, funs: map[string]string{}, out: &strings.Builder{}}
}

// ref returns the SMT text referring to t, emitting any declarations needed
// into p.out first.
func (p *printer) ref(t *Term) string {
	if n, ok := p.names[t]; ok {
		return n
	}
	switch t.Op {
	case "const":
		return t.constSMT()
	case "var":
		if _, ok := p.declared[t.Str]; !ok {
			p.declared[t.Str] = t.S
			fmt.Fprintf(p.out, "(declare-fun %s () %s)\n", t.Str, t.S.smt())
		}
		return t.Str
	}
	args := make([]string, len(t.Args))
	for i, a := range t.Args {
		args[i] = p.ref(a)
	}
	var body string
	switch t.Op {
	case "extract", "ext":
		body = fmt.Sprintf("(%s %s)", t.Str, args[0])
	case "app":
		if _, ok := p.funs[t.Str]; !ok {
			var as []string
			for _, a := range t.Args {
				as = append(as, a.S.smt())
			}
			p.funs[t.Str] = "x"
			fmt.Fprintf(p.out, "(declare-fun %s (%s) %s)\n", t.Str, strings.Join(as, " "), t.S.smt())
		}
		body = fmt.Sprintf("(%s %s)", t.Str, strings.Join(args, " "))
	case "int2bv":
		body = fmt.Sprintf("((_ int2bv %d) %s)", t.S.W, args[0])
	case "<", "<=":
		body = fmt.Sprintf("(%s %s)", t.Op, strings.Join(args, " "))
	case "to_fp_s":
		body = fmt.Sprintf("((_ to_fp 11 53) RNE %s)", args[0])
	case "to_fp_u":
		body = fmt.Sprintf("((_ to_fp_unsigned 11 53) RNE %s)", args[0])
	case "fp_to_sbv":
		body = fmt.Sprintf("((_ fp.to_sbv %d) RTZ %s)", t.S.W, args[0])
	case "fp_to_ubv":
		body = fmt.Sprintf("((_ fp.to_ubv %d) RTZ %s)", t.S.W, args[0])
	case "fp.add", "fp.sub", "fp.mul", "fp.div":
		body = fmt.Sprintf("(%s RNE %s)", t.Op, strings.Join(args, " "))
	default:
		body = fmt.Sprintf("(%s %s)", t.Op, strings.Join(args, " "))
	}
	if t.size <= 3 {
		return body
	}
	p.n++
	name := fmt.Sprintf("t!%d", p.n)
	fmt.Fprintf(p.out, "(define-fun %s () %s %s)\n", name, t.S.smt(), body)
	p.names[t] = name
	return name
}

func (t *Term) smtDebug() string {
	p := newPrinter()
	r := p.ref(t)
	s := p.out.String() + r
	if len(s) > 400 {
		s = s[:400] + "..."
	}
	return s
}

// collectVars lists the variables under t.
func collectVars(t *Term, seen map[*Term]bool, out map[string]*Term) {
	if seen[t] {
		return
	}
	seen[t] = true
	if t.Op == "var" {
		out[t.Str] = t
	}
	for _, a := range t.Args {
		collectVars(a, seen, out)
	}
}

// evalTerm evaluates t under a model of variable values (used for known-finding
// input classes and model based shortcuts). Unsupported ops return nil.
func parseBVValue(s string, w int) (uint64, bool) {
	s = strings.TrimSpace(s)
	if strings.HasPrefix(s, "#x") {
		v, err := strconv.ParseUint(s[2:], 16, 64)
		return v, err == nil
	}
	if strings.HasPrefix(s, "#b") {
		v, err := strconv.ParseUint(s[2:], 2, 64)
		return v, err == nil
	}
	if strings.HasPrefix(s, "(_ bv") {
		f := strings.Fields(s[5:])
		if len(f) > 0 {
			b, ok := new(big.Int).SetString(f[0], 10)
			if ok {
				return b.Uint64(), true
			}
		}
	}
	return 0, false
}
