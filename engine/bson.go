package main

// Structural model of the BSON codec of go.mongodb.org/mongo-driver (the
// default struct codec): Go values <-> document trees (jnode), by `bson` struct
// tags.  Bytes are never produced; a marshalled document travels as a blob.
// Scalars may be symbolic.

import (
	"go/types"
	"reflect"
	"strings"
)

const (
	bsonPrimitivePath = "go.mongodb.org/mongo-driver/bson/primitive"
)

type bfield struct {
	name      string
	omitEmpty bool
	inline    bool
	skip      bool
}

func parseBSONTag(f *types.Var, tag string) bfield {
	bf := bfield{name: strings.ToLower(f.Name())}
	if !f.Exported() {
		bf.skip = true
		return bf
	}
	t, ok := reflect.StructTag(tag).Lookup("bson")
	if !ok && !strings.Contains(tag, ":") && len(tag) > 0 {
		t = tag
	}
	if t == "-" {
		bf.skip = true
		return bf
	}
	parts := strings.Split(t, ",")
	if parts[0] != "" {
		bf.name = parts[0]
	}
	for _, o := range parts[1:] {
		switch o {
		case "omitempty":
			bf.omitEmpty = true
		case "inline":
			bf.inline = true
		}
	}
	return bf
}

func isNamed(t types.Type, path, name string) bool {
	n, ok := t.(*types.Named)
	if !ok || n.Obj().Pkg() == nil {
		return false
	}
	return n.Obj().Pkg().Path() == path && n.Obj().Name() == name
}

// isBsonE reports whether t is primitive.E (the element type of bson.D).
func isBsonE(t types.Type) bool { return isNamed(t, bsonPrimitivePath, "E") }

type bsonErr struct{ msg string }

// bmarshal turns a Go value of static type t into a document tree.
func (ex *exec) bmarshal(t types.Type, v value) *jnode {
	if isNamed(t, "time", "Time") {
		return &jnode{k: jOpaque, val: v, gt: t}
	}
	switch u := t.Underlying().(type) {
	case *types.Basic:
		switch {
		case u.Info()&types.IsBoolean != 0:
			return &jnode{k: jBool, val: v}
		case u.Info()&types.IsString != 0:
			return &jnode{k: jStr, val: v}
		case u.Info()&types.IsNumeric != 0:
			return &jnode{k: jNum, val: v, gt: t}
		}
	case *types.Pointer:
		p := v.(*value)
		if p == nil {
			return &jnode{k: jNull}
		}
		return ex.bmarshal(u.Elem(), load(u.Elem(), p))
	case *types.Interface:
		it := v.(iface)
		if it.t == nil {
			return &jnode{k: jNull}
		}
		return ex.bmarshal(it.t, it.v)
	case *types.Slice:
		sl, _ := v.([]value)
		if eb, ok := u.Elem().Underlying().(*types.Basic); ok && eb.Kind() == types.Byte {
			if sl == nil {
				return &jnode{k: jNull}
			}
			return &jnode{k: jB64, b64: sl}
		}
		if isBsonE(u.Elem()) {
			// bson.D (and named types over it, e.g. schema.Filter): an ordered document
			n := &jnode{k: jObj}
			for i := range sl {
				e := sl[i].(structure)
				n.keys = append(n.keys, e[0])
				n.vals = append(n.vals, ex.bmarshal(emptyIface, e[1]))
			}
			return n
		}
		if sl == nil {
			return &jnode{k: jNull}
		}
		n := &jnode{k: jArr, arr: []*jnode{}}
		for i := range sl {
			n.arr = append(n.arr, ex.bmarshal(u.Elem(), load(u.Elem(), &sl[i])))
		}
		return n
	case *types.Array:
		a := v.(array)
		n := &jnode{k: jArr, arr: []*jnode{}}
		for i := range a {
			n.arr = append(n.arr, ex.bmarshal(u.Elem(), a[i]))
		}
		return n
	case *types.Map:
		m, _ := v.(*gmap)
		if m == nil {
			return &jnode{k: jNull}
		}
		n := &jnode{k: jObj}
		for _, e := range m.liveEntries() {
			n.keys = append(n.keys, e.k)
			n.vals = append(n.vals, ex.bmarshal(u.Elem(), e.v))
		}
		return n
	case *types.Struct:
		n := &jnode{k: jObj}
		ex.bmarshalStruct(u, v.(structure), n)
		return n
	}
	panic(bsonErr{"no encoder found for " + t.String()})
}

func (ex *exec) bmarshalStruct(u *types.Struct, st structure, n *jnode) {
	for i := 0; i < u.NumFields(); i++ {
		f := u.Field(i)
		bf := parseBSONTag(f, u.Tag(i))
		if bf.skip {
			continue
		}
		ft := f.Type()
		if bf.inline {
			et, ev := ft, st[i]
			if pt, ok := et.Underlying().(*types.Pointer); ok {
				p := ev.(*value)
				if p == nil {
					continue
				}
				et, ev = pt.Elem(), load(pt.Elem(), p)
			}
			if es, ok := et.Underlying().(*types.Struct); ok {
				ex.bmarshalStruct(es, ev.(structure), n)
				continue
			}
			ex.unsupported("bson inline of non-struct field %s", f.Name())
		}
		if bf.omitEmpty {
			// exact for BSON (the driver decodes into the caller's struct without zeroing it,
			// so whether a field is present matters): a symbolic scalar is omitted exactly when
			// it is zero - decided by the solver
			if sv, isSym := st[i].(symv); isSym {
				if sv.T.S.K == 'V' && ex.decide(tEq(sv.T, tBV(sv.T.S.W, 0))) {
					continue
				}
			} else if ex.isEmptyValue(ft, st[i]) {
				continue
			}
		}
		n.keys = append(n.keys, bf.name)
		n.vals = append(n.vals, ex.bmarshal(ft, st[i]))
	}
}

// bunmarshal decodes tree n into *addr of static type t.
func (ex *exec) bunmarshal(n *jnode, t types.Type, addr *value, ancestorMap bool) {
	if isNamed(t, "time", "Time") {
		if n.k == jOpaque {
			*addr = n.val
		}
		return
	}
	switch u := t.Underlying().(type) {
	case *types.Pointer:
		if n.k == jNull {
			*addr = (*value)(nil)
			return
		}
		p, _ := (*addr).(*value)
		if p == nil {
			cell := zero(u.Elem())
			p = &cell
			*addr = p
		}
		ex.bunmarshal(n, u.Elem(), p, ancestorMap)
	case *types.Interface:
		if u.NumMethods() != 0 {
			panic(bsonErr{"cannot decode into " + t.String()})
		}
		*addr = ex.bnatural(n, ancestorMap)
	case *types.Basic:
		switch n.k {
		case jNull:
			return
		case jBool:
			if u.Info()&types.IsBoolean == 0 {
				panic(bsonErr{"cannot decode boolean into " + t.String()})
			}
			*addr = n.val
		case jStr:
			if u.Info()&types.IsString == 0 {
				panic(bsonErr{"cannot decode string into " + t.String()})
			}
			*addr = n.val
		case jNum:
			if u.Info()&types.IsNumeric == 0 {
				panic(bsonErr{"cannot decode number into " + t.String()})
			}
			*addr = numToType(ex, n, t)
		default:
			panic(bsonErr{"cannot decode " + kindName(n.k) + " into " + t.String()})
		}
	case *types.Slice:
		if eb, ok := u.Elem().Underlying().(*types.Basic); ok && eb.Kind() == types.Byte {
			switch n.k {
			case jNull:
				*addr = []value(nil)
			case jB64:
				*addr = n.b64
			default:
				panic(bsonErr{"cannot decode " + kindName(n.k) + " into []byte"})
			}
			return
		}
		switch n.k {
		case jNull:
			*addr = []value(nil)
		case jArr:
			sl := make([]value, len(n.arr))
			for i := range sl {
				sl[i] = zero(u.Elem())
				ex.bunmarshal(n.arr[i], u.Elem(), &sl[i], ancestorMap)
			}
			*addr = sl
		case jObj:
			if isBsonE(u.Elem()) {
				sl := make([]value, len(n.keys))
				for i := range sl {
					sl[i] = structure{n.keys[i], ex.bnatural(n.vals[i], false)}
				}
				*addr = sl
				return
			}
			panic(bsonErr{"cannot decode document into " + t.String()})
		default:
			panic(bsonErr{"cannot decode " + kindName(n.k) + " into " + t.String()})
		}
	case *types.Map:
		switch n.k {
		case jNull:
			*addr = (*gmap)(nil)
		case jObj:
			m, _ := (*addr).(*gmap)
			if m == nil {
				m = makeMap(u.Key())
				*addr = m
			}
			for i, k := range n.keys {
				cell := zero(u.Elem())
				ex.bunmarshal(n.vals[i], u.Elem(), &cell, true)
				m.insert(ex, k, cell)
			}
		default:
			panic(bsonErr{"cannot decode " + kindName(n.k) + " into " + t.String()})
		}
	case *types.Struct:
		switch n.k {
		case jNull:
			return
		case jObj:
			st := (*addr).(structure)
			for i, k := range n.keys {
				ks, ok := k.(string)
				if !ok {
					ex.unsupported("symbolic document key decoded into a struct")
				}
				if !ex.bsetField(u, st, ks, n.vals[i]) {
					ex.bsetField(u, st, strings.ToLower(ks), n.vals[i])
				}
			}
		default:
			panic(bsonErr{"cannot decode " + kindName(n.k) + " into " + t.String()})
		}
	default:
		panic(bsonErr{"cannot decode into " + t.String()})
	}
}

func (ex *exec) bsetField(u *types.Struct, st structure, key string, n *jnode) bool {
	for i := 0; i < u.NumFields(); i++ {
		f := u.Field(i)
		bf := parseBSONTag(f, u.Tag(i))
		if bf.skip {
			continue
		}
		if bf.inline {
			et := f.Type()
			if pt, ok := et.Underlying().(*types.Pointer); ok {
				es, ok := pt.Elem().Underlying().(*types.Struct)
				if !ok {
					continue
				}
				p, _ := st[i].(*value)
				if p == nil {
					cell := zero(pt.Elem())
					if ex.bsetField(es, cell.(structure), key, n) {
						st[i] = &cell
						return true
					}
					continue
				}
				if ex.bsetField(es, (*p).(structure), key, n) {
					return true
				}
				continue
			}
			if es, ok := et.Underlying().(*types.Struct); ok {
				if ex.bsetField(es, st[i].(structure), key, n) {
					return true
				}
			}
			continue
		}
		if bf.name == key {
			ex.bunmarshal(n, f.Type(), &st[i], false)
			return true
		}
	}
	return false
}

// bnatural decodes into interface{}: documents become primitive.M below a map
// ancestor and primitive.D otherwise, arrays primitive.A, numbers keep their
// BSON type (int32 / int64 / double), binaries primitive.Binary.
func (ex *exec) bnatural(n *jnode, ancestorMap bool) value {
	switch n.k {
	case jNull:
		return iface{}
	case jBool:
		return iface{types.Typ[types.Bool], n.val}
	case jStr:
		return iface{types.Typ[types.String], n.val}
	case jOpaque:
		return iface{n.gt, n.val}
	case jNum:
		t := bsonNumType(n.gt)
		return iface{t, numToType(ex, n, t)}
	case jArr:
		sl := make([]value, len(n.arr))
		for i, e := range n.arr {
			sl[i] = ex.bnatural(e, ancestorMap)
		}
		return iface{ex.prog.namedType(bsonPrimitivePath, "A"), sl}
	case jObj:
		if ancestorMap {
			m := makeMap(types.Typ[types.String])
			for i, k := range n.keys {
				m.insert(ex, k, ex.bnatural(n.vals[i], true))
			}
			return iface{ex.prog.namedType(bsonPrimitivePath, "M"), m}
		}
		sl := make([]value, len(n.keys))
		for i := range sl {
			sl[i] = structure{n.keys[i], ex.bnatural(n.vals[i], false)}
		}
		return iface{ex.prog.namedType(bsonPrimitivePath, "D"), sl}
	case jB64:
		// primitive.Binary{Subtype byte; Data []byte}
		return iface{ex.prog.namedType(bsonPrimitivePath, "Binary"), structure{byte(0), n.b64}}
	}
	panic("bnatural")
}

// bsonNumType: the Go type a BSON number decodes to in an interface{}.
func bsonNumType(gt types.Type) types.Type {
	if gt == nil {
		return types.Typ[types.Float64]
	}
	b, ok := gt.Underlying().(*types.Basic)
	if !ok {
		return types.Typ[types.Float64]
	}
	switch b.Kind() {
	case types.Int8, types.Int16, types.Int32, types.Uint8, types.Uint16:
		return types.Typ[types.Int32]
	case types.Int, types.Int64, types.Uint, types.Uint32, types.Uint64:
		return types.Typ[types.Int64]
	}
	return types.Typ[types.Float64]
}
